"""C06 — call, expression and statement attributes mirror the source.

Proof: Cpf.Props.C06 (operator -> kind table from the regenerated literals; attribute extraction over tree shapes).
Correspondence: exact — the Lean attribute model vs the real Node fields on the real tree (shared with C05).
Oracle: the generator's model of each call / object creation / binary expression / statement vs what the real
scanner extracted: all 19 operators, nested and parenthesised operands, 0..n arguments of every literal kind,
qualified and unqualified receivers, every statement form with and without its optional parts."""
import collections, json
from checks import c05
from vlib import genjava as G

LEAN_MODULES = ["Cpf.Props.C06"]

KINDS = ("method_invocation", "ClassInstanceExpr", "binary_expression", "IfStmt", "WhileStmt", "DoStmt", "ForStmt", "BreakStmt",
         "ContinueStmt", "YieldStmt", "AssertStmt", "ReturnStmt", "BlockStmt") + tuple(sorted(set(G.OP_KIND.values())))


def expected_vs_real(e, n):
    diffs = []

    def cmp(attr, want, got):
        if want != got:
            diffs.append((attr, want, got))
    k = e["kind"]
    src = e["_src"]
    if k == "method_invocation":
        cmp("name", e["name"], n["name"])
        cmp("arguments", e["args"], c05.norm_list(n["argValues"]))
    elif k == "ClassInstanceExpr":
        ci = n.get("classInst") or {}
        cmp("class name", e["className"], ci.get("name"))
        cmp("arguments", e["args"], [a["text"] for a in ci.get("args", [])])
        cmp("name", e["className"], n["name"])
    elif k == "binary_expression" or k in G.OP_KIND.values():
        b = n.get("binary") or {}
        cmp("operator", e["op"], b.get("op"))
        cmp("left operand", e["left"], b.get("left"))
        cmp("right operand", e["right"], b.get("right"))
        if k != "binary_expression":
            cmp("operator-specific kind", G.OP_KIND[e["op"]], n["type"])
    elif k == "IfStmt":
        s = n.get("if") or {}
        cmp("condition", e["cond"], s.get("cond"))
        cmp("then", src[e["then_span"][0]:e["then_span"][1]].decode("utf-8"), s.get("then"))
        cmp("else", src[e["else_span"][0]:e["else_span"][1]].decode("utf-8") if e["else_span"] else "", s.get("else"))
    elif k == "WhileStmt":
        cmp("condition", e["cond"], (n.get("while") or {}).get("cond"))
    elif k == "DoStmt":
        cmp("condition", e["cond"], (n.get("do") or {}).get("cond"))
    elif k == "ForStmt":
        s = n.get("for") or {}
        cmp("init", e["init"], s.get("init"))
        cmp("condition", e["cond"], s.get("cond"))
        cmp("update", e["incr"], s.get("incr"))
    elif k == "BreakStmt":
        cmp("label", e["label"], (n.get("break") or {}).get("label"))
    elif k == "ContinueStmt":
        cmp("label", e["label"], (n.get("continue") or {}).get("label"))
    elif k == "YieldStmt":
        cmp("value", e["value"], (n.get("yield") or {}).get("value"))
    elif k == "AssertStmt":
        s = n.get("assert") or {}
        cmp("expression", e["expr"], s.get("expr"))
        cmp("message", e["msg"], s.get("msg"))
    elif k == "ReturnStmt":
        cmp("result", e["result"], (n.get("return") or {}).get("result"))
    elif k == "BlockStmt":
        want = [src[a:b].decode("utf-8") for a, b in e["stmt_spans"]]
        cmp("statements", want, (n.get("block") or {}).get("stmts"))
    return diffs


def run(run):
    # the generator's entities carry byte spans; give the comparison access to the source bytes
    orig = G.Gen.file

    def file_with_src(self, clsbase="K"):
        text, ents = orig(self, clsbase)
        b = text.encode("utf-8")
        for e in ents:
            e["_src"] = b
        return text, ents
    G.Gen.file = file_with_src
    try:
        c05.run(run, kinds=KINDS, pid="C06", compare=expected_vs_real)
    finally:
        G.Gen.file = orig
