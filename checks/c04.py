"""C04 — reported file, line and snippet always denote real source text.

Proof: Cpf.Props.C04 (regenerated facts about every Node literal; byte-level theorems for any byte string).
Correspondence: scan-model (entity ranges and lines) + tree-sitter's contract validated on every dumped tree.
Oracle: for every entity of every scanned file — generated (LF/CRLF, tabs, non-ASCII), android sample, token
mutations, random bytes, invalid UTF-8 — the file is a scanned file and the snippet bytes occur in it starting
on the reported 1-based line; text mode numbers the snippet lines from that line."""
import collections, json, os, random, re, shutil
from vlib import common as C, genjava as G, scan as S, mutjava as M

LEAN_MODULES = ["Cpf.Props.C04"]


def location_ok(src: bytes, line: int, snippet: bytes):
    """does `snippet` occur in `src` starting somewhere on 1-based line `line`?"""
    if line < 1:
        return False
    # byte offset of the start of that line
    pos = 0
    for _ in range(line - 1):
        nl = src.find(b"\n", pos)
        if nl < 0:
            return False
        pos = nl + 1
    end = src.find(b"\n", pos)
    end = len(src) if end < 0 else end
    p = pos
    while p <= end:
        if src[p:p + len(snippet)] == snippet:
            return True
        p += 1
    return False


def check_entities(run, src, file, nodes, stats, label):
    for n in nodes:
        sn = bytes.fromhex(n["snippetHex"])
        stats["entities"] += 1
        if n["file"] != file:
            run.violation("C04:wrong-file", "entity reports file %r but was scanned from %r" % (n["file"], file), dict(entity=n["type"], label=label))
            return False
        if not location_ok(src, n["line"], sn):
            run.violation("C04:location-mismatch", "%s entity: snippet %r does not occur in the file starting on reported line %d (%s input)" %
                          (n["type"], sn[:60], n["line"], label),
                          dict(kind=n["type"], line=n["line"], snippet_hex=n["snippetHex"][:400], source_hex=src.hex()[:6000], label=label))
            return False
    return True


def odd_paths(run, stats):
    """directories and files whose names contain blanks, non-ASCII letters, %, #, brackets: the reported file is the file"""
    root = C.scratch("c04 odd")
    try:
        names = ["my app/src/Alpha.java", "Größe.java", "a#b/Hash.java", "100%/Percent.java", "Two Words.java", "Two%20Words.java", "q?x/[b]/Quest.java", "plain/Plain.java", "日本/名前.java"]
        srcs = {}
        for i, rel in enumerate(names):
            p = os.path.join(root, rel)
            os.makedirs(os.path.dirname(p), exist_ok=True)
            text = "class C%d {\n  int f%d = %d;\n\n  int m%d(int a) {\n    return a + %d;\n  }\n}\n" % (i, i, i, i, i)
            open(p, "w", encoding="utf-8").write(text)
            srcs[p] = text.encode("utf-8")
        from checks import c18
        for out_mode in ("json",):
            rc, so, se = C.cli(["query", "--project", root, "--query", "FROM method_declaration AS md SELECT md.getName()", "--output", out_mode, "--disable-metrics"], timeout=300)
            run.count(("odd-paths", out_mode))
            stats["odd_path_files"] += len(names)
            try:
                doc = json.loads(c18.last_json(so))
            except Exception:
                doc = None
            if rc != 0 or doc is None:
                run.violation("C04:odd-paths-scan-failed", "the scan of a project whose paths contain blanks, %%, #, non-ASCII letters ends with rc=%s and no report" % rc, dict(names=names))
                return
            seen = collections.Counter()
            for e in doc.get("result_set") or []:
                src = srcs.get(e["file"])
                seen[e["file"]] += 1
                if src is None:
                    run.violation("C04:wrong-file", "a method is reported for %r, which is not one of the scanned files (%s)" % (e["file"], ", ".join(sorted(os.path.relpath(f, root) for f in srcs))[:300]),
                                  dict(reported=e["file"], names=names))
                    return
                if not location_ok(src, e["line"], e["code"].encode("utf-8")):
                    run.violation("C04:location-mismatch", "method reported for %r line %s, but its snippet does not begin there" % (os.path.relpath(e["file"], root), e["line"]), dict(reported=e["file"], names=names))
                    return
            missing = [os.path.relpath(f, root) for f in srcs if seen[f] != 1]
            if missing:
                run.violation("C04:wrong-file", "every file declares one method; for %s the report has another number" % missing[:4], dict(names=names, counts={os.path.relpath(f, root): seen[f] for f in srcs}))
    finally:
        shutil.rmtree(root, ignore_errors=True)


def big_project(run, rng, stats, quick):
    """a project with machine-generated sources of a megabyte and more that take seconds to parse (statements that stay
    ambiguous to their end), listed before ordinary large sources: every reported method of every file is where the
    report says, and no file is dropped"""
    root = C.scratch("c04big")
    try:
        stmt = "    x = (a) -(a) -(a) -(a) -(a) -(a) -(a) -(a) - 1;\n"
        want = {}
        for i in range(2 if quick else 5):
            parts, n, k = ["package gen;\n\nclass Table%d {\n  int a; int x;\n" % i], 0, 0
            while n < (1200000 if quick else 3000000):
                m = "  void t%d_%d() {\n" % (i, k) + stmt * 100 + "  }\n"
                parts.append(m)
                n += len(m)
                k += 1
            parts.append("}\n")
            os.makedirs(os.path.join(root, "a_generated"), exist_ok=True)
            open(os.path.join(root, "a_generated", "Table%d.java" % i), "w").write("".join(parts))
            want[os.path.join(root, "a_generated", "Table%d.java" % i)] = k
        for i in range(6 if quick else 8):
            parts, n, k = ["package app;\n\nclass Svc%d {\n" % i], 0, 0
            while n < (700000 if quick else 1600000):
                m = "    int s%d_%d(int a, int b) {\n        int r = a;\n\n" % (i, k)
                for j in range(25):
                    m += "        if (a > b) {\n            r = r + %d;\n        }\n\n        r = foo(r, b);\n" % (k * 25 + j)
                m += "        return r;\n    }\n\n"
                parts.append(m)
                n += len(m)
                k += 1
            parts.append("    int foo(int p, int q) {\n        return p;\n    }\n}\n")
            os.makedirs(os.path.join(root, "b_app"), exist_ok=True)
            open(os.path.join(root, "b_app", "Svc%d.java" % i), "w").write("".join(parts))
            want[os.path.join(root, "b_app", "Svc%d.java" % i)] = k + 1
        # (methods and classes: a class of these sources is an entity of a megabyte)
        rc, so, se = C.cli(["query", "--project", root, "--query", "FROM method_declaration AS md SELECT md.getName()", "--output", "json", "--disable-metrics"], timeout=900)
        rc2, so2, se2 = C.cli(["query", "--project", os.path.join(root, "b_app"), "--query", "FROM class_declaration AS cd SELECT cd.getName()", "--output", "json", "--disable-metrics"], timeout=900)
        try:
            from checks import c18 as _c18
            doc2 = json.loads(_c18.last_json(so2))
        except Exception:
            doc2 = None
        if rc2 != 0 or doc2 is None:
            run.violation("C04:big-project-scan-failed", "the scan of large sources (class query) ends with rc=%s and no report" % rc2, dict(stderr=se2[-600:].decode("utf-8", "replace")))
        else:
            for e in doc2.get("result_set") or []:
                stats["big_project_entities"] += 1
                try:
                    srcb = open(e["file"], "rb").read()
                except Exception:
                    srcb = None
                if srcb is None or not location_ok(srcb, e["line"], e["code"].encode("utf-8")):
                    run.violation("C04:location-mismatch", "class reported for %s line %s with a snippet of %d bytes that is not the text of the file from that line on (it ends %r)" %
                                  (os.path.relpath(e["file"], root), e["line"], len(e["code"]), e["code"][-40:]),
                                  dict(file=os.path.relpath(e["file"], root), line=e["line"], snippet_bytes=len(e["code"]), snippet_end=e["code"][-200:], generator="checks/c04.py big_project"))
                    break
        run.count(("big-project", len(want)))
        stats["big_project_files"] += len(want)
        from checks import c18
        raw = c18.last_json(so)
        try:
            doc = json.loads(raw)
        except Exception:
            doc = None
        if rc != 0 or doc is None:
            run.violation("C04:big-project-scan-failed", "the scan of %d large sources ends with rc=%s and no report" % (len(want), rc),
                          dict(files={os.path.relpath(f, root): n for f, n in want.items()}, stderr=se[-600:].decode("utf-8", "replace")))
            return
        srcs = {f: open(f, "rb").read() for f in want}
        got = collections.Counter()
        for e in doc.get("result_set") or []:
            got[e["file"]] += 1
            stats["big_project_entities"] += 1
            src = srcs.get(e["file"])
            if src is None or not location_ok(src, e["line"], e["code"].encode("utf-8")):
                run.violation("C04:location-mismatch", "method reported for %s line %s, but its snippet %r does not begin on that line of that file (project of %d large sources)" %
                              (os.path.relpath(e["file"], root), e["line"], e["code"][:50], len(want)),
                              dict(file=os.path.relpath(e["file"], root), line=e["line"], snippet=e["code"][:300],
                                   files={os.path.relpath(f, root): len(b) for f, b in srcs.items()}, generator="checks/c04.py big_project"))
                return
        for f, n in want.items():
            if got[f] != n:
                run.violation("C04:big-project-file-incomplete", "%s declares %d methods, %d are reported (project of %d large sources)" % (os.path.relpath(f, root), n, got[f], len(want)),
                              dict(file=os.path.relpath(f, root), files={os.path.relpath(x, root): len(b) for x, b in srcs.items()}, generator="checks/c04.py big_project"))
                return
    finally:
        shutil.rmtree(root, ignore_errors=True)


def run(run):
    C.build_driver()
    h, d = C.Harness(), C.Driver()
    rng = run.rng
    quick = run.depth == "quick"
    stats = collections.Counter()
    mism, contract = [], []
    try:
        inputs = []
        for i in range(8 if quick else 80):
            g = G.Gen(random.Random(rng.random()), G.Opts(unique=rng.random() < 0.5, classes=rng.randint(1, 2), methods=rng.randint(1, 4), stmts=rng.randint(1, 6), depth=rng.randint(0, 2),
                                                          eol=rng.choice(["\n", "\r\n"]), indent=rng.choice(["    ", "\t", "  "]), nonascii=rng.random() < 0.5))
            inputs.append(("generated", g.file("K")[0].encode("utf-8")))
        android = []
        for root, _, files in os.walk(os.path.join(C.REPO, "test-src", "android")):
            for f in sorted(files):
                if f.endswith(".java"):
                    android.append(open(os.path.join(root, f), "rb").read())
        for a in android[: (6 if quick else len(android))]:
            inputs.append(("android", a))
        base = list(inputs)
        for i in range(40 if quick else 1500):
            inputs.append(("mutated", M.mutate(rng, rng.choice(base)[1])))
        for i in range(20 if quick else 400):
            inputs.append(("random-bytes", M.random_bytes(rng, rng.randint(0, 300))))
        inputs.append(("invalid-utf8", b"class A { String s = \"\xff\xfe\"; /* \xc3 */ void f() { int \xe9 = 1 + 2; } }\n"))
        inputs.append(("crlf-tabs", b"class A {\r\n\tvoid f() {\r\n\t\tif (a >\r\n\t\t\t0) {\r\n\t\t\trun(\"x\",\r\n\t\t\t\t1);\r\n\t\t}\r\n\t}\r\n}\r\n"))
        inputs.append(("empty", b""))
        for label, src in inputs:
            file = "some/dir/X.java"
            real = S.real_build(h, src, file)
            run.count((label, hash(src)))
            if real.get("outcome") != "ok":
                run.violation("C04:scan-abnormal", "scan ends with %s on a %s input" % (real.get("outcome"), label), dict(source_hex=src.hex()[:4000], panic=real.get("panic")))
                continue
            stats["files:" + label] += 1
            check_entities(run, src, file, real["nodes"], stats, label)
            cv = S.contract_violations(real["tree"], src)
            if cv:
                contract.append(dict(label=label, first=cv[:2]))
            model = S.model_build(d, src, file, real["tree"])
            mm, _ = S.compare(real, model, src, file)
            if mm:
                mism.append(dict(label=label, first=mm[:2]))
        run.sample(dict(label="crlf-tabs", source=inputs[-2][1].decode()))
        # project level through Initialize + the CLI's text mode numbering
        root = C.scratch("c04proj")
        try:
            rels = {}
            for i in range(12):
                g = G.Gen(random.Random(rng.random()), G.Opts(unique=True, classes=1, methods=2, stmts=3, depth=1, eol=rng.choice(["\n", "\r\n"]),
                                                              indent=["    ", "\t", "\t", "  \t"][i % 4]))
                lead = [b"", b"\n\n", b"\r\n\n   \n", b" \t", b"\n"][i % 5]       # files that start with blank lines / blanks
                rels["a/b%d/F%d.java" % (i % 4, i)] = lead + g.file("P%d_" % i)[0].encode("utf-8") + [b"", b"\n\n\n", b"  "][i % 3]
            for rel, b in rels.items():
                p = os.path.join(root, rel)
                os.makedirs(os.path.dirname(p), exist_ok=True)
                open(p, "wb").write(b)
            # entries the walk lists as .java files but that cannot be opened (dangling links), after and between
            # the readable ones: nothing may be reported for them, whatever a worker parsed just before
            for i in range(10):
                os.symlink(os.path.join(root, "nowhere%d.java" % i), os.path.join(root, "a", "b%d" % (i % 4), "G%d_gone.java" % i))
            os.makedirs(os.path.join(root, "zz"), exist_ok=True)
            for i in range(6):
                os.symlink(os.path.join(root, "nowhere.java"), os.path.join(root, "zz", "Gone%d.java" % i))
            scanned = {os.path.join(root, rel): b for rel, b in rels.items()}
            all_nodes = []
            for rep in range(3):
                r = h.call(op="scan", dir=root, graph="p")
                stats["project_scans"] += 1
                all_nodes += r["nodes"] if rep else []
            for n in all_nodes + r["nodes"]:
                stats["entities"] += 1
                if n["file"] not in scanned:
                    run.violation("C04:file-not-scanned", "reported file %r is not a scanned file" % n["file"], dict(files=sorted(rels)))
                    break
                if not location_ok(scanned[n["file"]], n["line"], bytes.fromhex(n["snippetHex"])):
                    run.violation("C04:location-mismatch", "%s entity: snippet does not occur on reported line %d of %s" % (n["type"], n["line"], n["file"]),
                                  dict(kind=n["type"], line=n["line"], snippet=n["snippet"][:200]))
                    break
            for kind in ("method_declaration", "IfStmt", "BlockStmt"):
                rc, so, se = C.cli(["query", "--project", root, "--query", "FROM %s AS x SELECT x.toString()" % kind if False else "FROM %s AS x SELECT \"k\"" % kind, "--disable-metrics"])
                text = so.decode("utf-8", "replace").replace("\x1b[H\x1b[J", "")
                cur = None
                for line in text.split("\n"):
                    m = re.match(r"^\tFile: (.*), Line: (\d+) $", line)
                    if m:
                        cur = (m.group(1), int(m.group(2)), 0)
                        continue
                    m2 = re.match(r"^\t\t\s*(\d+) \| (.*)$", line)
                    if m2 and cur:
                        f, ln, i = cur
                        want_no = ln + i
                        file_lines = scanned.get(f, b"").split(b"\n")
                        shown = m2.group(2).encode("utf-8")
                        stats["text_lines"] += 1
                        ok = int(m2.group(1)) == want_no and want_no - 1 < len(file_lines) and shown.rstrip(b"\r") in file_lines[want_no - 1]
                        if not ok:
                            run.violation("C04:text-mode-numbering", "text mode shows %r as line %s of %s" % (m2.group(2)[:60], m2.group(1), f), dict(kind=kind))
                            cur = None
                            continue
                        cur = (f, ln, i + 1)
        finally:
            shutil.rmtree(root, ignore_errors=True)
        odd_paths(run, stats)
        big_project(run, rng, stats, quick)
    finally:
        h.close()
        d.close()
    run.extra["histogram"] = dict(stats)
    if contract:
        run.broken_obligation("assumption:tree-sitter-contract", "start row/column/byte offsets of a dumped tree do not satisfy the assumed contract: %s" % json.dumps(contract[:2]))
    if mism:
        run.broken_obligation("correspondence:scan-model", "model vs implementation: %s" % json.dumps(mism[:2])[:1200])
