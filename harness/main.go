// cpfh: verification harness. Calls the real code-pathfinder functions in-process
// (built from /repo's working tree with -tags verif) and answers one JSON request per line
// with one JSON response per line. Every operation runs under recover; the process' own
// stdout is re-pointed to /dev/null so that the library's progress chatter cannot corrupt
// the protocol stream (responses go to a dup of the original fd 1).
package main

import (
	"bufio"
	"bytes"
	"context"
	"encoding/hex"
	"encoding/json"
	"fmt"
	"io"
	"net/http"
	"os"
	"path/filepath"
	"runtime"
	"sort"
	"strings"
	"sync"
	"sync/atomic"
	"syscall"
	"time"

	"github.com/antlr4-go/antlr/v4"
	"github.com/expr-lang/expr"
	parser "github.com/shivasurya/code-pathfinder/sourcecode-parser/antlr"
	"github.com/shivasurya/code-pathfinder/sourcecode-parser/cmd"
	"github.com/shivasurya/code-pathfinder/sourcecode-parser/graph"
	"github.com/shivasurya/code-pathfinder/sourcecode-parser/model"
	sitter "github.com/smacker/go-tree-sitter"
	"github.com/smacker/go-tree-sitter/java"
)

type Req struct {
	Op        string                   `json:"op"`
	Dir       string                   `json:"dir,omitempty"`
	Graph     string                   `json:"graph,omitempty"`
	Q         string                   `json:"q,omitempty"`
	Output    string                   `json:"output,omitempty"`
	Src       string                   `json:"src,omitempty"` // base64? no: JSON string holding raw bytes via latin-1 mapping when Bin is set
	Hex       string                   `json:"hex,omitempty"` // hex-encoded bytes (source files with arbitrary bytes)
	File      string                   `json:"file,omitempty"`
	Path      string                   `json:"path,omitempty"`
	Text      string                   `json:"text,omitempty"`
	Order     []string                 `json:"order,omitempty"`
	Procs     int                      `json:"procs,omitempty"`
	Strs      []string                 `json:"strs,omitempty"`
	Bundle    string                   `json:"bundle,omitempty"`
	Results   json.RawMessage          `json:"results,omitempty"`
	Env       map[string]string        `json:"env,omitempty"`
	Qs        []string                 `json:"qs,omitempty"`
	Entity    []map[string]interface{} `json:"entity,omitempty"`
	NoNodes   bool                     `json:"nonodes,omitempty"`
	Delays    map[string]int           `json:"delays,omitempty"`     // path -> milliseconds to stall before a worker processes it
	MergeGate int                      `json:"merge_gate,omitempty"` // > 0: whoever merges a per-file graph first waits for the next multiple of this many milliseconds (concurrent mergers, if any, then start together)
}

type Resp map[string]interface{}

var graphs = map[string]*graph.CodeGraph{}
var out *bufio.Writer

func exprStr(e *model.Expr) interface{} {
	if e == nil {
		return nil
	}
	return e.NodeString
}

func dumpNode(n *graph.Node) map[string]interface{} {
	m := map[string]interface{}{
		"id": n.ID, "type": n.Type, "name": n.Name, "snippet": n.CodeSnippet, "snippetHex": hex.EncodeToString([]byte(n.CodeSnippet)), "line": n.LineNumber,
		"file": n.File, "external": n.IsExternal, "modifier": n.Modifier, "returnType": n.ReturnType,
		"argTypes": n.MethodArgumentsType, "argValues": n.MethodArgumentsValue, "package": n.PackageName,
		"superClass": n.SuperClass, "interfaces": n.Interface, "dataType": n.DataType, "scope": n.Scope,
		"value": n.VariableValue, "hasAccess": graph.VerifNodeHasAccess(n), "isJava": graph.VerifNodeIsJavaSourceFile(n),
		"throws": n.ThrowsExceptions, "annotations": n.Annotation, "nedges": len(n.OutgoingEdges),
	}
	if n.JavaDoc != nil {
		tags := []map[string]string{}
		for _, t := range n.JavaDoc.Tags {
			tags = append(tags, map[string]string{"name": t.TagName, "text": t.Text, "type": t.DocType})
		}
		m["javadoc"] = map[string]interface{}{"tags": tags, "lines": n.JavaDoc.NumberOfCommentLines,
			"content": n.JavaDoc.CommentedCodeElements, "version": n.JavaDoc.Version, "author": n.JavaDoc.Author}
	}
	if n.BinaryExpr != nil {
		m["binary"] = map[string]interface{}{"op": n.BinaryExpr.Op, "left": exprStr(n.BinaryExpr.LeftOperand), "right": exprStr(n.BinaryExpr.RightOperand)}
	}
	if n.ClassInstanceExpr != nil {
		args := []interface{}{}
		for _, a := range n.ClassInstanceExpr.Args {
			args = append(args, map[string]interface{}{"type": a.Type, "text": a.NodeString})
		}
		m["classInst"] = map[string]interface{}{"name": n.ClassInstanceExpr.ClassName, "args": args}
	}
	if n.IfStmt != nil {
		m["if"] = map[string]interface{}{"cond": exprStr(n.IfStmt.Condition), "then": n.IfStmt.Then.NodeString, "else": n.IfStmt.Else.NodeString}
	}
	if n.WhileStmt != nil {
		m["while"] = map[string]interface{}{"cond": exprStr(n.WhileStmt.Condition)}
	}
	if n.DoStmt != nil {
		m["do"] = map[string]interface{}{"cond": exprStr(n.DoStmt.Condition)}
	}
	if n.ForStmt != nil {
		m["for"] = map[string]interface{}{"init": exprStr(n.ForStmt.Init), "cond": exprStr(n.ForStmt.Condition), "incr": exprStr(n.ForStmt.Increment)}
	}
	if n.BreakStmt != nil {
		m["break"] = map[string]interface{}{"label": n.BreakStmt.Label}
	}
	if n.ContinueStmt != nil {
		m["continue"] = map[string]interface{}{"label": n.ContinueStmt.Label}
	}
	if n.YieldStmt != nil {
		m["yield"] = map[string]interface{}{"value": exprStr(n.YieldStmt.Value)}
	}
	if n.AssertStmt != nil {
		m["assert"] = map[string]interface{}{"expr": exprStr(n.AssertStmt.Expr), "msg": exprStr(n.AssertStmt.Message)}
	}
	if n.ReturnStmt != nil {
		m["return"] = map[string]interface{}{"result": exprStr(n.ReturnStmt.Result)}
	}
	if n.BlockStmt != nil {
		st := []string{}
		for _, s := range n.BlockStmt.Stmts {
			st = append(st, s.NodeString)
		}
		m["block"] = map[string]interface{}{"stmts": st}
	}
	return m
}

func dumpGraph(g *graph.CodeGraph) Resp {
	ids := make([]string, 0, len(g.Nodes))
	for id := range g.Nodes {
		ids = append(ids, id)
	}
	sort.Strings(ids)
	nodes := make([]map[string]interface{}, 0, len(ids))
	for _, id := range ids {
		n := g.Nodes[id]
		d := dumpNode(n)
		d["key"] = id
		nodes = append(nodes, d)
	}
	edges := make([][2]string, 0, len(g.Edges))
	for _, e := range g.Edges {
		edges = append(edges, [2]string{e.From.ID, e.To.ID})
	}
	sort.Slice(edges, func(i, j int) bool {
		if edges[i][0] != edges[j][0] {
			return edges[i][0] < edges[j][0]
		}
		return edges[i][1] < edges[j][1]
	})
	return Resp{"nodes": nodes, "edges": edges}
}

func srcBytes(r *Req) []byte {
	if r.Hex != "" || r.Src == "" {
		b := make([]byte, len(r.Hex)/2)
		for i := 0; i < len(b); i++ {
			fmt.Sscanf(r.Hex[2*i:2*i+2], "%02x", &b[i])
		}
		return b
	}
	return []byte(r.Src)
}

func dumpTree(n *sitter.Node, field string) map[string]interface{} {
	m := map[string]interface{}{
		"t": n.Type(), "sb": n.StartByte(), "eb": n.EndByte(),
		"sr": n.StartPoint().Row, "sc": n.StartPoint().Column,
		"named": n.IsNamed(),
	}
	if field != "" {
		m["f"] = field
	}
	if n.IsMissing() {
		m["missing"] = true
	}
	cc := int(n.ChildCount())
	if cc > 0 {
		ch := make([]interface{}, 0, cc)
		for i := 0; i < cc; i++ {
			ch = append(ch, dumpTree(n.Child(i), n.FieldNameForChild(i)))
		}
		m["c"] = ch
	}
	return m
}

// ---- stub HTTP transport for hosted rulesets ----
type stubTransport struct {
	body   []byte
	status int
	urls   []string
}

func (s *stubTransport) RoundTrip(r *http.Request) (*http.Response, error) {
	s.urls = append(s.urls, r.URL.String())
	return &http.Response{StatusCode: s.status, Status: fmt.Sprintf("%d", s.status), Body: io.NopCloser(bytes.NewReader(s.body)),
		Header: http.Header{"Content-Type": []string{"application/json"}}, Request: r, ProtoMajor: 1, ProtoMinor: 1}, nil
}

func handle(r *Req) (resp Resp) {
	resp = Resp{}
	defer func() {
		if p := recover(); p != nil {
			buf := make([]byte, 4096)
			n := runtime.Stack(buf, false)
			resp = Resp{"outcome": "panic", "panic": fmt.Sprint(p), "stack": string(buf[:n])}
		}
	}()
	switch r.Op {
	case "ping":
		resp["outcome"] = "ok"
	case "scan":
		g := graph.Initialize(r.Dir)
		graphs[r.Graph] = g
		if !r.NoNodes {
			d := dumpGraph(g)
			resp["nodes"] = d["nodes"]
			resp["edges"] = d["edges"]
		}
		resp["n"] = len(g.Nodes)
		resp["outcome"] = "ok"
	case "dump":
		g := graphs[r.Graph]
		d := dumpGraph(g)
		resp["nodes"] = d["nodes"]
		resp["edges"] = d["edges"]
		resp["outcome"] = "ok"
	case "scan-order":
		// Force the arrival order of per-file results: each worker, before processing file f,
		// waits until all files earlier in r.Order have been merged... that would deadlock with
		// 5 workers and FIFO channel hand-out, so instead delay by rank.
		rank := map[string]int{}
		for i, p := range r.Order {
			rank[p] = i
		}
		var merged []string
		var mu sync.Mutex
		graph.VerifBeforeFile = func(p string) {
			if k, ok := rank[p]; ok {
				time.Sleep(time.Duration(k) * 15 * time.Millisecond)
			}
			if ms, ok := r.Delays[p]; ok {
				time.Sleep(time.Duration(ms) * time.Millisecond)
			}
		}
		graph.VerifOnMerge = func(l *graph.CodeGraph) {
			func() {
				mu.Lock()
				defer mu.Unlock()
				f := ""
				for _, n := range l.Nodes {
					f = n.File
					break
				}
				merged = append(merged, f)
			}()
			if r.MergeGate > 0 {
				gate := time.Duration(r.MergeGate) * time.Millisecond
				next := time.Now().Truncate(gate).Add(gate)
				if d := time.Until(next) - 200*time.Microsecond; d > 0 {
					time.Sleep(d)
				}
				for time.Now().Before(next) {
				}
			}
		}
		if r.Procs > 0 {
			defer runtime.GOMAXPROCS(runtime.GOMAXPROCS(r.Procs))
		}
		done := make(chan *graph.CodeGraph, 1)
		go func() {
			defer func() {
				if p := recover(); p != nil {
					done <- nil
				}
			}()
			done <- graph.Initialize(r.Dir)
		}()
		select {
		case g := <-done:
			graph.VerifBeforeFile, graph.VerifOnMerge = nil, nil
			if g == nil {
				resp["outcome"] = "panic"
				return
			}
			graphs[r.Graph] = g
			d := dumpGraph(g)
			resp["nodes"] = d["nodes"]
			resp["edges"] = d["edges"]
			resp["merged"] = merged
			resp["outcome"] = "ok"
		case <-time.After(180 * time.Second):
			resp["outcome"] = "hang"
		}
	case "query":
		g := graphs[r.Graph]
		if g == nil {
			g = graph.NewCodeGraph()
		}
		res, err := cmd.VerifProcessQuery(r.Q, g, r.Output)
		resp["result"] = res
		if err != nil {
			resp["outcome"] = "diag"
			resp["err"] = err.Error()
		} else {
			resp["outcome"] = "ok"
		}
	case "query-entities":
		// parser.ParseQuery + graph.QueryEntities without the cmd layer
		g := graphs[r.Graph]
		pq, err := parser.ParseQuery(r.Q)
		if err != nil {
			resp["outcome"] = "diag"
			resp["err"] = err.Error()
			return
		}
		ents, outp := graph.QueryEntities(g, pq)
		rows := [][]string{}
		for _, t := range ents {
			row := []string{}
			for _, n := range t {
				row = append(row, n.ID)
			}
			rows = append(rows, row)
		}
		resp["tuples"] = rows
		resp["output"] = outp
		resp["outcome"] = "ok"
	case "eval-atoms":
		// evaluate each atom text on each tuple with expr-lang against the real per-tuple environment:
		// 't' true, 'f' false, 'n' non-boolean value, 'e' run-time error, 'c' compile error, 'p' panic
		g := graphs[r.Graph]
		pq, err := parser.ParseQuery(r.Q)
		if err != nil {
			resp["outcome"] = "diag"
			resp["err"] = err.Error()
			return
		}
		var tuples [][]string
		if e := json.Unmarshal(r.Results, &tuples); e != nil {
			resp["outcome"] = "bad-request"
			return
		}
		tables := []string{}
		for _, atom := range r.Strs {
			row := make([]byte, len(tuples))
			for i, tp := range tuples {
				func() {
					defer func() {
						if p := recover(); p != nil {
							row[i] = 'p'
						}
					}()
					ns := make([]*graph.Node, len(tp))
					for j, id := range tp {
						ns[j] = g.Nodes[id]
					}
					env := graph.VerifGenerateProxyEnvForSet(ns, pq)
					prog, err := expr.Compile(atom, expr.Env(env))
					if err != nil {
						row[i] = 'c'
						return
					}
					v, err := expr.Run(prog, env)
					if err != nil {
						row[i] = 'e'
						return
					}
					if b, ok := v.(bool); ok {
						if b {
							row[i] = 't'
						} else {
							row[i] = 'f'
						}
					} else {
						row[i] = 'n'
					}
				}()
			}
			tables = append(tables, string(row))
		}
		resp["tables"] = tables
		resp["outcome"] = "ok"
	case "parse":
		pq, err := parser.ParseQuery(r.Q)
		if err != nil {
			resp["outcome"] = "diag"
			resp["err"] = err.Error()
			return
		}
		resp["outcome"] = "ok"
		sl := [][2]string{}
		for _, s := range pq.SelectList {
			sl = append(sl, [2]string{s.Entity, s.Alias})
		}
		so := [][2]string{}
		for _, s := range pq.SelectOutput {
			so = append(so, [2]string{s.Type, s.SelectEntity})
		}
		preds := []interface{}{}
		for _, p := range pq.Predicate {
			ps := [][2]string{}
			for _, a := range p.Parameter {
				ps = append(ps, [2]string{a.Type, a.Name})
			}
			preds = append(preds, map[string]interface{}{"name": p.PredicateName, "params": ps, "body": p.Body})
		}
		invs := []interface{}{}
		for _, p := range pq.PredicateInvocation {
			ps := [][2]string{}
			for _, a := range p.Parameter {
				ps = append(ps, [2]string{a.Type, a.Name})
			}
			mps := [][2]string{}
			for _, a := range p.Predicate.Parameter {
				mps = append(mps, [2]string{a.Type, a.Name})
			}
			invs = append(invs, map[string]interface{}{"name": p.PredicateName, "args": ps,
				"matched": map[string]interface{}{"name": p.Predicate.PredicateName, "params": mps, "body": p.Predicate.Body}})
		}
		resp["from"] = sl
		resp["select"] = so
		resp["preds"] = preds
		resp["invocations"] = invs
		resp["conditions"] = pq.Condition
		resp["expression"] = pq.Expression
	case "accept-batch":
		// one character per query: 'a' accepted, 'r' rejected with a diagnostic, 'p' panicked
		res := make([]byte, len(r.Qs))
		for i, q := range r.Qs {
			func() {
				defer func() {
					if p := recover(); p != nil {
						res[i] = 'p'
					}
				}()
				if _, err := parser.ParseQuery(q); err != nil {
					res[i] = 'r'
				} else {
					res[i] = 'a'
				}
			}()
		}
		resp["res"] = string(res)
		resp["outcome"] = "ok"
	case "lex":
		is := antlr.NewInputStream(r.Q)
		lx := parser.NewQueryLexer(is)
		lx.RemoveErrorListeners()
		el := &errCounter{}
		lx.AddErrorListener(el)
		toks := [][2]string{}
		for {
			t := lx.NextToken()
			if t.GetTokenType() == antlr.TokenEOF {
				break
			}
			name := ""
			tt := t.GetTokenType()
			if tt >= 0 && tt < len(lx.SymbolicNames) && lx.SymbolicNames[tt] != "" {
				name = lx.SymbolicNames[tt]
			} else if tt >= 0 && tt < len(lx.LiteralNames) {
				name = lx.LiteralNames[tt]
			}
			toks = append(toks, [2]string{name, t.GetText()})
		}
		resp["tokens"] = toks
		resp["errors"] = el.n
		resp["outcome"] = "ok"
	case "tree":
		src := srcBytes(r)
		p := sitter.NewParser()
		defer p.Close()
		p.SetLanguage(java.GetLanguage())
		tree, err := p.ParseCtx(context.TODO(), nil, src)
		if err != nil {
			resp["outcome"] = "diag"
			resp["err"] = err.Error()
			return
		}
		defer tree.Close()
		resp["tree"] = dumpTree(tree.RootNode(), "")
		resp["outcome"] = "ok"
	case "build":
		// buildGraphFromAST on one in-memory file, with the operation counter
		src := srcBytes(r)
		p := sitter.NewParser()
		defer p.Close()
		p.SetLanguage(java.GetLanguage())
		tree, err := p.ParseCtx(context.TODO(), nil, src)
		if err != nil {
			resp["outcome"] = "diag"
			resp["err"] = err.Error()
			return
		}
		defer tree.Close()
		var ops int64
		graph.VerifCountOp = func() { atomic.AddInt64(&ops, 1) }
		defer func() { graph.VerifCountOp = nil }()
		g := graph.NewCodeGraph()
		t0 := time.Now()
		graph.VerifBuildGraphFromAST(tree.RootNode(), src, g, nil, r.File)
		resp["ms"] = time.Since(t0).Milliseconds()
		resp["ops"] = ops
		if !r.NoNodes {
			d := dumpGraph(g)
			resp["nodes"] = d["nodes"]
			resp["edges"] = d["edges"]
			resp["tree"] = dumpTree(tree.RootNode(), "")
		}
		if r.Graph != "" {
			graphs[r.Graph] = g
		}
		resp["n"] = len(g.Nodes)
		resp["treeSize"] = countTree(tree.RootNode())
		resp["outcome"] = "ok"
	case "rule":
		ru := cmd.ParseQuery(r.Text)
		resp["rule"] = map[string]interface{}{"id": ru.ID, "description": ru.Description, "impact": ru.Impact,
			"severity": ru.Severity, "query": ru.Query, "provider": ru.RuleProvider, "passed": ru.Passed}
		resp["outcome"] = "ok"
	case "extract":
		q, err := cmd.ExtractQueryFromFile(r.Path)
		if err != nil {
			resp["outcome"] = "diag"
			resp["err"] = err.Error()
			return
		}
		resp["query"] = q
		resp["outcome"] = "ok"
	case "loadrules":
		rules, err := cmd.VerifLoadRules(r.Dir, false)
		if err != nil {
			resp["outcome"] = "diag"
			resp["err"] = err.Error()
			return
		}
		resp["rules"] = rules
		resp["outcome"] = "ok"
	case "rulefiles":
		resp["files"] = cmd.VerifGetAllRulesetFile(r.Dir)
		resp["outcome"] = "ok"
	case "hosted":
		st := &stubTransport{body: []byte(r.Bundle), status: 200}
		old := http.DefaultTransport
		http.DefaultTransport = st
		defer func() { http.DefaultTransport = old }()
		rules, err := cmd.VerifLoadRules(r.Text, true)
		resp["urls"] = st.urls
		if err != nil {
			resp["outcome"] = "diag"
			resp["err"] = err.Error()
			return
		}
		resp["rules"] = rules
		resp["outcome"] = "ok"
	case "jsonmarshal":
		outs := []string{}
		for _, s := range r.Strs {
			b, err := json.Marshal(s)
			if err != nil {
				outs = append(outs, "ERR")
			} else {
				outs = append(outs, string(b))
			}
		}
		resp["out"] = outs
		resp["outcome"] = "ok"
	case "files":
		fs, err := graph.VerifGetFiles(r.Dir)
		if err != nil {
			resp["outcome"] = "diag"
			resp["err"] = err.Error()
		} else {
			resp["outcome"] = "ok"
		}
		resp["files"] = fs
	case "replace-predicates":
		pq, err := parser.ParseQuery(r.Q)
		if err != nil {
			resp["outcome"] = "diag"
			resp["err"] = err.Error()
			return
		}
		if r.Text != "" {
			pq.Expression = r.Text
		}
		resp["expression"] = graph.ReplacePredicateVariables(pq)
		resp["outcome"] = "ok"
	case "javadoc":
		// not exported; reached through build
		resp["outcome"] = "unsupported"
	default:
		resp["outcome"] = "unknown-op"
	}
	return resp
}

func countTree(n *sitter.Node) int {
	c := 1
	for i := 0; i < int(n.ChildCount()); i++ {
		c += countTree(n.Child(i))
	}
	return c
}

type errCounter struct {
	*antlr.DefaultErrorListener
	n int
}

func (e *errCounter) SyntaxError(_ antlr.Recognizer, _ interface{}, _, _ int, _ string, _ antlr.RecognitionException) {
	e.n++
}

func main() {
	// keep the protocol stream clean
	fd, err := syscall.Dup(1)
	if err != nil {
		panic(err)
	}
	out = bufio.NewWriterSize(os.NewFile(uintptr(fd), "proto"), 1<<20)
	devnull, _ := os.OpenFile(os.DevNull, os.O_WRONLY, 0)
	if os.Getenv("CPFH_KEEP_STDOUT") == "" {
		syscall.Dup2(int(devnull.Fd()), 1)
		os.Stdout = devnull
		if os.Getenv("CPFH_KEEP_STDERR") == "" {
			syscall.Dup2(int(devnull.Fd()), 2)
		}
	}
	_ = filepath.Join
	_ = strings.TrimSpace
	in := bufio.NewReaderSize(os.Stdin, 1<<20)
	for {
		line, err := in.ReadBytes('\n')
		if len(line) > 0 {
			var r Req
			var resp Resp
			if e := json.Unmarshal(line, &r); e != nil {
				resp = Resp{"outcome": "bad-request", "err": e.Error()}
			} else {
				resp = handle(&r)
			}
			b, e := json.Marshal(resp)
			if e != nil {
				b, _ = json.Marshal(Resp{"outcome": "marshal-error", "err": e.Error()})
			}
			out.Write(b)
			out.WriteByte('\n')
			out.Flush()
		}
		if err != nil {
			return
		}
	}
}
