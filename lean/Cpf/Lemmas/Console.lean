import Cpf.Query.Console

namespace Cpf.Query.Console

theorem splitLine_append_some (a b l r : List Char) (h : splitLine a = some (l, r)) :
    splitLine (a ++ b) = some (l, r ++ b) := by
  induction a generalizing l r with
  | nil => simp [splitLine] at h
  | cons c cs ih =>
      simp only [splitLine, List.cons_append] at h ⊢
      split at h
      · simp at h; obtain ⟨rfl, rfl⟩ := h; simp_all
      · rename_i hc
        simp only [hc, ↓reduceIte]
        cases hs : splitLine cs with
        | none => simp [hs] at h
        | some p =>
            obtain ⟨l', r'⟩ := p
            simp [hs] at h
            obtain ⟨rfl, rfl⟩ := h
            simp [ih l' r' hs]

theorem splitLine_append_none (a b : List Char) (h : splitLine a = none) :
    splitLine (a ++ b) = (splitLine b).map (fun p => (a ++ p.1, p.2)) := by
  induction a with
  | nil => cases hb : splitLine b <;> simp [hb]
  | cons c cs ih =>
      simp only [splitLine, List.cons_append] at h ⊢
      split at h
      · simp at h
      · rename_i hc
        simp only [hc, ↓reduceIte]
        cases hs : splitLine cs with
        | some p => simp [hs] at h
        | none =>
            rw [ih hs]
            cases splitLine b <;> simp

/-- Reading a line through the buffered reader is reading it from the concatenated input. -/
theorem readLine_flat : ∀ (r : Reader),
    match splitLine (r.buf ++ r.chunks.flatten) with
    | some (l, rest) => ∃ r', readLine r = some (l, r') ∧ r'.buf ++ r'.chunks.flatten = rest
    | none => readLine r = none := by
  intro r
  obtain ⟨buf, chunks⟩ := r
  unfold readLine
  simp only
  induction chunks generalizing buf with
  | nil =>
      simp only [List.flatten_nil, List.append_nil, readLineAux]
      cases h : splitLine buf with
      | none => simp
      | some p => obtain ⟨l, rest⟩ := p; simp
  | cons c cs ih =>
      simp only [List.flatten_cons, readLineAux]
      cases h : splitLine buf with
      | some p =>
          obtain ⟨l, rest⟩ := p
          rw [splitLine_append_some buf (c ++ cs.flatten) l rest h]
          simp
      | none =>
          have := ih (buf ++ c)
          simp only [List.append_assoc] at this
          simpa using this

theorem console_flat (answer : List Char → String) : ∀ (fuel : Nat) (r : Reader),
    console answer fuel r
      = ((linesOf fuel (r.buf ++ r.chunks.flatten)).takeWhile (fun l => !isQuit l)).map answer := by
  intro fuel
  induction fuel with
  | zero => intro r; simp [console, linesOf]
  | succ n ih =>
      intro r
      have h := readLine_flat r
      simp only [console, linesOf]
      cases hs : splitLine (r.buf ++ r.chunks.flatten) with
      | none =>
          rw [hs] at h
          simp [h]
      | some p =>
          obtain ⟨l, rest⟩ := p
          rw [hs] at h
          obtain ⟨r', hr, hrest⟩ := h
          simp only [hr]
          by_cases hq : isQuit l = true
          · simp [hq, List.takeWhile]
          · simp only [hq, Bool.false_eq_true, ↓reduceIte]
            rw [ih r', hrest]
            simp [List.takeWhile, hq]

end Cpf.Query.Console
