import Cpf.Scan.Walk

namespace Cpf.Scan.Walk

theorem join_length (p : Path) (n : String) : (join p n).length = p.length + 1 := by
  simp [join]

theorem ne_of_length_lt {a b : Path} (h : a.length < b.length) : b ≠ a := by
  intro e; subst e; omega

theorem cb_nonroot_err_dir (root path : Path) (acc : List Path) (h : root.length < path.length) :
    getFilesCb root path (some true) true acc = (acc, Ret.skipDir) := by
  have : (path == root) = false := by simpa using ne_of_length_lt h
  simp [getFilesCb, this]

theorem cb_nonroot_err_none (root path : Path) (acc : List Path) (h : root.length < path.length) :
    getFilesCb root path none true acc = (acc, Ret.nil) := by
  have : (path == root) = false := by simpa using ne_of_length_lt h
  simp [getFilesCb, this]

theorem cb_dir_ok (root path : Path) (acc : List Path) :
    getFilesCb root path (some true) false acc = (acc, Ret.nil) := by
  simp [getFilesCb]

theorem cb_file_ok (root path : Path) (acc : List Path) :
    getFilesCb root path (some false) false acc = (acc ++ (if hasJavaExt path then [path] else []), Ret.nil) := by
  by_cases h : hasJavaExt path = true <;> simp [getFilesCb, h]

mutual
/-- below the root: an entry contributes exactly its readable `.java` files; the only non-nil result is SkipDir
    from a directory that cannot be listed -/
theorem walk_spec (root : Path) : ∀ (e : Ent) (path : Path) (acc : List Path), root.length < path.length →
    ∃ r, walk (getFilesCb root) path e acc = (acc ++ javaFiles path e, r) ∧ (r = Ret.nil ∨ (r = Ret.skipDir ∧ e.isDir = true))
  | .file n le, path, acc, _ => by
      refine ⟨Ret.nil, ?_, Or.inl rfl⟩
      simp only [walk, javaFiles, cb_file_ok]
  | .dir n le readErr kids, path, acc, h => by
      cases readErr with
      | true =>
          refine ⟨Ret.skipDir, ?_, Or.inr ⟨rfl, rfl⟩⟩
          simp [walk, javaFiles, cb_nonroot_err_dir root path acc h]
      | false =>
          refine ⟨Ret.nil, ?_, Or.inl rfl⟩
          simp only [walk, javaFiles, cb_dir_ok]
          simpa using walkKids_spec root kids path acc (Nat.le_of_lt h)
theorem walkKids_spec (root : Path) : ∀ (ks : List Ent) (path : Path) (acc : List Path), root.length ≤ path.length →
    walkKids (getFilesCb root) path ks acc = (acc ++ javaFilesKids path ks, Ret.nil)
  | [], path, acc, _ => by simp [walkKids, javaFilesKids]
  | k :: ks, path, acc, h => by
      have hl : root.length < (join path k.name).length := by rw [join_length]; omega
      cases hle : k.lstatErr with
      | true =>
          simp only [walkKids, javaFilesKids, hle, if_true, cb_nonroot_err_none root _ acc hl]
          simpa using walkKids_spec root ks path acc h
      | false =>
          obtain ⟨r, hw, hr⟩ := walk_spec root k (join path k.name) acc hl
          simp only [walkKids, javaFilesKids, hle, hw]
          rcases hr with rfl | ⟨rfl, hd⟩
          · simp
            simpa [List.append_assoc] using walkKids_spec root ks path (acc ++ javaFiles (join path k.name) k) h
          · simp [hd]
            simpa [List.append_assoc] using walkKids_spec root ks path (acc ++ javaFiles (join path k.name) k) h
end

/-- **getFiles = the readable `.java` files of the tree**, whatever else the tree contains -/
theorem getFiles_eq (root : Path) (e : Ent) :
    (getFiles root e).1 = if e.lstatErr then [] else javaFiles root e := by
  unfold getFiles walkRoot
  cases hle : e.lstatErr with
  | true => simp [getFilesCb]
  | false =>
      cases e with
      | file n le =>
          simp only [walk, javaFiles, cb_file_ok]
          simp
      | dir n le readErr kids =>
          cases readErr with
          | true => simp [walk, javaFiles, getFilesCb]
          | false =>
              simp only [walk, javaFiles, cb_dir_ok]
              have := walkKids_spec root kids root [] (Nat.le_refl _)
              simp [this]

/-- an error is reported only when the root itself cannot be inspected or listed -/
theorem getFiles_err (root : Path) (e : Ent) :
    (getFiles root e).2 = (e.lstatErr || match e with | .dir _ _ readErr _ => readErr | _ => false) := by
  unfold getFiles walkRoot
  cases hle : e.lstatErr with
  | true => simp [getFilesCb]
  | false =>
      cases e with
      | file n le => simp only [walk, cb_file_ok]; simp
      | dir n le readErr kids =>
          cases readErr with
          | true => simp [walk, getFilesCb]
          | false =>
              simp only [walk, cb_dir_ok]
              have := walkKids_spec root kids root [] (Nat.le_refl _)
              simp [this]

/-! ### adding entries never hides a file -/

theorem mem_javaFilesKids_append (path : Path) (a b : List Ent) (f : Path) :
    f ∈ javaFilesKids path (a ++ b) ↔ f ∈ javaFilesKids path a ∨ f ∈ javaFilesKids path b := by
  induction a with
  | nil => simp [javaFilesKids]
  | cons k ks ih => simp [javaFilesKids, ih, or_assoc]

/-- a file found among the children of a directory is still found after any entries are added before, between
    or after its siblings (`xs`, `ys`, `zs` arbitrary, including unreadable ones) -/
theorem javaFilesKids_insert (path : Path) (pre post xs ys : List Ent) (f : Path)
    (h : f ∈ javaFilesKids path (pre ++ post)) : f ∈ javaFilesKids path (xs ++ pre ++ ys ++ post) := by
  rw [mem_javaFilesKids_append] at h
  simp only [mem_javaFilesKids_append]
  rcases h with h | h
  · exact Or.inl (Or.inl (Or.inr h))
  · exact Or.inr h

end Cpf.Scan.Walk
