"""C03 — every entity occurrence in every .java file is represented exactly once.

Proof: Cpf.Props.C03 (traversal visits every node once; statement identities injective; dedup loses nothing
when identities are distinct; which kinds are not position-complete, from the regenerated table).
Correspondence: exact — real buildGraphFromAST vs the Lean model on the real tree (same entities, identities
equal to SHA-256 of the model's pre-image, same call links).
Oracle: (1) generator ground truth: every generated construct occurrence has exactly one entity of its kind at
its location, and nothing else is reported; (2) an independent census of the parse tree for arbitrary files
(android sample, token mutations); (3) project level: nested directories, mixed extensions.
Known collisions within one file (equal identity components) are reported as the recorded findings."""
import collections, json, os, random, shutil
from vlib import common as C, genjava as G, scan as S, mutjava as M

LEAN_MODULES = ["Cpf.Props.C03"]

CENSUS = {"class_declaration": ["class_declaration"], "method_declaration": ["method_declaration"], "method_invocation": ["method_invocation"],
          "local_variable_declaration": ["variable_declaration"], "field_declaration": ["variable_declaration"],
          "object_creation_expression": ["ClassInstanceExpr"], "if_statement": ["IfStmt"], "while_statement": ["WhileStmt"],
          "do_statement": ["DoStmt"], "for_statement": ["ForStmt"], "break_statement": ["BreakStmt"], "continue_statement": ["ContinueStmt"],
          "yield_statement": ["YieldStmt"], "assert_statement": ["AssertStmt"], "return_statement": ["ReturnStmt"], "block": ["BlockStmt"],
          "block_comment": ["block_comment"]}


def census(tree, src):
    """independent census of supported constructs: Counter of (kind, line, snippet bytes)"""
    out = collections.Counter()
    for n in S.walk(tree):
        t = n["t"]
        snippet = src[n["sb"]:n["eb"]]
        line = n["sr"] + 1
        if t == "binary_expression":
            op = None
            for c in n.get("c") or []:
                if c.get("f") == "operator" and op is None:
                    op = c["t"]
            out[("binary_expression", line, snippet)] += 1
            if op in G.OP_KIND:
                out[(G.OP_KIND[op], line, snippet)] += 1
        elif t in CENSUS:
            for k in CENSUS[t]:
                out[(k, line, snippet)] += 1
    return out


def check_file(run, h, d, src, file, stats, mism, label):
    real = S.real_build(h, src, file)
    if real.get("outcome") != "ok":
        run.violation("C03:scan-abnormal", "building the graph of a file ends with %s" % real.get("outcome"), dict(source_hex=src.hex()[:4000], panic=real.get("panic")))
        return None
    model = S.model_build(d, src, file, real["tree"])
    mm, st = S.compare(real, model, src, file)
    if mm:
        mism.append(dict(label=label, first=mm[:3], source=src[:300].decode("utf-8", "replace")))
    stats["files"] += 1
    cen = census(real["tree"], src)
    got = collections.Counter((n["type"], n["line"], bytes.fromhex(n["snippetHex"])) for n in real["nodes"])
    stats["census_items"] += sum(cen.values())
    extra = got - cen
    if extra:
        k, ln, sn = next(iter(extra))
        run.violation("C03:entity-without-source", "an entity of kind %s at line %d corresponds to no supported construct occurrence" % (k, ln),
                      dict(kind=k, line=ln, snippet=sn.decode("utf-8", "replace")[:200], source=src.decode("utf-8", "replace")[:3000]))
    missing = cen - got
    if missing:
        # explained by an identity collision inside the file? (model pre-images of inserted vs kept)
        per_kind = collections.Counter(k for (k, _, _), c in missing.items() for _ in range(c))
        if model.get("outcome") == "ok" and model["inserted"] - len(model["ents"]) == sum(missing.values()):
            for k in per_kind:
                run.violation("C03:same-file-collision:" + k,
                              "%d occurrence(s) of kind %s share an identity with another occurrence in the same file and are not represented" % (per_kind[k], k),
                              dict(kind=k, examples=[dict(line=ln, snippet=sn.decode("utf-8", "replace")[:120]) for (kk, ln, sn) in list(missing)[:4] if kk == k],
                                   source=src.decode("utf-8", "replace")[:3000]))
            stats["collided"] += sum(missing.values())
        else:
            k, ln, sn = next(iter(missing))
            run.violation("C03:occurrence-not-represented", "an occurrence of %s at line %d has no entity (and no identity collision explains it)" % (k, ln),
                          dict(kind=k, line=ln, snippet=sn.decode("utf-8", "replace")[:200], source=src.decode("utf-8", "replace")[:3000]))
    return real


def run(run):
    C.build_driver()
    h, d = C.Harness(), C.Driver()
    rng = run.rng
    quick = run.depth == "quick"
    stats = collections.Counter()
    mism = []
    try:
        # (1) generated programs with ground truth, unique mode: exactly one entity per occurrence
        for i in range(12 if quick else 150):
            g = G.Gen(random.Random(rng.random()), G.Opts(unique=True, classes=rng.randint(1, 2), methods=rng.randint(1, 4), stmts=rng.randint(1, 6), depth=rng.randint(0, 2),
                                                          eol=rng.choice(["\n", "\r\n"]), nonascii=rng.random() < 0.3))
            text, ents = g.file("K%d_" % i)
            src = text.encode("utf-8")
            real = check_file(run, h, d, src, "gen/F%d.java" % i, stats, mism, "generated-unique")
            run.count(("gen", i, len(src)))
            if real is None:
                continue
            want = collections.Counter((e["kind"], e["line"], e["snippet"]) for e in ents)
            got = collections.Counter((n["type"], n["line"], n["snippet"]) for n in real["nodes"])
            if want != got:
                miss, extra = want - got, got - want
                # same-file collisions are judged in check_file; here: generator truth vs scanner, beyond collisions
                if sum(miss.values()) != (S.model_build(d, src, "gen/F%d.java" % i, real["tree"]).get("inserted", 0) - len(real["nodes"])) or extra:
                    ex = (list(miss) or list(extra))[0]
                    run.violation("C03:ground-truth-mismatch", "generated program: %d construct(s) without entity, %d entity(ies) without construct, e.g. %s at line %s" %
                                  (sum(miss.values()), sum(extra.values()), ex[0], ex[1]),
                                  dict(missing=[list(x) for x in list(miss)[:4]], extra=[list(x) for x in list(extra)[:4]], source=text[:4000]))
            if i < 2:
                run.sample(dict(kind="generated", bytes=len(src), constructs=len(ents), entities=len(real["nodes"])))
        # (2) repeated identifiers / fragments, android sample, token mutations: independent census
        srcs = []
        for i in range(4 if quick else 40):
            g = G.Gen(random.Random(rng.random()), G.Opts(unique=False, classes=2, methods=3, stmts=5, depth=2))
            srcs.append(("generated-repeats", g.file("R")[0].encode("utf-8")))
        odd = G.odd_places()
        srcs.append(("odd-places", odd.encode("utf-8")))
        srcs.append(("odd-places", odd.replace("\n", "\r\n").encode("utf-8")))
        android = []
        for root, _, files in os.walk(os.path.join(C.REPO, "test-src", "android")):
            for f in sorted(files):
                if f.endswith(".java"):
                    android.append(open(os.path.join(root, f), "rb").read())
        for a in android[: (5 if quick else len(android))]:
            srcs.append(("android", a))
        for i in range(25 if quick else 600):
            base = rng.choice(srcs[: 4 + min(5, len(android))])[1]
            srcs.append(("mutated", M.mutate(rng, base)))
        for label, src in srcs:
            check_file(run, h, d, src, "dir/X.java", stats, mism, label)
            run.count((label, hash(src)))
        # (2b) depth: constructs far down a long chain of operators and a deep nest of blocks are entities like any other
        for nops, nblocks in ([(420, 320)] if quick else [(300, 260), (420, 320), (900, 700)]):
            chain = "class Deep { String head() { return \"h\"; } void tail() { } String cat() { return head()" + "".join(' + "s%d"' % j for j in range(nops)) + "; }\n" + \
                    "  void nest(boolean c) { " + "if (c) { " * nblocks + "tail(); return;" + " }" * nblocks + " } }\n"
            rb = h.call(op="build", hex=chain.encode().hex(), file="deep/Deep.java", graph="deep", nonodes=True, timeout=300)
            run.count(("deep", nops, nblocks))
            stats["deep_sources"] += 1
            if rb.get("outcome") != "ok":
                run.violation("C03:scan-" + str(rb.get("outcome")), "building the graph of a source with a chain of %d operators and %d nested blocks ends with %s" % (nops, nblocks, rb.get("outcome")), dict(operators=nops, blocks=nblocks))
                if rb.get("outcome") in ("died", "hang"):
                    h = C.Harness()
                continue
            for kind, want in (("add_expression", nops), ("method_invocation", 2), ("IfStmt", nblocks), ("ReturnStmt", 3), ("method_declaration", 4)):
                rq = h.call(op="query-entities", graph="deep", q="FROM %s AS x SELECT x" % kind, timeout=300)
                got = len(rq.get("tuples") or []) if rq.get("outcome") == "ok" else None
                if got != want:
                    run.violation("C03:deep-construct-missing", "a source with a chain of %d `+` and %d nested ifs has %d %s, %s are reported" % (nops, nblocks, want, kind, got),
                                  dict(operators=nops, blocks=nblocks, kind=kind, expected=want, reported=got, generator="checks/c03.py (2b)"))
                    break
        # (2c) size: a source of more than a megabyte (and of several): every method and every local of it is an entity
        for mb in ([1.3] if quick else [1.05, 2.2, 5.0]):
            root = C.scratch("c03big")
            try:
                parts, nmeth, nloc = ["package big;\n\nclass Table {\n"], 0, 0
                size = len(parts[0])
                while size < mb * 1048576:
                    m = "  void fill%04d() {\n" % nmeth + "".join("    int cell_%04d_%03d = %d;\n" % (nmeth, j, j) for j in range(200)) + "  }\n"
                    parts.append(m)
                    size += len(m)
                    nmeth += 1
                    nloc += 200
                parts.append("}\n")
                os.makedirs(os.path.join(root, "gen"))
                open(os.path.join(root, "gen", "Table.java"), "w").write("".join(parts))
                open(os.path.join(root, "Small.java"), "w").write("class Small { void one() { int only = 1; } }\n")
                rb = h.call(op="scan", dir=root, graph="big3", nonodes=True, timeout=600)
                run.count(("big-source", mb))
                stats["big_sources"] += 1
                if rb.get("outcome") != "ok":
                    run.violation("C03:scan-" + str(rb.get("outcome")), "scanning a project with a %.1f MB source ends with %s" % (mb, rb.get("outcome")), dict(megabytes=mb))
                    if rb.get("outcome") in ("died", "hang"):
                        h = C.Harness()
                    continue
                for kind, want in (("method_declaration", nmeth + 1), ("variable_declaration", nloc + 1), ("class_declaration", 2)):
                    rq = h.call(op="query-entities", graph="big3", q="FROM %s AS x SELECT x.getName()" % kind, timeout=600)
                    got = len(rq.get("tuples") or []) if rq.get("outcome") == "ok" else None
                    if got != want:
                        run.violation("C03:big-source-incomplete", "a project with a source of %.1f MB has %d %s, %s are reported" % (mb, want, kind, got),
                                      dict(megabytes=mb, kind=kind, expected=want, reported=got, generator="checks/c03.py (2c)"))
                        break
            finally:
                shutil.rmtree(root, ignore_errors=True)
        # (3) project level: nested directories, mixed extensions, files with equal content
        for pi in range(2 if quick else 10):
            root = C.scratch("c03proj")
            try:
                files, truth = {}, collections.Counter()
                nfiles = rng.randint(1, 6)
                for i in range(nfiles):
                    g = G.Gen(random.Random(rng.random()), G.Opts(unique=True, classes=1, methods=2, stmts=3, depth=1))
                    text, ents = g.file("P%d_" % i)
                    # directories of any name: ordinary ones, hidden ones (.mvn/wrapper, .generated), names with blanks and dots
                    rel = os.path.join(*([rng.choice(["d0", "d1", "d2", ".mvn", ".generated", "wrapper", "a b", "v1.2", "..x"]) for _ in range(rng.randint(0, 3))] + ["F%d.java" % i]))
                    if i == 0:
                        rel = os.path.join(".mvn", "wrapper", "F0.java")
                    files[rel] = text
                    if rng.random() < 0.4:
                        files[rel.replace(".java", "_copy.java")] = text      # identical code in another file
                # sources cut off in the middle (an interrupted save, a partial checkout): the constructs that are complete in
                # what is left are represented. Cut points are searched for until two of them leave a tree whose root is an
                # ERROR node that still holds constructs (the others: a `program` root with ERROR nodes inside).
                base_text = files[os.path.join(".mvn", "wrapper", "F0.java")]
                err_roots = 0
                for j in range(40):
                    cut = base_text[:rng.randrange(len(base_text) // 3, len(base_text))]
                    one = S.real_build(h, cut.encode("utf-8"), "cut/Cut.java")
                    root_is_error = one.get("outcome") == "ok" and (one.get("tree") or {}).get("t") == "ERROR" and len(one.get("nodes") or []) >= 2
                    if root_is_error or j < 2:
                        files["cut/Cut%d_%d.java" % (pi, j)] = cut
                        err_roots += 1 if root_is_error else 0
                    if err_roots >= 2:
                        break
                stats["truncated_sources_with_error_root"] += err_roots
                for rel in list(files):
                    if rel.startswith("cut/"):
                        continue
                    for ext in (".jav", ".java.txt", ".JAVA", ".kt", ""):
                        if rng.random() < 0.3:
                            files[rel.replace(".java", "") + "_x" + ext] = files[rel]
                # a source that is not valid UTF-8 (saved as ISO-8859-1 / GBK): still a .java file with constructs in it
                legacy = ("// int\xe9r\xeat\nclass Legacy%d { /* caf\xe9 \xb0\xc4\xb0\xc4 */ int taux(int a) { String s = \"\xe9t\xe9\"; if (a > 1) { return a + 2; } return helper(a); } }\n" % pi)
                for rel, text in files.items():
                    p = os.path.join(root, rel)
                    os.makedirs(os.path.dirname(p), exist_ok=True)
                    open(p, "w", encoding="utf-8").write(text)
                files["legacy/Legacy%d.java" % pi] = legacy
                os.makedirs(os.path.join(root, "legacy"), exist_ok=True)
                open(os.path.join(root, "legacy", "Legacy%d.java" % pi), "wb").write(legacy.encode("latin-1"))
                # entries named *.java that cannot be read (links to files that are gone): as many as there are
                # workers and more, in directories that come first and last in the walk, and between the sources
                nbad = rng.choice([5, 6, 9]) if pi % 2 == 0 else rng.randint(1, 12)
                for j in range(nbad):
                    sub = rng.choice(["000_generated", "000_generated", "zzz_stale", "d0", ""])
                    os.makedirs(os.path.join(root, sub), exist_ok=True)
                    os.symlink(os.path.join(root, "gone", "Stub%d.java" % j), os.path.join(root, sub, "Stub%d.java" % j))
                stats["unreadable_entries"] += nbad
                r = h.call(op="scan", dir=root, graph="p", timeout=300)
                run.count(("project", pi, len(files)))
                got_files = collections.Counter(n["file"] for n in r["nodes"])
                java = {os.path.join(root, rel) for rel in files if rel.endswith(".java")}
                for f in got_files:
                    if f not in java:
                        run.violation("C03:entity-from-non-java-file", "entities reported for %s, which has no .java extension" % os.path.relpath(f, root),
                                      dict(files=sorted(files)))
                        break
                for f in java:
                    src = open(f, "rb").read()
                    one = S.real_build(h, src, f)
                    a = collections.Counter((n["type"], n["line"], n["snippet"]) for n in r["nodes"] if n["file"] == f)
                    b = collections.Counter((n["type"], n["line"], n["snippet"]) for n in one["nodes"])
                    if a != b:
                        ex = list((b - a) or (a - b))[0]
                        run.violation("C03:project-vs-file", "scanning the project reports other entities for %s than scanning that file alone, e.g. %s line %s" %
                                      (os.path.relpath(f, root), ex[0], ex[1]), dict(files={k: v for k, v in files.items()}, file=os.path.relpath(f, root)))
                        break
                stats["projects"] += 1
            finally:
                shutil.rmtree(root, ignore_errors=True)
    finally:
        h.close()
        d.close()
    run.extra["histogram"] = dict(stats)
    if mism:
        run.broken_obligation("correspondence:scan-model", "the Lean model of buildGraphFromAST and the implementation disagree on %d file(s): %s" % (len(mism), json.dumps(mism[:2])[:1500]))
