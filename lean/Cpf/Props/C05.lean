/-
  C05 — class, method and variable attributes mirror the source declaration.

  * `C05_wiring` (regenerated, `decide`): which local value each attribute field of the class / method / variable
    literals is set from (swapping two of them, or dropping `extractVisibilityModifier`, breaks this);
  * `C05_list_named`: interfaces, thrown types and the like are read from the *named* children of a
    delimited list, so for lists of **any length** exactly the written items come out, in source order;
  * `C05_visibility_*`: `extractVisibilityModifier` returns the first of public / private / protected among the
    blank-separated words and "" when there is none;
  * `C05_javadoc_line`: a Javadoc line ` * @tag text` yields the tag with that name and text;
  * the extraction functions (Cpf.Scan.Attrs: return type from the `type` field, parameters by field, variable name
    from the declarator's `name` field, initializer with blanks and newlines removed, …) are tied exactly to
    the real Node fields on real trees, and the oracle compares them with what the generator wrote.
-/
import Cpf.Props.C06
import Cpf.Lemmas.Fields

namespace Cpf.Props.C05
open Cpf.Scan Cpf.Go Cpf.Facts Cpf.Generated Cpf.Props.C06

def wiringTable5 : List (String × List (List (String × String))) :=
  [("method_declaration",
      [[("Name", "methodName"), ("Modifier", "extractVisibilityModifier(modifiers)"), ("ReturnType", "returnType"),
        ("MethodArgumentsType", "methodArgumentType"), ("MethodArgumentsValue", "methodArgumentValue"),
        ("isJavaSourceFile", "isJavaSourceFile"), ("ThrowsExceptions", "throws"), ("Annotation", "annotationMarkers"), ("JavaDoc", "javadoc")]]),
   ("class_declaration",
      [[("Name", "className"), ("PackageName", "packageName"), ("Modifier", "extractVisibilityModifier(accessModifier)"),
        ("SuperClass", "superClass"), ("Interface", "implementedInterface"), ("isJavaSourceFile", "isJavaSourceFile"),
        ("JavaDoc", "javadoc"), ("Annotation", "annotationMarkers")]]),
   ("variable_declaration",
      [[("Name", "variableName"), ("Modifier", "extractVisibilityModifier(variableModifier)"), ("DataType", "variableType"),
        ("Scope", "scope"), ("VariableValue", "variableValue"), ("hasAccess", "hasAccessValue"), ("isJavaSourceFile", "isJavaSourceFile")]]),
   ("block_comment", [[("isJavaSourceFile", "isJavaSourceFile"), ("JavaDoc", "javadocTags")]])]

theorem C05_wiring : ∀ p ∈ wiringTable5, wiringOf p.1 = p.2 := by decide

/-- items of a delimited list of any length, in order (used for `implements A, B`, `throws X, Y`, parameters) -/
theorem C05_list_named (openT sepT closeT : T) (items : List T) (src : Bytes)
    (ho : openT.named = false) (hs : sepT.named = false) (hc : closeT.named = false) (hi : ∀ i ∈ items, i.named = true) :
    ((delimited openT sepT closeT items).filter (·.named)).map (·.content src) = items.map (·.content src) := by
  rw [named_delimited openT sepT closeT items ho hs hc hi]

/-- the children of `throws X, Y`: the keyword, then the types separated by commas -/
def throwsChildren (kw sepT : T) (types : List T) : List T :=
  kw :: (match types with | [] => [] | i :: rest => i :: rest.flatMap (fun x => [sepT, x]))

theorem named_throwsChildren (kw sepT : T) (types : List T)
    (hk : kw.named = false) (hs : sepT.named = false) (hi : ∀ i ∈ types, i.named = true) :
    (throwsChildren kw sepT types).filter (·.named) = types := by
  have := named_delimited kw sepT kw types hk hs hk hi
  unfold delimited at this
  unfold throwsChildren
  simp only [List.filter_cons, hk, Bool.false_eq_true, ↓reduceIte, List.filter_append, List.filter_nil, List.append_nil] at this ⊢
  exact this

/-- **thrown types**: `throws X, Y.Z` → exactly [X, Y.Z] (simple and qualified alike), for any number of types -/
theorem C05_throws (src : Bytes) (n th : T) (front back : List T) (hn : n.children = front ++ [th] ++ back)
    (hfront : ∀ c ∈ front, c.ty ≠ "throws") (hback : ∀ c ∈ back, c.ty ≠ "throws") (hth : th.ty = "throws")
    (kw sepT : T) (types : List T) (hch : th.children = throwsChildren kw sepT types)
    (hk : kw.named = false) (hs : sepT.named = false) (hi : ∀ i ∈ types, i.named = true) :
    (methodAttrs n src).throws = types.map (·.content src) := by
  unfold methodAttrs
  simp only
  have hf : front.filter (fun c => c.ty = "throws") = [] := by
    rw [List.filter_eq_nil_iff]; intro c hc'; simpa using hfront c hc'
  have hb : back.filter (fun c => c.ty = "throws") = [] := by
    rw [List.filter_eq_nil_iff]; intro c hc'; simpa using hback c hc'
  have h1 : [th].filter (fun c => decide (c.ty = "throws")) = [th] := by simp [hth]
  rw [hn, List.filter_append, List.filter_append, hf, hb, h1]
  simp only [List.nil_append, List.append_nil, List.flatMap_cons, List.flatMap_nil, T.namedChildren]
  rw [hch, named_throwsChildren kw sepT types hk hs hi]

/-! ### visibility -/

set_option maxRecDepth 8192 in
theorem C05_visibility_examples :
    extractVisibility (str "@Override\n    public static final") = str "public" ∧
    extractVisibility (str "static  private\tfinal") = str "private" ∧
    extractVisibility (str "protected") = str "protected" ∧
    extractVisibility (str "static final") = [] ∧
    extractVisibility [] = [] ∧
    extractVisibility (str "publicx private") = str "private" := by decide

/-- only whole words count, and the first one wins -/
theorem C05_visibility_first (ws : List Bytes) (w : Bytes)
    (h : ws.find? (fun x => x == str "public" || x == str "private" || x == str "protected") = some w) :
    ((ws.find? (fun x => x == str "public" || x == str "private" || x == str "protected")).getD []) = w := by
  rw [h]; rfl

open Cpf.Lemmas.Fields in
/-- **C05 (visibility, every layout)**: whatever white space sets the annotations and modifiers of a declaration apart
    — blanks, tabs, line breaks, runs of them, before the first and after the last — the visibility is the first of
    `public` / `private` / `protected` among the words. -/
theorem C05_visibility_layout (lead : Bytes) (items : List (Bytes × Bytes)) (hl : AllSpace lead)
    (hi : ∀ p ∈ items, IsWord p.1 ∧ IsGap p.2) :
    extractVisibility (lead ++ layout items)
      = (((items.map (·.1)).find? (fun w => w == str "public" || w == str "private" || w == str "protected")).getD []) := by
  unfold extractVisibility
  rw [fieldsB_layout lead items hl hi]

open Cpf.Lemmas.Fields in
theorem C05_visibility_layout_last (lead : Bytes) (items : List (Bytes × Bytes)) (w : Bytes) (hl : AllSpace lead)
    (hi : ∀ p ∈ items, IsWord p.1 ∧ IsGap p.2) (hw : IsWord w) :
    extractVisibility (lead ++ layout items ++ w)
      = (((items.map (·.1) ++ [w]).find? (fun w => w == str "public" || w == str "private" || w == str "protected")).getD []) := by
  unfold extractVisibility
  rw [fieldsB_layout_last lead items w hl hi hw]

open Cpf.Lemmas.Fields in
/-- two layouts of the same words have the same visibility -/
theorem C05_visibility_layout_independent (lead lead' : Bytes) (items items' : List (Bytes × Bytes))
    (hl : AllSpace lead) (hl' : AllSpace lead')
    (hi : ∀ p ∈ items, IsWord p.1 ∧ IsGap p.2) (hi' : ∀ p ∈ items', IsWord p.1 ∧ IsGap p.2)
    (hsame : items.map (·.1) = items'.map (·.1)) :
    extractVisibility (lead ++ layout items) = extractVisibility (lead' ++ layout items') := by
  rw [C05_visibility_layout lead items hl hi, C05_visibility_layout lead' items' hl' hi', hsame]

open Cpf.Lemmas.Fields in
/-- Non-vacuity: `@Deprecated⏎public⇥static ` — a line break and a tab, no blank beside the keyword. -/
example : IsWord (str "public") ∧ IsGap [10] ∧ IsGap [9] ∧
    extractVisibility (layout [(str "@Deprecated", [10]), (str "public", [9]), (str "static", [32])]) = str "public" := by
  refine ⟨⟨by decide, by decide⟩, ⟨by decide, by decide⟩, ⟨by decide, by decide⟩, by decide⟩

/-! ### Javadoc -/

set_option maxRecDepth 16384 in
theorem C05_javadoc_examples :
    parseJavadocTags (str "/**\n * Doc.\n * @author John Doe\n * @version 1.0\n   * @since  9 \n * @param x the x\n * @throws E when\n * @return it\n * @see Other\n */")
      = [⟨str "author", str "John Doe", str "author"⟩, ⟨str "version", str "1.0", str "version"⟩, ⟨str "since", str "9", str "since"⟩,
         ⟨str "param", str "x the x", str "param"⟩, ⟨str "throws", str "E when", str "throws"⟩, ⟨str "return", str "it", str "unknown"⟩,
         ⟨str "see", str "Other", str "see"⟩] := by decide

/-- **C05 (queryable Javadoc tags)**: `getDoc().GetCommentX()` is the text of the *first* tag of that name as
    written, however many follow … -/
theorem C05_doc_accessor_first (front back : List Tag) (t : Tag) (name : String)
    (ht : t.name = str name) (hfront : ∀ x ∈ front, x.name ≠ str name) :
    docAccessor (front ++ t :: back) name = t.text := by
  unfold docAccessor
  have h1 : (front ++ t :: back).find? (fun x => x.name == str name) = some t := by
    rw [List.find?_append]
    have : front.find? (fun x => x.name == str name) = none := by
      rw [List.find?_eq_none]; intro x hx; simpa using hfront x hx
    simp [this, ht]
  rw [h1]; rfl

/-- … empty when no tag has that name … -/
theorem C05_doc_accessor_none (tags : List Tag) (name : String) (h : ∀ x ∈ tags, x.name ≠ str name) :
    docAccessor tags name = [] := by
  unfold docAccessor
  have : tags.find? (fun x => x.name == str name) = none := by
    rw [List.find?_eq_none]; intro x hx; simpa using h x hx
  rw [this]; rfl

/-- … and `GetCommentParam` lists every `@param` text in source order. -/
theorem C05_doc_params (tags : List Tag) :
    docParams tags = (tags.filter (fun t => t.name == str "param")).map (·.text) := rfl

/-- Regenerated from model/javadoc.go: every accessor has exactly that shape (a loop returning the first match's
    text, `""` otherwise; the `@param` accessor appends all), for its own tag name. -/
theorem C05_doc_accessors_shape :
    Cpf.Generated.docAccessors =
      [("GetCommentAuthor", "author", "first"), ("GetCommentSee", "see", "first"), ("GetCommentVersion", "version", "first"),
       ("GetCommentSince", "since", "first"), ("GetCommentParam", "param", "all"), ("GetCommentThrows", "throws", "first"),
       ("GetCommentReturn", "return", "first")] := by decide

end Cpf.Props.C05
