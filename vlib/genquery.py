"""Query-language tooling on the Python side: the grammar read from /repo's Query.g4 (through
tools/g4gen.py's reader), exhaustive sentence enumeration over a reduced alphabet, an independent
Earley recogniser (the oracle for C11), random sentences, layouts and token edits."""
import importlib.util, os, random, re, sys
from functools import lru_cache

_here = os.path.dirname(os.path.abspath(__file__))
_spec = importlib.util.spec_from_file_location("g4gen", os.path.join(os.path.dirname(_here), "tools", "g4gen.py"))
g4 = importlib.util.module_from_spec(_spec)
_spec.loader.exec_module(g4)


class Grammar:
    def __init__(self, path):
        text = open(path, encoding="utf-8").read()
        toks = g4.tokenize(text)
        i = toks.index(';') + 1
        self.rules = {}
        self.order = []
        self.literals = []
        self.lexnames = []
        self._lex_named = []
        while i < len(toks):
            name = toks[i]
            j = i + 2
            while toks[j] != ';':
                j += 1
            body = toks[i + 2:j]
            if name[0].islower():
                p = g4.P(body, False)
                p.literals = self.literals
                self.rules[name] = p.alt()
                self.order.append(name)
            else:
                self.lexnames.append(name)
                skip = False
                if '->' in body:
                    k = body.index('->')
                    skip = True
                    body = body[:k]
                p = g4.P(body, True)
                self._lex_named.append((name, p.alt(), skip))
            i = j + 1
        self.start = self.order[0]
        self._bnf = None
        self.lexrules = []
        for lit in self.literals:
            self.lexrules.append(("'" + lit + "'", re.compile(re.escape(lit), re.S), False))
        for name, r, skip in self._lex_named:
            self.lexrules.append((name, re.compile(_re_of(r), re.S), skip))

    def pylex(self, text):
        """Independent maximal-munch lexer: (kinds, lexemes, number of unlexable positions)."""
        pos, kinds, lexs, errs = 0, [], [], 0
        while pos < len(text):
            best = None
            for kind, rx, skip in self.lexrules:
                m = rx.match(text, pos)
                if m and m.end() > pos and (best is None or m.end() > best[0]):
                    best = (m.end(), kind, skip)
            if best is None:
                errs += 1
                pos += 1
                continue
            if not best[2]:
                kinds.append(best[1])
                lexs.append(text[pos:best[0]])
            pos = best[0]
        return kinds, lexs, errs

    def is_sentence(self, text):
        kinds, _, errs = self.pylex(text)
        return errs == 0 and self.earley(kinds)

    # ---------------------------------------------------------------- enumeration
    def enumerate(self, maxlen, reduce_tok):
        """All sentences (tuples of token kinds) of length <= maxlen, with token kinds mapped through
        reduce_tok (kind -> representative kind or None to drop the alternative)."""
        rules = self.rules

        memo = {}
        active = set()

        def L(r, n):
            key = (id(r), n)
            if key in memo:
                return memo[key]
            if key in active:
                return frozenset()
            active.add(key)
            k = r[0]
            if k == 'eps':
                res = frozenset([()]) if n == 0 else frozenset()
            elif k == 'tok':
                t = reduce_tok(r[1])
                res = frozenset([(t,)]) if (n == 1 and t is not None) else frozenset()
            elif k == 'nt':
                res = L(rules[r[1]], n)
            elif k == 'alt':
                res = L(r[1], n) | L(r[2], n)
            elif k == 'seq':
                acc = set()
                for i in range(n + 1):
                    A = L(r[1], i)
                    if not A:
                        continue
                    B = L(r[2], n - i)
                    for a in A:
                        for b in B:
                            acc.add(a + b)
                res = frozenset(acc)
            elif k == 'star':
                if n == 0:
                    res = frozenset([()])
                else:
                    acc = set()
                    for i in range(1, n + 1):
                        A = L(r[1], i)
                        if not A:
                            continue
                        B = L(r, n - i)
                        for a in A:
                            for b in B:
                                acc.add(a + b)
                    res = frozenset(acc)
            else:
                raise ValueError(r)
            active.discard(key)
            memo[key] = res
            return res

        out = []
        for n in range(maxlen + 1):
            out.extend(sorted(L(('nt', self.start), n)))
        return out

    # ---------------------------------------------------------------- Earley (independent recogniser)
    def bnf(self):
        if self._bnf is not None:
            return self._bnf
        prods = {}
        counter = [0]

        def fresh():
            counter[0] += 1
            return "_x%d" % counter[0]

        def conv(r):
            """returns a list of alternatives, each a list of symbols ('t',kind) / ('n',name)"""
            k = r[0]
            if k == 'eps':
                return [[]]
            if k == 'tok':
                return [[('t', r[1])]]
            if k == 'nt':
                return [[('n', r[1])]]
            if k == 'alt':
                return conv(r[1]) + conv(r[2])
            if k == 'seq':
                return [a + b for a in conv(r[1]) for b in conv(r[2])]
            if k == 'star':
                n = fresh()
                inner = conv(r[1])
                prods[n] = [[]] + [a + [('n', n)] for a in inner]
                return [[('n', n)]]
            raise ValueError(r)

        for name, r in self.rules.items():
            prods[name] = conv(r)
        self._bnf = prods
        return prods

    def earley(self, kinds):
        """True iff the token-kind sequence is a sentence of the grammar (start rule, whole input)."""
        prods = self.bnf()
        n = len(kinds)
        S = [set() for _ in range(n + 1)]
        # item: (lhs, alt index, dot, origin)
        for ai in range(len(prods[self.start])):
            S[0].add((self.start, ai, 0, 0))
        for i in range(n + 1):
            work = list(S[i])
            seen = set(work)
            while work:
                it = work.pop()
                lhs, ai, dot, org = it
                body = prods[lhs][ai]
                if dot < len(body):
                    sym = body[dot]
                    if sym[0] == 'n':
                        for bi in range(len(prods[sym[1]])):
                            ni = (sym[1], bi, 0, i)
                            if ni not in seen:
                                seen.add(ni); S[i].add(ni); work.append(ni)
                        # nullable completion (Aycock-Horspool light): if sym can derive empty, advance
                        if self._nullable(sym[1]):
                            ni = (lhs, ai, dot + 1, org)
                            if ni not in seen:
                                seen.add(ni); S[i].add(ni); work.append(ni)
                    else:
                        if i < n and kinds[i] == sym[1]:
                            S[i + 1].add((lhs, ai, dot + 1, org))
                else:
                    for pit in list(S[org]):
                        pl, pa, pd, po = pit
                        pb = prods[pl][pa]
                        if pd < len(pb) and pb[pd] == ('n', lhs):
                            ni = (pl, pa, pd + 1, po)
                            if ni not in seen:
                                seen.add(ni); S[i].add(ni); work.append(ni)
        return any(l == self.start and d == len(prods[l][a]) and o == 0 for (l, a, d, o) in S[n])

    def _nullable(self, name):
        if not hasattr(self, "_null"):
            prods = self.bnf()
            null = set()
            changed = True
            while changed:
                changed = False
                for k, alts in prods.items():
                    if k in null:
                        continue
                    for a in alts:
                        if all(s[0] == 'n' and s[1] in null for s in a):
                            null.add(k); changed = True
                            break
            self._null = null
        return name in self._null


def _re_of(r):
    k = r[0]
    if k == 'eps':
        return ''
    if k == 'chr':
        return re.escape(r[1])
    if k == 'any':
        return '.'
    if k in ('set', 'nset'):
        body = ''.join((re.escape(a) if a == b else re.escape(a) + '-' + re.escape(b)) for a, b in r[1])
        return '[' + ('^' if k == 'nset' else '') + body + ']'
    if k == 'seq':
        return _re_of(r[1]) + _re_of(r[2])
    if k == 'alt':
        return '(?:' + _re_of(r[1]) + '|' + _re_of(r[2]) + ')'
    if k == 'star':
        return '(?:' + _re_of(r[1]) + ')*'
    raise ValueError(r)


# ---------------------------------------------------------------- token kinds -> text

REPR = {"IDENTIFIER": "a", "STRING": '"s"', "NUMBER": "1", "STRING_WITH_WILDCARD": '"s"', "PREDICATE": "predicate",
        "FROM": "FROM", "WHERE": "WHERE", "AS": "AS", "SELECT": "SELECT"}


def kind_text(k):
    if k.startswith("'"):
        return k[1:-1]
    return REPR[k]


def reduce_default(k):
    """Reduced alphabet: one representative per class of tokens that always occur in the same positions."""
    m = {"'!='": "'=='", "'>'": "'<'", "'<='": "'<'", "'>='": "'<'", "'/'": "'*'", "'+'": "'+'",
         "STRING_WITH_WILDCARD": None, "NUMBER": "NUMBER"}
    return m.get(k, k)


def render_kinds(kinds, texts=None):
    """Single-space layout, except that the ' in ' token carries its own spaces."""
    out = []
    for i, k in enumerate(kinds):
        t = texts[i] if texts else kind_text(k)
        if k == "' in '":
            # no separator around it: it brings its own blanks
            if out and out[-1] == " ":
                out.pop()
            out.append(t)
        else:
            out.append(t)
            out.append(" ")
    if out and out[-1] == " ":
        out.pop()
    return "".join(out)


def classify_text(t):
    """token kind of a single lexeme (used to map real lexer output to grammar kinds)"""
    return t


# ---------------------------------------------------------------- random layouts

WS = [" ", "  ", "\t", "\n", "\r\n", "\r", " \n  ", "\r\r", "\t\r", ""]


def needs_sep(a, b):
    """Would lexemes a and b fuse or re-lex differently when written without a separator?"""
    if not a or not b:
        return False
    ia = a[-1].isalnum() or a[-1] == '_'
    ib = b[0].isalnum() or b[0] == '_'
    if ia and ib:
        return True
    pair = a[-1] + b[0]
    if pair in ("==", "!=", "<=", ">=", "||", "&&"):
        return True
    if a[-1].isdigit() and b[0] == '.':
        return True
    if a[-1] == '.' and b[0].isdigit():
        return True
    return False


def tight_layout(lexemes, kinds):
    """the token sequence written with a single blank only where two lexemes would otherwise fuse: every layout that
    `layout` produces is this text with white space added between tokens (Cpf.Lemmas.LexLayoutQ.Relayout)"""
    out = []
    for i, lx in enumerate(lexemes):
        out.append(lx)
        if i + 1 < len(lexemes) and kinds[i] != "' in '" and kinds[i + 1] != "' in '" and needs_sep(lx, lexemes[i + 1]):
            out.append(" ")
    return "".join(out)


def column_layout(lexemes, kinds):
    """every token on a line of its own, flush left (so that every token starts in column 0) — except around the
    ' in ' token, which keeps its neighbours on its line"""
    out = []
    for i, lx in enumerate(lexemes):
        out.append(lx)
        if i + 1 < len(lexemes):
            out.append("" if (kinds[i] == "' in '" or kinds[i + 1] == "' in '") else "\n")
    return "".join(out) + "\n"


def paragraph_layout(lexemes, kinds, rng):
    """every token on a line of its own with one or more blank lines (empty, blanks, a tab, CR LF) between them"""
    out = []
    for i, lx in enumerate(lexemes):
        out.append(lx)
        if i + 1 < len(lexemes):
            out.append("" if (kinds[i] == "' in '" or kinds[i + 1] == "' in '") else rng.choice(["\n\n", "\n\t\n", "\r\n\r\n", "\n  \n", "\n\n\n", "\n"]))
    return "".join(out) + "\n"


def layout(lexemes, kinds, rng, aggressive=True):
    """Re-lay-out a token sequence with random white space at every token boundary (outside string
    literals). The ' in ' token keeps exactly its own blanks (see known finding C14:in-whitespace)."""
    out = [rng.choice(["", " ", "\n", "\t"])]
    for i, lx in enumerate(lexemes):
        out.append(lx)
        if i + 1 < len(lexemes):
            nxt = lexemes[i + 1]
            if kinds[i] == "' in '" or kinds[i + 1] == "' in '":
                sep = ""
            else:
                cands = [w for w in WS if w or not needs_sep(lx, nxt)]
                sep = rng.choice(cands) if aggressive else " "
            out.append(sep)
    out.append(rng.choice(["", " ", "\n", " \r\n"]))
    return "".join(out)
