/-
  Model of the two rule-file readers:
    cmd/ci.go     ParseQuery + ParseCommentLine  (used by `ci`)
    cmd/query.go  ExtractQueryFromFile           (used by `scan` and `query --query-file`)
  Strings are `List Char`. `strings.TrimSpace` is modelled for ASCII white space (+U+0085, U+00A0).
  bufio.Scanner's 64 KiB line limit is not modelled.
-/
import Cpf.Go.Str

namespace Cpf.Rules
open Cpf.Go.Str

abbrev S := List Char

def lit (s : String) : S := s.toList

/-- a line that starts the query: its trimmed text begins with `predicate` or `FROM` -/
def startsQuery (line : S) : Bool :=
  hasPrefix (trimSpace line) (lit "predicate") || hasPrefix (trimSpace line) (lit "FROM")

def startsComment (line : S) : Bool := hasPrefix (trimSpace line) (lit "/*")

def trimPrefix (s p : S) : S := if hasPrefix s p then s.drop p.length else s

/-- `ParseCommentLine` -/
def parseCommentLine (line : S) : S × S :=
  let c := trimSpace (trimPrefix (trimSpace line) (lit "*"))
  match splitChar ' ' c with
  | k :: v1 :: vs => (k, join [' '] (v1 :: vs))
  | _ => ([], [])

structure Rule where
  id : S := []
  description : S := []
  severity : S := []
  impact : S := []
  provider : S := []
  query : S := []
  deriving Repr, DecidableEq

structure PState where
  rule : Rule := {}
  query : S := []
  findLine : Bool := false
  commentLine : Bool := false

def setKey (r : Rule) (k v : S) : Rule :=
  if k = lit "@id" then { r with id := v }
  else if k = lit "@description" then { r with description := v }
  else if k = lit "@problem.severity" then { r with severity := v }
  else if k = lit "@security-severity" then { r with impact := v }
  else if k = lit "@ruleprovider" then { r with provider := v }
  else r

def stepLine (st : PState) (line : S) : PState :=
  if startsComment line then { st with commentLine := true }
  else if startsQuery line then { st with findLine := true, query := st.query ++ line ++ [' '] }
  else if st.findLine then { st with query := st.query ++ line ++ [' '] }
  else if st.commentLine then
    let kv := parseCommentLine line
    { st with rule := setKey st.rule kv.1 kv.2 }
  else if hasPrefix (trimSpace line) (lit "*/") then { st with commentLine := false }
  else st

/-- `cmd.ParseQuery` (the rule reader of `ci`) -/
def ciParse (text : S) : Rule :=
  let st := (splitChar '\n' text).foldl stepLine {}
  { st.rule with query := trimSpace st.query }

/-- `bufio.Scanner` with ScanLines: split at `\n`, drop one trailing `\r` of each line, no final empty line -/
def scanLines (text : S) : List S :=
  let ls := splitChar '\n' text
  let ls := match ls.getLast? with
    | some [] => ls.dropLast
    | _ => ls
  ls.map (fun l => match l.getLast? with | some '\r' => l.dropLast | _ => l)

def stepExtract (st : Bool × S) (line : S) : Bool × S :=
  if startsQuery line then (true, st.2 ++ line ++ [' '])
  else if st.1 then (true, st.2 ++ line ++ [' '])
  else st

/-- `ExtractQueryFromFile` on the file's content -/
def extractQuery (text : S) : S := trimSpace ((scanLines text).foldl stepExtract (false, [])).2

end Cpf.Rules
