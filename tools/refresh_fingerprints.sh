#!/bin/bash
# After a change of /repo that has been validated (a `fix:` commit with its checks green), record the tree's
# function fingerprints as the reference for the adaptive depth.
cd "$(dirname "$(readlink -f "$0")")/.." && python3 - <<'PY'
import sys, shutil
sys.path.insert(0, '.')
from vlib import common as C
C.build_go(); ok, msg = C.run_factgen()
assert ok, msg
shutil.copy(C.LEAN + "/Cpf/Generated/fingerprints.json", C.VERIF + "/fingerprints.expected.json")
print("fingerprints.expected.json refreshed")
PY
