/-
  `strings.Fields` (model: `Cpf.Scan.fieldsB`) on words set apart by arbitrary white space: the list of the words,
  whatever the white space is (blanks, tabs, line breaks, several of them, leading and trailing runs).
  Used by C05 (`extractVisibilityModifier` reads the modifiers text through `strings.Fields`).
-/
import Cpf.Scan.Attrs
namespace Cpf.Lemmas.Fields
open Cpf.Scan

/-- a word: non-empty, no white space in it -/
def IsWord (w : Bytes) : Prop := w ≠ [] ∧ ∀ b ∈ w, isSpaceB b = false
/-- a gap: non-empty, white space only -/
def IsGap (g : Bytes) : Prop := g ≠ [] ∧ ∀ b ∈ g, isSpaceB b = true
def AllSpace (g : Bytes) : Prop := ∀ b ∈ g, isSpaceB b = true

/-- words, each followed by its gap -/
def layout : List (Bytes × Bytes) → Bytes
  | [] => []
  | (w, g) :: r => w ++ g ++ layout r

theorem fieldsAux_word (w rest cur : Bytes) (hw : ∀ b ∈ w, isSpaceB b = false) :
    fieldsAux (w ++ rest) cur = fieldsAux rest (w.reverse ++ cur) := by
  induction w generalizing cur with
  | nil => rfl
  | cons b bs ih =>
    have hb : isSpaceB b = false := hw b (by simp)
    have hbs : ∀ x ∈ bs, isSpaceB x = false := fun x hx => hw x (by simp [hx])
    show fieldsAux (b :: (bs ++ rest)) cur = _
    rw [fieldsAux]
    simp only [hb, Bool.false_eq_true, if_false]
    rw [ih (b :: cur) hbs]
    simp

theorem fieldsAux_space_nil (g rest : Bytes) (hg : AllSpace g) :
    fieldsAux (g ++ rest) [] = fieldsAux rest [] := by
  induction g with
  | nil => rfl
  | cons b bs ih =>
    have hb : isSpaceB b = true := hg b (by simp)
    show fieldsAux (b :: (bs ++ rest)) [] = _
    rw [fieldsAux]
    simp only [hb, if_true, List.isEmpty_nil]
    exact ih (fun x hx => hg x (by simp [hx]))

theorem fieldsAux_gap (g rest cur : Bytes) (hg : IsGap g) (hc : cur ≠ []) :
    fieldsAux (g ++ rest) cur = cur.reverse :: fieldsAux rest [] := by
  obtain ⟨hne, hall⟩ := hg
  cases g with
  | nil => exact absurd rfl hne
  | cons b bs =>
    have hb : isSpaceB b = true := hall b (by simp)
    show fieldsAux (b :: (bs ++ rest)) cur = _
    rw [fieldsAux]
    have : cur.isEmpty = false := by cases cur <;> simp_all
    simp only [hb, if_true, this, Bool.false_eq_true, if_false]
    rw [fieldsAux_space_nil bs rest (fun x hx => hall x (by simp [hx]))]

/-- `strings.Fields` of words set apart by any non-empty runs of white space is the list of the words -/
theorem fieldsB_layout (lead : Bytes) (items : List (Bytes × Bytes)) (hl : AllSpace lead)
    (hi : ∀ p ∈ items, IsWord p.1 ∧ IsGap p.2) :
    fieldsB (lead ++ layout items) = items.map (·.1) := by
  unfold fieldsB
  rw [fieldsAux_space_nil lead _ hl]
  induction items with
  | nil => rfl
  | cons p r ih =>
    obtain ⟨w, g⟩ := p
    have ⟨hw, hg⟩ := hi (w, g) (by simp)
    show fieldsAux (w ++ g ++ layout r) [] = _
    rw [List.append_assoc, fieldsAux_word w _ [] hw.2, List.append_nil,
        fieldsAux_gap g _ w.reverse hg (by simpa using hw.1), List.reverse_reverse]
    rw [ih (fun q hq => hi q (by simp [hq]))]
    rfl

/-- … and when the text ends with the last word -/
theorem fieldsB_layout_last (lead : Bytes) (items : List (Bytes × Bytes)) (w : Bytes) (hl : AllSpace lead)
    (hi : ∀ p ∈ items, IsWord p.1 ∧ IsGap p.2) (hw : IsWord w) :
    fieldsB (lead ++ layout items ++ w) = items.map (·.1) ++ [w] := by
  unfold fieldsB
  rw [List.append_assoc, fieldsAux_space_nil lead _ hl]
  induction items with
  | nil =>
    show fieldsAux (w) [] = [w]
    have := fieldsAux_word w [] [] hw.2
    rw [List.append_nil] at this
    rw [this, List.append_nil, fieldsAux]
    have : w.reverse.isEmpty = false := by
      have := hw.1; cases w <;> simp_all
    simp [this]
  | cons p r ih =>
    obtain ⟨w', g⟩ := p
    have ⟨hw', hg⟩ := hi (w', g) (by simp)
    show fieldsAux (w' ++ g ++ layout r ++ w) [] = _
    rw [List.append_assoc, List.append_assoc, fieldsAux_word w' _ [] hw'.2, List.append_nil,
        fieldsAux_gap g _ w'.reverse hg (by simpa using hw'.1), List.reverse_reverse]
    rw [ih (fun q hq => hi q (by simp [hq]))]
    rfl

end Cpf.Lemmas.Fields
