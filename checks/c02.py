"""C02 — no spurious or duplicated matches; no WHERE = cross product. Same sweep as C01, judged for
extra / duplicated / wrongly-typed combinations."""
from checks import c01

LEAN_MODULES = ["Cpf.Props.C02"]


def run(run):
    c01.sweep(run, "C02")
