/-
  Model of graph/query.go generateOutput and of cmd/query.go's JSON / text assembly in processQuery.
  Evaluation of a SELECT expression on a combination is opaque (`σ`); what is modelled is the *shape*:
  which row, which column, which entity, in which order — and the switch on the item type, which
  appends nothing for a type it does not know.
-/
import Cpf.Query.Listener
import Cpf.Query.Engine

namespace Cpf.Query

/-- strip the delimiting quotes of a string literal (`TrimPrefix`/`TrimSuffix` of one `"`) -/
def stripQuotes (s : List Char) : List Char :=
  let a := match s with
    | '"' :: r => r
    | _ => s
  match a.reverse with
  | '"' :: r => r.reverse
  | _ => a

inductive Cell where
  | lit (s : String)
  | val (expr : String) (t : Tuple)       -- the value of `expr` evaluated on combination `t`
  deriving Repr, DecidableEq

/-- the cells one SELECT item contributes to the row of combination `t` -/
def itemCells (t : Tuple) (it : SelectOut) : List Cell :=
  if it.ty = "string" then [.lit (String.ofList (stripQuotes it.text.toList))]
  else if it.ty = "method_chain" then [.val it.text t]
  else if it.ty = "variable" then [.val (it.text ++ ".toString()") t]
  else []

/-- `generateOutput` -/
def generateOutput (tuples : List Tuple) (items : List SelectOut) : List (List Cell) :=
  tuples.map (fun t => items.flatMap (itemCells t))

structure Loc where
  file : String
  line : Nat
  code : String
  deriving Repr, DecidableEq

/-- JSON mode: `result_set` has one entry per member of every combination, in order -/
def jsonResultSet (loc : Node → Loc) (tuples : List Tuple) : List Loc :=
  tuples.flatMap (fun t => t.map loc)

/-- text mode: for combination `i`, one block per member, each showing the row `i` -/
def textBlocks (loc : Node → Loc) (tuples : List Tuple) (rows : List (List Cell)) : List (Loc × List Cell) :=
  (tuples.zip rows).flatMap (fun p => p.1.map (fun n => (loc n, p.2)))

/-- text mode numbers the snippet lines from the reported line -/
def numberedLines (line : Nat) (snippetLines : List String) : List (Nat × String) :=
  (List.range snippetLines.length).zip snippetLines |>.map (fun p => (line + p.1, p.2))

end Cpf.Query
