/-
  C20 — hosted ruleset bundles round-trip the rules directory.

  * `json_roundtrip` (Cpf.Lemmas.JsonRoundtrip): Go's JSON string encoding is inverted by the decoder for every
    Unicode string;
  * `ext_cql_iff`: the producer's test (`filepath.Ext(name) == ".cql"`) and the local loader's
    (`strings.HasSuffix(name, ".cql")`) select the same file names;
  * `C20`: for every flat directory, what the loader reads out of the bundle is — entry by entry, byte for byte
    — what loading the directory from disk yields;
  * `C20_keys` (regenerated from both Go sources): the JSON keys the bundler writes and the keys
    downloadRuleset reads agree, and both contents are strings.
  Tie: the real gen-script binary, the real loader behind a stub HTTP transport and the real local loader are run
  on generated directories (checks/c20.py); the model's `escape` is compared with json.Marshal. encoding/json,
  os.ReadDir / filepath.Walk order and HTTP are modelled-not-verified.
-/
import Cpf.Rules.Bundle
import Cpf.Rules.RuleFile
import Cpf.Lemmas.JsonDoc
import Cpf.Generated.Tables

namespace Cpf.Props.C20
open Cpf.Rules.Json Cpf.Rules.Bundle Cpf.Generated

theorem takeWhile_cql (r : List Char) :
    (r.takeWhile (· ≠ '.') = ['l', 'q', 'c'] ∧ '.' ∈ r) ↔ r.take 4 = ['l', 'q', 'c', '.'] := by
  constructor
  · rintro ⟨h, hd⟩
    match r, h, hd with
    | a :: b :: c :: d :: rest, h, _ =>
        simp only [List.takeWhile] at h
        split at h
        · split at h
          · split at h
            · simp only [List.cons.injEq] at h
              obtain ⟨rfl, rfl, rfl, h4⟩ := h
              split at h4
              · simp at h4
              · rename_i hd'
                have : d = '.' := by simpa using hd'
                simp [this]
            · simp at h
          · simp at h
        · simp at h
    | [a, b, c], h, hd =>
        simp only [List.takeWhile] at h
        split at h
        · split at h
          · split at h
            · simp only [List.cons.injEq] at h
              obtain ⟨rfl, rfl, rfl, _⟩ := h
              simp at hd
            · simp at h
          · simp at h
        · simp at h
    | [a, b], h, _ => simp only [List.takeWhile] at h; split at h <;> (try split at h) <;> simp at h
    | [a], h, _ => simp only [List.takeWhile] at h; split at h <;> simp at h
    | [], h, _ => simp at h
  · intro h
    match r, h with
    | a :: b :: c :: d :: rest, h =>
        simp only [List.take, List.cons.injEq] at h
        obtain ⟨rfl, rfl, rfl, rfl, _⟩ := h
        constructor
        · simp [List.takeWhile]
        · simp
    | [a, b, c], h => simp at h
    | [a, b], h => simp at h
    | [a], h => simp at h
    | [], h => simp at h

/-- **the two file-name tests agree** -/
theorem ext_cql_iff (name : List Char) : (ext name == ['.', 'c', 'q', 'l']) = hasCqlSuffix name := by
  have key := takeWhile_cql name.reverse
  unfold ext hasCqlSuffix
  by_cases hd : '.' ∈ name
  · simp only [hd, ↓reduceIte]
    have hd' : '.' ∈ name.reverse := List.mem_reverse.2 hd
    by_cases ht : name.reverse.take 4 = ['l', 'q', 'c', '.']
    · have := (key.2 ht).1
      have e : (fun x : Char => decide (x ≠ '.')) = (fun x => !decide (x = '.')) := by funext x; simp
      rw [e] at this
      simp [ht, this]
    · have hne : ¬ (name.reverse.takeWhile (· ≠ '.') = ['l', 'q', 'c']) := fun h => ht (key.1 ⟨h, hd'⟩)
      have h1 : (name.reverse.take 4 == ['l', 'q', 'c', '.']) = false := by simpa using ht
      rw [h1]
      have : ¬ ((name.reverse.takeWhile (· ≠ '.')).reverse = ['c', 'q', 'l']) := by
        intro h
        apply hne
        have := congrArg List.reverse h
        simpa using this
      simpa using this
  · simp only [hd, ↓reduceIte]
    have : ¬ name.reverse.take 4 = ['l', 'q', 'c', '.'] := by
      intro h
      have := (key.2 h).2
      exact hd (List.mem_reverse.1 this)
    simp [this]

/-- **C20**: bundle → loader yields exactly the texts that the local loader yields, in the same order. -/
theorem C20 (dir : List File) : consume (produce dir) = (loadLocal dir).map some := by
  unfold consume produce loadLocal
  have hfilter : dir.filter (fun f => ext f.name == ['.', 'c', 'q', 'l']) = dir.filter (fun f => hasCqlSuffix f.name) := by
    apply List.filter_congr
    intro f _
    exact ext_cql_iff f.name
  rw [hfilter]
  simp [List.map_map, Function.comp_def, json_roundtrip]

/-! ### the same statement on whole documents (bytes written by the script, bytes read by the loader) -/

open Cpf.Rules.JsonDoc in
theorem wf_bundleDoc (name : List Char) (dir : List File) : wf (bundleDoc name dir) = true := by
  have h : ∀ (l : List File), wfElems (l.map (fun f => JV.obj [(kFileName, .str f.name), (kContent, .str f.content)])) = true := by
    intro l
    induction l with
    | nil => rfl
    | cons f r ih => simp only [List.map_cons, wfElems, wf, wfMembers, ih]; rfl
  simp [bundleDoc, wf, wfMembers, h]

open Cpf.Rules.JsonDoc in
theorem consumeDoc_bundleDoc (name : List Char) (dir : List File) :
    consumeDoc (bundleDoc name dir) = (dir.filter (fun f => ext f.name == ['.', 'c', 'q', 'l'])).map (·.content) := by
  have hm1 : memberOf kFiles [(kRuleset, JV.str name), (kFiles,
      JV.arr ((dir.filter (fun f => ext f.name == ['.', 'c', 'q', 'l'])).map (fun f => JV.obj [(kFileName, .str f.name), (kContent, .str f.content)])))]
      = some (JV.arr ((dir.filter (fun f => ext f.name == ['.', 'c', 'q', 'l'])).map (fun f => JV.obj [(kFileName, .str f.name), (kContent, .str f.content)]))) := by
    have : (kRuleset == kFiles) = false := by decide
    simp [memberOf, this]
  simp only [consumeDoc, bundleDoc, hm1]
  generalize dir.filter (fun f => ext f.name == ['.', 'c', 'q', 'l']) = l
  induction l with
  | nil => rfl
  | cons f r ih =>
      have hm2 : memberOf kContent [(kFileName, JV.str f.name), (kContent, JV.str f.content)] = some (JV.str f.content) := by
        have : (kFileName == kContent) = false := by decide
        simp [memberOf, this]
      simp only [List.map_cons, List.filterMap_cons, hm2]
      rw [ih]

/-- **C20 (documents)**: the bytes the bundling script writes for a directory (`json.MarshalIndent` of
    `{ruleset, files:[{file_name, content}]}`), decoded as the hosted loader decodes them, give exactly the texts the
    local loader reads from the same directory — same order, same multiplicities, byte-identical — for every directory
    and every file content. -/
theorem C20_document (name : List Char) (dir : List File) :
    loadHosted (bundleBytes name dir) = some (loadLocal dir) := by
  simp only [loadHosted, bundleBytes, Cpf.Rules.JsonDoc.decodeWs_encIndent _ (wf_bundleDoc name dir), Option.map_some,
    consumeDoc_bundleDoc, loadLocal]
  congr 2
  apply List.filter_congr
  intro f _
  exact ext_cql_iff f.name

/-- Regenerated: producer and consumer agree on the keys and on the types. -/
theorem C20_keys :
    bundleProducerTop = ["string:ruleset", "[]CQLFileContent:files"] ∧
    bundleProducerFile = ["string:file_name", "string:content"] ∧
    (∀ k ∈ bundleConsumerTop, ("[]CQLFileContent:" ++ k) ∈ bundleProducerTop) ∧
    (∀ k ∈ bundleConsumerFile, ("string:" ++ k) ∈ bundleProducerFile) ∧
    bundleConsumerTop = ["files"] ∧ bundleConsumerFile = ["content"] := by decide

/-! ### where the bundle is written and where it is asked for -/

theorem hasPrefix_append (p s : List Char) : Cpf.Go.Str.hasPrefix (p ++ s) p = true := by
  induction p with
  | nil => cases s <;> rfl
  | cons c cs ih => simp [Cpf.Go.Str.hasPrefix, ih]

/-- `strings.TrimPrefix(prefix + name, prefix) = name` for every name — also one that begins with letters of the
    prefix (`cpf/cpp`, `cpf/python`, `cpf/cpf/x`) -/
theorem C20_trim_prefix (p name : List Char) : Cpf.Rules.trimPrefix (p ++ name) p = name := by
  unfold Cpf.Rules.trimPrefix
  rw [hasPrefix_append]
  simp

/-- Regenerated: the producer writes the bundle of directory `d` to `…/rules/<base name of d>.json`; the consumer
    strips the provider prefix with `strings.TrimPrefix` (the function `C20_trim_prefix` is about) and asks for
    `…/rules/<name>.json`: `ci --ruleset cpf/<d>` asks for the file the bundler wrote for `<d>`, whatever `<d>` is. -/
theorem C20_path_and_url :
    bundleProducerPath = ["jsonFileName := filepath.Base(path) + \".json\"",
                          "jsonFilePath := filepath.Join(\"..\", \"..\", \"docs\", \"public\", \"rules\", jsonFileName)"] ∧
    bundleConsumerUrl = ["ruleset = strings.TrimPrefix(ruleset, \"cpf/\")",
                         "url := \"https://codepathfinder.dev/rules/\" + ruleset + \".json\""] := by decide

example : Cpf.Rules.trimPrefix "cpf/cpp".toList "cpf/".toList = "cpp".toList := by decide

/-- Regenerated: the bytes `json.MarshalIndent` returns are the bytes written, and the bytes read from the
    response are the bytes decoded — nothing rewrites them in between (the model's `produce` / `consume`
    have no such stage). -/
theorem C20_bytes_untouched :
    bundleProducerBytesFlow = ["lhs:json.MarshalIndent", "arg:os.WriteFile"] ∧
    bundleConsumerBytesFlow = ["lhs:io.ReadAll", "arg:json.Unmarshal"] := by decide

/-- Regenerated: inside the loader's loop over `files` an entry is skipped only when it is not an object or has no
    string `content` (the two type-assertion guards) — nothing else decides, so equal texts are all kept; the
    bundler's loop takes every `.cql` entry it can read. -/
theorem C20_loops_keep_every_entry :
    bundleConsumerLoop = ["if:ok", "if:ok", "append:rules<-content"] ∧
    bundleProducerLoop.take 3 = ["if:filepath.Ext(entry.Name()) == \".cql\"", "if:err != nil", "return"] ∧
    bundleProducerLoop.length = 4 := by decide

/-- Non-vacuity: quotes, backslash, newline, `<`, U+2028 and a non-BMP character; a non-.cql file is skipped. -/
example :
    consume (produce [⟨"a.cql".toList, "say \"hi\" \\ <b>\n 😀".toList⟩, ⟨"notes.txt".toList, "x".toList⟩, ⟨"b.x.cql".toList, [Char.ofNat 1]⟩])
      = [some "say \"hi\" \\ <b>\n 😀".toList, some [Char.ofNat 1]] := by decide

end Cpf.Props.C20
