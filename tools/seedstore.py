#!/usr/bin/env python3
"""seedstore.py <name> <property> <agent-out-dir> <needs> <what-ran> <result>   -> /verif/seeded/<name>/"""
import json, os, shutil, sys
name, prop, out, needs, ran, result = sys.argv[1:7]
dst = os.path.join("/verif/seeded", name)
if os.path.exists(dst):
    shutil.rmtree(dst)
os.makedirs(dst)
for f in os.listdir(out):
    p = os.path.join(out, f)
    if f.endswith(".log") or f == "recovered":
        continue
    if os.path.isdir(p):
        shutil.copytree(p, os.path.join(dst, f))
    elif os.path.getsize(p) < 2_000_000:
        shutil.copy(p, os.path.join(dst, f))
json.dump(dict(property=prop, name=name, needs_to_manifest=needs, confirmed=ran, checks_result=result,
               note="seeded fault for testing the checks only; never applied to /repo permanently"),
          open(os.path.join(dst, "meta.json"), "w"), indent=1)
print("stored", dst, os.listdir(dst))
