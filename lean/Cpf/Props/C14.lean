/-
  C14 — a query's meaning depends only on its token sequence.

  Model: Cpf.Query.Cli.prepare = lexer ∘ (recogniser, listener, predicate expansion, condition structure).
  After the `fix:` that takes the condition from the parse tree (conditionText) and expands predicates on
  identifiers, nothing downstream of the lexer looks at the characters again; the theorems below are that
  factorisation. The lexer itself (white space is skipped between tokens) is tied to ANTLR's by the
  correspondence `lex` (checks/c14.py: random layouts at every token boundary, real lexer vs model) —
  the round-trip "every layout of a token sequence lexes back to it" (`lex_layout` in DESIGN.md) is *not*
  proved in Lean. The `' in '` token contains its own blanks: extra white space next to it is a different
  token sequence (`'in'`), which the grammar rejects — recorded finding C14:in-whitespace.
-/
import Cpf.Query.Cli

namespace Cpf.Props.C14
open Cpf.Query Cpf.Go Cpf.Generated

/-- Two inputs with the same tokens are parsed to the same structure (or both rejected). -/
theorem C14_parse (cs₁ cs₂ : List Char) (h : lex lexRules cs₁ = lex lexRules cs₂) :
    parseQuery lexRules grammar startRule cs₁ = parseQuery lexRules grammar startRule cs₂ := by
  unfold parseQuery; rw [h]

/-- … and the evaluator is handed the same condition (same expansion, same structure, same atoms). -/
theorem C14_prepare (cs₁ cs₂ : List Char) (h : lex lexRules cs₁ = lex lexRules cs₂) :
    prepare cs₁ = prepare cs₂ := by
  unfold prepare; rw [h]

/-- The answer of the engine for an input, as a function of the prepared query. -/
def answer (ρ : Nat → Tuple → Res) (g : List Node) (compiles : Bool) (cs : List Char) : Outcome (List Tuple) :=
  match prepare cs with
  | .ok p => .ok (queryEntities ρ g { kinds := p.pq.selectList.map (·.entity), cond := p.cond, compiles := compiles })
  | .diag m => .diag m
  | .panic m => .panic m

/-- **C14**: same tokens ⇒ same results, and a valid query stays valid. -/
theorem C14 (ρ : Nat → Tuple → Res) (g : List Node) (b : Bool) (cs₁ cs₂ : List Char)
    (h : lex lexRules cs₁ = lex lexRules cs₂) : answer ρ g b cs₁ = answer ρ g b cs₂ := by
  unfold answer; rw [C14_prepare cs₁ cs₂ h]

theorem C14_valid (cs₁ cs₂ : List Char) (h : lex lexRules cs₁ = lex lexRules cs₂) :
    (prepare cs₁).isOk = (prepare cs₂).isOk := by
  rw [C14_prepare cs₁ cs₂ h]

/-- The condition text recorded by the listener is a function of the tokens of the WHERE sub-tree only. -/
theorem C14_conditionText_tokens (t : Token) :
    conditionText (.leaf t) = (if t.text = "||" ∨ t.text = "&&" then " " ++ t.text ++ " " else t.text) := by
  simp [conditionText]

/-- Non-vacuity: two layouts of the same query have the same tokens. -/
example : lex lexRules "FROM a AS b\n  WHERE\tb.x()==\"q\" SELECT b".toList
        = lex lexRules "FROM a AS b WHERE b . x ( ) == \"q\"  SELECT  b ".toList := by
  decide

/-- The recorded exception: a second blank before `in` is a different token sequence. -/
example : lex lexRules "a in b".toList ≠ lex lexRules "a  in b".toList := by
  decide

end Cpf.Props.C14
