"""C01 — no missed matches.  (C02 and C12 reuse `sweep` with a different emphasis.)

Proof: Cpf.Props.C01 (engine refinement: every combination in the cross product on which the
condition is true is in the result, for every condition shape and every atom meaning).
Correspondence: vlib/engine.py (real QueryEntities vs Lean model fed with the real atom tables).
Oracle: generator AST evaluated directly on the dumped candidates."""
import itertools, collections, json, os, random
from vlib import common as C, engine as E, querygen as QG, genquery as GQ, genjava as G

LEAN_MODULES = ["Cpf.Props.C01"]


def formulas(atoms, depth):
    """all condition shapes up to `depth` over the given atoms (as generator ASTs)"""
    level = [a for a in atoms]
    allf = list(level)
    for _ in range(depth):
        new = []
        for a in allf:
            new.append(QG.mk("not", a))
        for a in allf:
            for b in allf:
                new.append(QG.mk("and", a, b))
                new.append(QG.mk("or", a, b))
        allf = allf + new
    seen, out = set(), []
    for f in allf:
        k = QG.canonical(f)
        if k not in seen:
            seen.add(k)
            out.append(f)
    return out


def make_query(from_items, cond, select_alias, preds=()):
    q = QG.Query()
    q.from_items = list(from_items)
    q.preds = list(preds)
    q.cond = cond
    toks = []
    for p in q.preds:
        toks += [("PREDICATE", "predicate"), QG.ident(p.name), QG.sym("(")]
        for i, (t, n) in enumerate(p.params):
            if i:
                toks.append(QG.sym(","))
            toks += [QG.ident(t), QG.ident(n)]
        toks += [QG.sym(")"), QG.sym("{")] + QG.cond_tokens(p.body) + [QG.sym("}")]
    toks.append(("FROM", "FROM"))
    for i, (k, a) in enumerate(q.from_items):
        if i:
            toks.append(QG.sym(","))
        toks += [QG.ident(k), ("AS", "AS"), QG.ident(a)]
    if cond is not None:
        toks.append(("WHERE", "WHERE"))
        toks += QG.cond_tokens(cond)
    toks += [("SELECT", "SELECT"), QG.ident(select_alias)]
    q.tokens = toks
    q.kinds = [k for k, _ in toks]
    q.lexemes = [t for _, t in toks]
    q.select_items = [("variable", select_alias)]
    return q


def paren_variants(f):
    """the same formula with redundant parentheses around operands / the whole"""
    out = [f, ("paren", f)]
    if f[0] in ("and", "or"):
        a, b = f[1], f[2]
        pa = a if a[0] == "paren" else ("paren", a)
        pb = b if b[0] == "paren" else ("paren", b)
        out += [(f[0], pa, pb), (f[0], pa, b), (f[0], a, pb)]
    return out


def predicate_cases(rng, proj, kind, alias="x", limit=None):
    """queries that call a declared predicate: body shapes x call contexts (the C01/C13 quantifier
    'calls to declared predicates in any boolean context')"""
    atoms = []
    tries = 0
    while len(atoms) < 3 and tries < 60:
        tries += 1
        a = QG.accessor_atom(rng, "m", kind, proj.values)
        if QG.canonical(a) not in [QG.canonical(b) for b in atoms]:
            atoms.append(a)
    if len(atoms) < 3:
        return []
    bodies = []
    for f in formulas(atoms[:2], 1):
        bodies += paren_variants(f)
    outer = E.rename(atoms[2], {"m": alias})
    call = ("call", "p", (alias,))
    ctxs = [call, QG.mk("not", call), QG.mk("and", QG.mk("not", call), outer), QG.mk("or", QG.mk("not", call), outer),
            QG.mk("and", call, outer), QG.mk("or", outer, call), QG.mk("not", QG.mk("and", call, outer)), QG.mk("not", QG.mk("or", outer, call))]
    cases = []
    for b in bodies:
        for c in ctxs:
            q = make_query([(kind, alias)], c, alias, preds=[QG.Pred("p", [(kind, "m")], b)])
            cases.append(q)
    if limit and len(cases) > limit:
        cases = rng.sample(cases, limit)
    return cases


def judge(run, pid, proj, text, q, res, stats, mism):
    """compare real / model / oracle for one case; report according to the property `pid`"""
    stats["outcome:" + str(res.get("real_outcome"))] += 1
    if res.get("skipped"):
        stats["skipped"] += 1
        return
    real, model, oracle = res["real"], res["model"], res["oracle"]
    info = res["info"]
    if res.get("real_outcome") in ("panic", "died", "hang"):
        run.violation("%s:engine-crash" % pid, "QueryEntities ended abnormally (%s) on %r" % (res.get("real_outcome"), text),
                      dict(query=text, java=E.java_files(proj), err=info.get("real_err")))
        return
    if real is None:
        if q is not None:
            run.violation("%s:valid-query-rejected" % pid, "generated valid query rejected: %r: %s" % (text, info.get("real_err")),
                          dict(query=text))
        return
    if model is not None and model != real:
        mism.append(dict(query=text, real=len(real), model=len(model), info={k: info.get(k) for k in ("expanded", "formula", "atoms", "compiles")}))
    if oracle is not None:
        rc, oc = collections.Counter(real), collections.Counter(oracle)
        missing = list((oc - rc).elements())
        extra = list((rc - oc).elements())
        dups = [t for t, n in rc.items() if n > 1]
        if info.get("nonconstant_atoms"):
            stats["nonconstant_atom_cases"] += 1
        if missing and pid in ("C01", "C13", "C14"):
            run.violation("%s:missed-match" % pid,
                          "%d matching combination(s) not reported for %r, e.g. %s" % (len(missing), text, E.describe(proj, missing, 2)),
                          dict(query=text, java=E.java_files(proj), missing=E.describe(proj, missing), expected=len(oracle), got=len(real)))
        if (extra or dups) and pid in ("C02", "C13", "C14"):
            run.violation("%s:%s" % (pid, "duplicate" if dups and not extra else "spurious-match"),
                          "%d spurious / %d duplicated combination(s) reported for %r, e.g. %s" % (len(extra), len(dups), text, E.describe(proj, extra or dups, 2)),
                          dict(query=text, java=E.java_files(proj), extra=E.describe(proj, extra), dups=E.describe(proj, dups)))
        # FROM order and existence
        if pid == "C02":
            pr = proj.h.call(op="parse", q=text)
            kinds = [e for e, _ in pr.get("from", [])]
            for t in real:
                if len(t) != len(kinds) or any(i not in proj.by_id or proj.by_id[i]["type"] != k for i, k in zip(t, kinds)):
                    run.violation("C02:wrong-kind-or-order", "reported combination is not of the FROM kinds in FROM order for %r" % text,
                                  dict(query=text, tuple=E.describe(proj, [t])))
                    break


# attribute values that contain the connectives of the query language (initialisers are kept without blanks)
GATE = """class Gate {
    boolean both(boolean left, boolean right) {
        boolean and = left && right;
        boolean or = left || right;
        boolean mix = left&&right||!left;
        String text = "a && b";
        String bars = "x||y";
        return and;
    }
}
"""


def overload_cases(rng, proj, kinds):
    """two declarations with one name and one arity but other parameter kinds, both called in one WHERE"""
    if len(kinds) < 2:
        return
    for _ in range(6):
        k1, k2 = rng.sample(kinds, 2)
        q = QG.random_query(rng, kinds=[k1, k2], values=proj.values, n_entities=2, n_preds=0, where=False)
        (ka, a), (kb, b) = q.from_items
        name = rng.choice(["ov", "named", "isX", "check"])
        fa, fb = rng.choice(["m", "n", a, "p1"]), rng.choice(["m", "q", b, "p2"])
        fa = fa if fa not in (name,) + tuple(kinds) else "m"
        fb = fb if fb not in (name,) + tuple(kinds) else "m"
        pa = QG.Pred(name, [(ka, fa)], QG.accessor_atom(rng, fa, ka, proj.values))
        pb = QG.Pred(name, [(kb, fb)], QG.accessor_atom(rng, fb, kb, proj.values))
        ca, cb = ("call", name, (a,)), ("call", name, (b,))
        conds = [QG.mk("and", ca, cb), QG.mk("and", cb, ca), QG.mk("or", ca, cb), QG.mk("and", QG.mk("not", ca), cb),
                 QG.mk("or", cb, QG.mk("not", ca)), ca, cb]
        preds2 = None
        if rng.random() < 0.7:
            g1, g2 = "u", "w"
            p2a = QG.Pred(name + "2", [(ka, g1), (kb, g2)], QG.mk("and", QG.accessor_atom(rng, g1, ka, proj.values), QG.accessor_atom(rng, g2, kb, proj.values)))
            p2b = QG.Pred(name + "2", [(kb, g1), (ka, g2)], QG.mk("or", QG.accessor_atom(rng, g1, kb, proj.values), QG.accessor_atom(rng, g2, ka, proj.values)))
            preds2 = [p2a, p2b]
            c2a, c2b = ("call", name + "2", (a, b)), ("call", name + "2", (b, a))
            conds += [QG.mk("and", c2a, c2b), QG.mk("or", c2b, QG.mk("not", c2a)), QG.mk("and", c2b, ca)]
        for order in ([pa, pb], [pb, pa]):
            for c in conds:
                v = QG.clone(q)
                v.preds = list(order) + (preds2 or [])
                v.cond = c
                QG.flatten(v)
                yield v


def directed_cases(rng, proj, kinds):
    """expansions that are easy to get wrong and that random generation meets only by luck: an argument whose alias is
    spelled like a later formal (renaming must be simultaneous), escaped quotes in a literal of a predicate body or of
    the WHERE text before a call, a formal spelled like the predicate, a call inside a literal"""
    small = [k for k in ("class_declaration", "method_declaration", "variable_declaration") if k in kinds and 1 <= len(proj.by_kind.get(k, [])) <= 40]
    if len(small) < 2:
        return

    def cmp(alias, kind, lit=None, op=None):
        v = lit if lit is not None else rng.choice(proj.values.get((kind, "getName")) or ["zz"])
        return ("atom", (QG.ident(alias), QG.sym("."), QG.ident("getName"), QG.sym("("), QG.sym(")"), QG.sym(op or rng.choice(["==", "!="])), QG.strlit(QG.esc_lit(v))))
    for _ in range(4):
        k1, k2 = rng.sample(small, 2)
        for (f1, f2, a1, a2) in (("m", "c", "c", "k"), ("x", "y", "y", "x"), ("a", "b", "b", "c"), ("p", "q", "q", "p")):
            body = QG.mk(rng.choice(["and", "or"]), cmp(f1, k1), cmp(f2, k2))
            pr = QG.Pred("isIn", [(k1, f1), (k2, f2)], body)
            call = ("call", "isIn", (a1, a2))
            for cond in (call, QG.mk("not", call), QG.mk("and", cmp(a1, k1, op="!=", lit="q\"r"), call), QG.mk("or", call, cmp(a2, k2, lit="say \"hi\" (x)"))):
                yield make_query([(k1, a1), (k2, a2)], cond, a1, preds=[pr])
        # escaped quotes inside the body; a literal that looks like the call
        k = rng.choice(small)
        body = QG.mk("and", cmp("n", k, op="!=", lit="a\"b"), cmp("n", k))
        pr = QG.Pred("chk", [(k, "n")], body)
        call = ("call", "chk", ("x",))
        for cond in (call, QG.mk("and", cmp("x", k, op="!=", lit="chk(x)"), call), QG.mk("or", cmp("x", k, op="==", lit="\"chk(x)\""), call),
                     QG.mk("and", cmp("x", k, op="!=", lit="tail\\"), call)):
            yield make_query([(k, "x")], cond, "x", preds=[pr])
    # a literal that contains a connective (&&, ||) and equals the text of an entity: the comparison means the same in
    # the WHERE text and in a predicate body (Gate.java has such values)
    vk = "variable_declaration"
    conn = [v for v in (proj.values.get((vk, "getVariableValue")) or []) if ("&&" in v or "||" in v) and "\n" not in v]
    if vk in kinds and conn and len(proj.by_kind.get(vk, [])) <= 400:
        def vcmp(alias, lit, op):
            return ("atom", (QG.ident(alias), QG.sym("."), QG.ident("getVariableValue"), QG.sym("("), QG.sym(")"), QG.sym(op), QG.strlit(QG.esc_lit(lit))))
        for lit in conn[:5]:
            for op in ("==", "!="):
                pr = QG.Pred("lit", [(vk, "n")], vcmp("n", lit, op))
                call = ("call", "lit", ("x",))
                for cond in (call, vcmp("x", lit, op), QG.mk("and", call, vcmp("x", lit, op)), QG.mk("or", QG.mk("not", call), vcmp("x", lit, op))):
                    yield make_query([(vk, "x")], cond, "x", preds=[pr])


def sweep(run, pid):
    C.build_driver()
    h, d = C.Harness(), C.Driver()
    rng = run.rng
    stats = collections.Counter()
    mism = []
    quick = run.depth == "quick"
    nproj = 3 if quick else 12
    nrand = 120 if quick else 1200
    depth = 2
    projs = []
    try:
        for pi in range(nproj):
            proj = E.small_project(rng, h, nfiles=rng.randint(1, 3), extra={"src/Gate.java": GATE})
            projs.append(proj)
            kinds = [k for k in QG.KINDS_DEFAULT if proj.by_kind.get(k)]
            # --- exhaustive shapes over 3 atoms (1 entity) and 2+1 atoms (2 entities)
            k1 = rng.choice(kinds)
            a1 = "x"
            atoms = []
            tries = 0
            while len(atoms) < 3 and tries < 50:
                tries += 1
                a = QG.accessor_atom(rng, a1, k1, proj.values)
                if QG.canonical(a) not in [QG.canonical(b) for b in atoms]:
                    atoms.append(a)
            shapes = formulas(atoms, depth if not quick else 1)
            if quick:
                extra = formulas(atoms[:2], 2)
                shapes = shapes + rng.sample(extra, min(len(extra), 150))
            for f in shapes:
                q = make_query([(k1, a1)], f, a1)
                text = QG.plain(q)
                res = E.engine_case(proj, d, text, q)
                run.count(("shape", pi, QG.canonical(f)))
                judge(run, pid, proj, text, q, res, stats, mism)
            run.sample(dict(query=QG.plain(make_query([(k1, a1)], shapes[-1], a1)), kind="exhaustive-shape", project_nodes=len(proj.nodes)))
            # --- two entities: flat (unparenthesised) chains of three and four operands, plain and negated, every
            #     order of operands over the two aliases
            pairs = [(ka, kb) for ka in kinds for kb in kinds if ka != kb and 0 < len(proj.by_kind.get(ka, [])) * len(proj.by_kind.get(kb, [])) <= E.MAX_TUPLES]
            if pairs:
                ka, kb = rng.choice(pairs)
                ax1, ax2 = QG.accessor_atom(rng, "x", ka, proj.values), QG.accessor_atom(rng, "x", ka, proj.values)
                ay1, ay2 = QG.accessor_atom(rng, "y", kb, proj.values), QG.accessor_atom(rng, "y", kb, proj.values)
                chains = []
                for ops in itertools.permutations([ax1, ay1, ax2]):
                    chains.append(list(ops))
                chains += [[ax1, ay1, ay2, ax2], [ay1, ax1, ax2, ay2]]
                conds = []
                for ch in chains:
                    for op in ("and", "or"):
                        flat = ch[0]
                        for o in ch[1:]:
                            flat = QG.mk(op, flat, o)
                        conds += [flat, QG.mk("not", flat), QG.mk("and", ay2, QG.mk("not", flat)), QG.mk("and", QG.mk("not", flat), ax1)]
                for cnd in conds:
                    q = make_query([(ka, "x"), (kb, "y")], cnd, "x")
                    text = QG.plain(q)
                    res = E.engine_case(proj, d, text, q)
                    run.count(("two-entity-chain", pi, QG.canonical(cnd)))
                    stats["two_entity_chain_cases"] += 1
                    judge(run, pid, proj, text, q, res, stats, mism)
            # --- three, four and five kinds in one FROM list (products of a few hundred combinations): every
            #     combination that satisfies the condition exactly once, whatever the number of FROM items
            smallk = sorted([k for k in proj.by_kind if 1 <= len(proj.by_kind.get(k, [])) <= 4 and k not in ("File", "file")], key=lambda k: (len(proj.by_kind[k]), k))
            for nk in (3, 4, 5):
                if len(smallk) < nk:
                    continue
                for rep in range(1 if quick else 3):
                    ks = rng.sample(smallk[:12], nk)
                    size = 1
                    for k in ks:
                        size *= len(proj.by_kind[k])
                    if size > E.MAX_TUPLES:
                        continue
                    als = ["e%d" % i for i in range(nk)]
                    fi = list(zip(ks, als))
                    name_atom = lambda i: ("atom", (QG.ident(als[i]), QG.sym("."), QG.ident("toString"), QG.sym("("), QG.sym(")"), QG.sym("!="), QG.strlit("nothing prints like this")))
                    first = QG.accessor_atom(rng, als[0], ks[0], proj.values) if ks[0] in QG.STRING_ACC else name_atom(0)
                    last = QG.accessor_atom(rng, als[-1], ks[-1], proj.values) if ks[-1] in QG.STRING_ACC else name_atom(nk - 1)
                    for cnd in (None, first, last, QG.mk("and", first, name_atom(nk - 1)), QG.mk("or", last, QG.mk("not", name_atom(1)))):
                        q = make_query(fi, cnd, als[rng.randrange(nk)])
                        text = QG.plain(q)
                        res = E.engine_case(proj, d, text, q)
                        run.count(("many-kinds", nk, text))
                        stats["from_%d_kinds_cases" % nk] += 1
                        judge(run, pid, proj, text, q, res, stats, mism)
            # --- expansions that are easy to get wrong (an argument spelled like a later formal, escaped quotes, call text in a literal)
            for q in directed_cases(rng, proj, kinds):
                text = QG.plain(q)
                res = E.engine_case(proj, d, text, q)
                run.count(("directed", pi, text))
                stats["directed_expansion_cases"] += 1
                judge(run, pid, proj, text, q, res, stats, mism)
            # --- overloads: declarations with one name and one arity but other parameter kinds, in both orders
            for q in overload_cases(rng, proj, kinds):
                text = QG.plain(q)
                res = E.engine_case(proj, d, text, q)
                run.count(("overloads", pi, text))
                stats["overload_cases"] += 1
                judge(run, pid, proj, text, q, res, stats, mism)
            # --- predicate calls: body shapes x call contexts
            for q in predicate_cases(rng, proj, k1, limit=(120 if quick else None)):
                text = QG.plain(q)
                res = E.engine_case(proj, d, text, q)
                run.count(("pred-shape", pi, text))
                judge(run, pid, proj, text, q, res, stats, mism)
            # --- random queries, one and two entities, predicates
            for i in range(nrand // nproj):
                q = QG.random_query(rng, kinds=kinds, values=proj.values, depth=3 if quick else 4)
                text = GQ.layout(q.lexemes, q.kinds, rng, aggressive=False)
                res = E.engine_case(proj, d, text, q)
                run.count(("random", tuple(q.lexemes)))
                judge(run, pid, proj, text, q, res, stats, mism)
                if i < 2:
                    run.sample(dict(query=text, real=len(res["real"]) if res["real"] is not None else None,
                                    oracle=len(res["oracle"]) if res["oracle"] is not None else None,
                                    atoms=res["info"].get("atoms")))
            # --- the same kind named twice under two aliases: no WHERE (full square) and a condition on the
            #     last alias (the engine binds one alias per kind); every combination exactly once
            for k in kinds[:2]:
                if len(proj.by_kind.get(k, [])) ** 2 > E.MAX_TUPLES:
                    continue
                for cond in (None, QG.accessor_atom(rng, "b", k, proj.values)):
                    q = make_query([(k, "a"), (k, "b")], cond, "b")
                    text = QG.plain(q)
                    res = E.engine_case(proj, d, text, q)
                    run.count(("same-kind-twice", k, text))
                    judge(run, pid, proj, text, q, res, stats, mism)
            # --- conditions that cannot be evaluated on some entities (a member chain through a part that is absent:
            #     `return;` has no result, `for(;;)` no clauses, `assert x;` no message): such a combination is
            #     rejected, whatever was decided for the combination tested before it
            ERR = [("ReturnStmt", 'x.getReturnStmt().Result.NodeString == "%s"'), ("ReturnStmt", 'x.getReturnStmt().Result.NodeString != "%s"'),
                   ("ForStmt", 'x.getForStmt().Condition.NodeString != "%s"'), ("AssertStmt", 'x.getAssertStmt().Message.NodeString != "%s"'),
                   ("ClassInstanceExpr", 'x.getClassInstanceExpr().GetArg(0).NodeString != "%s"')]
            for kind, tmpl in ERR:
                if not proj.by_kind.get(kind):
                    continue
                for lit in ("null", "zz", "0"):
                    for wrap in ("%s", "!(%s)", '%s || x.toString() == "never"'):
                        text = "FROM %s AS x WHERE %s SELECT x" % (kind, wrap % (tmpl % lit))
                        for rep in range(2):
                            rr = h.call(op="query-entities", graph=proj.name, q=text, timeout=120)
                            run.count(("erroring", pi, text, rep))
                            stats["erroring_condition_cases"] += 1
                            if rr.get("outcome") != "ok":
                                continue
                            tuples = [list(t) for t in rr["tuples"]]
                            if not tuples:
                                continue
                            er = h.call(op="eval-atoms", graph=proj.name, q=text, strs=[wrap % (tmpl % lit)], results=tuples)
                            if er.get("outcome") != "ok":
                                continue
                            badrows = [t for t, c in zip(tuples, er["tables"][0]) if c != "t"]
                            dup = len(tuples) - len({tuple(t) for t in tuples})
                            if (badrows and pid == "C02") or (dup and pid == "C02"):
                                run.violation("C02:spurious", "%d spurious / %d duplicated combination(s) reported for %r: the condition is not true on them (it is false or cannot be evaluated there), e.g. %s" %
                                              (len(badrows), dup, text, E.describe(proj, [tuple(badrows[0])] if badrows else [], 1)),
                                              dict(query=text, java=E.java_files(proj), spurious=E.describe(proj, [tuple(b) for b in badrows[:3]])))
            # --- literals containing keywords, negation of a single comparison, no WHERE
            for (k, nodes) in list(proj.by_kind.items())[:6]:
                if k not in QG.STRING_ACC:
                    continue
                n0 = nodes[0]
                for f in [("atom", (QG.ident("x"), QG.sym("."), QG.ident("getName"), QG.sym("("), QG.sym(")"), QG.sym("=="), QG.strlit(QG.esc_lit(n0["name"])))),
                          QG.mk("not", ("atom", (QG.ident("x"), QG.sym("."), QG.ident("getName"), QG.sym("("), QG.sym(")"), QG.sym("=="), QG.strlit("SELECT WHERE")))),
                          None]:
                    q = make_query([(k, "x")], f, "x")
                    text = QG.plain(q)
                    res = E.engine_case(proj, d, text, q)
                    run.count(("special", k, text))
                    judge(run, pid, proj, text, q, res, stats, mism)
            # --- literals that contain && or ||: they are compared as they are written
            for k in ["variable_declaration"]:
                vals = [v for v in (proj.values.get((k, "getVariableValue")) or []) if "&&" in v or "||" in v]
                for v in vals[:6]:
                    for f in [("atom", (QG.ident("x"), QG.sym("."), QG.ident("getVariableValue"), QG.sym("("), QG.sym(")"), QG.sym("=="), QG.strlit(QG.esc_lit(v)))),
                              QG.mk("and", ("atom", (QG.ident("x"), QG.sym("."), QG.ident("getVariableValue"), QG.sym("("), QG.sym(")"), QG.sym("=="), QG.strlit(QG.esc_lit(v)))),
                                    ("atom", (QG.ident("x"), QG.sym("."), QG.ident("getName"), QG.sym("("), QG.sym(")"), QG.sym("!="), QG.strlit("a||b && c")))),
                              QG.mk("not", ("atom", (QG.ident("x"), QG.sym("."), QG.ident("getVariableValue"), QG.sym("("), QG.sym(")"), QG.sym("!="), QG.strlit(QG.esc_lit(v)))))]:
                        q = make_query([(k, "x")], f, "x")
                        text = QG.plain(q)
                        res = E.engine_case(proj, d, text, q)
                        run.count(("connective-literal", text))
                        stats["connective_literal_cases"] += 1
                        judge(run, pid, proj, text, q, res, stats, mism)
    finally:
        for p in projs:
            p.close()
        h.close()
        d.close()
    run.extra["outcome_histogram"] = dict(stats)
    if mism:
        run.broken_obligation("correspondence:engine", "Lean engine model and QueryEntities disagree on %d queries, e.g. %s" % (len(mism), json.dumps(mism[:2])[:1500]))
    return stats


def run(run):
    sweep(run, "C01")
