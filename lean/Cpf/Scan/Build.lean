/-
  The structural model of buildGraphFromAST / traverseAST (graph/construct.go), driven by the generated
  table `nodeLits`: for every syntax node, the entities it adds (kind, location, identity pre-image), the
  call links, and the places where the Go code dereferences a child without a nil check (`Outcome.panic`).
-/
import Cpf.Scan.Tree

namespace Cpf.Scan
open Cpf.Go Cpf.Facts Cpf.Generated

structure Ent where
  kind : String
  ty   : String
  sb   : Nat
  eb   : Nat
  line : Nat
  pre  : Bytes          -- what is hashed into the identity
  deriving Repr, Inhabited

/-- `%d` / `strconv.Itoa` -/
def decB (n : Nat) : Bytes := (Nat.toDigits 10 n).map (fun c => UInt8.ofNat c.toNat)

def joinB (sep : Bytes) : List Bytes → Bytes
  | [] => []
  | [x] => x
  | x :: xs => x ++ sep ++ joinB sep xs

/-- `fmt.Sprintf("%s", []string{…})` -/
def fmtList (xs : List Bytes) : Bytes := str "[" ++ joinB (str " ") xs ++ str "]"

/-! ### names that enter identities (hand-modelled loops of construct.go) -/

/-- the identifiers that are direct children of a call, accumulated as the loop of `extractMethodName` does:
    `if methodName == "" { methodName = c } else { methodName = methodName + "." + c }` — so an empty
    identifier (tree-sitter's MISSING node after error recovery) before the first non-empty one leaves no dot -/
def invocationName (n : T) (src : Bytes) : Bytes :=
  ((n.children.filter (fun c => c.ty = "identifier")).map (·.content src)).foldl
    (fun acc c => if acc.isEmpty then c else acc ++ str "." ++ c) []

/-- `extractMethodName`: (methodName, parameters) -/
def methodNameOf (n : T) (src : Bytes) : Outcome (Bytes × List Bytes) :=
  if n.ty = "method_declaration" then
    let name := (n.children.filter (fun c => c.ty = "identifier")).getLast?.map (·.content src) |>.getD []
    let params := (n.children.filter (fun c => c.ty = "formal_parameters")).flatMap
      (fun fp => fp.namedChildren.map (·.content src))
    .ok (name, params)
  else if n.ty = "method_invocation" then
    match n.childByField "argument_list" with
    | none => .ok (invocationName n src, [])
    | some args =>
        -- `argument.Child(0).Content(…)` for every child of the argument list, once per child of the call
        match args.children.all (fun a => (a.child 0).isSome) with
        | true => .ok (invocationName n src,
                    n.children.flatMap (fun _ => args.children.filterMap (fun a => (a.child 0).map (·.content src))))
        | false => .panic "extractMethodName: argument.Child(0) is nil"
  else .ok ([], [])

/-- variable name: the `name` field of the last `variable_declarator` (its whole text if it has none) -/
def variableNameOf (n : T) (src : Bytes) : Bytes :=
  match (n.children.filter (fun c => c.ty = "variable_declarator")).getLast? with
  | none => []
  | some d =>
      match d.childByField "name" with
      | some i => i.content src
      | none => d.content src

/-- created class: the last `type_identifier` / `scoped_type_identifier` child -/
def classNameOf (n : T) (src : Bytes) : Bytes :=
  ((n.children.filter (fun c => c.ty = "type_identifier" ∨ c.ty = "scoped_type_identifier")).getLast?.map (·.content src)).getD []

def opaqueVal (name : String) (n : T) (src : Bytes) : Outcome Bytes :=
  if name = "methodName" then (methodNameOf n src).mapOk (·.1)
  else if name = "variableName" then .ok (variableNameOf n src)
  else if name = "className" then .ok (classNameOf n src)
  else if name = "node.ChildByFieldName(\"name\").Content(sourceCode)" then
    match n.childByField "name" with
    | some c => .ok (c.content src)
    | none => .panic "class_declaration: ChildByFieldName(\"name\") is nil"
  else .diag ("factgen produced an identity component the model does not know: " ++ name)

def opaqueListVal (name : String) (n : T) (src : Bytes) : Outcome (List Bytes) :=
  if name = "parameters" then (methodNameOf n src).mapOk (·.2)
  else .diag ("factgen produced an identity list the model does not know: " ++ name)

/-- flat atoms only (no nested lists) -/
def atomFlat (n : T) (src file : Bytes) : IdAtom → Outcome Bytes
  | .lit s => .ok (str s)
  | .row => .ok (decB (n.sr + 1))
  | .col => .ok (decB (n.sc + 1))
  | .file => .ok file
  | .content => .ok (n.content src)
  | .opaque name => opaqueVal name n src
  | _ => .diag "nested list inside a list element"

def seqOutcome {α : Type} : List (Outcome α) → Outcome (List α)
  | [] => .ok []
  | x :: xs =>
      match x with
      | .ok a =>
          match seqOutcome xs with
          | .ok as => .ok (a :: as)
          | .diag m => .diag m
          | .panic m => .panic m
      | .diag m => .diag m
      | .panic m => .panic m

def atomBytes (n : T) (src file : Bytes) : IdAtom → Outcome Bytes
  | .opaqueList name => (opaqueListVal name n src).mapOk fmtList
  | .strList items =>
      (seqOutcome (items.map (fun it => (seqOutcome (it.map (atomFlat n src file))).mapOk List.flatten))).mapOk fmtList
  | a => atomFlat n src file a

/-- the identity pre-image of literal `l` at node `n` -/
def preimage (l : NodeLit) (n : T) (src file : Bytes) : Outcome Bytes :=
  (seqOutcome (l.idFmt.map (atomBytes n src file))).mapOk List.flatten

/-! ### which literals fire at a node -/

/-- unchecked dereferences of the visitor at this node (besides the identity components) -/
def shapeOk (n : T) : Bool :=
  if n.ty = "binary_expression" then
    (n.childByField "left").isSome && (n.childByField "right").isSome && (n.childByField "operator").isSome
  else if n.ty = "yield_statement" ∨ n.ty = "assert_statement" then (n.child 1).isSome
  else if n.ty = "class_declaration" then (n.childByField "name").isSome
  else if n.ty = "method_invocation" then
    match n.childByField "argument_list" with
    | none => true
    | some args => args.children.all (fun a => (a.child 0).isSome)
  else true

def guardHolds (l : NodeLit) (n : T) (src : Bytes) : Bool :=
  if l.guard = "" then true
  else if l.guard = "strings.HasPrefix(node.Content(sourceCode), \"/*\")" then hasPrefixB (n.content src) (str "/*")
  else false    -- an unknown guard: nothing is emitted, which the correspondence will show

/-- the literals of `nodeLits` that apply to node `n`, in source order -/
def litsFor (n : T) : List NodeLit :=
  nodeLits.filter (fun l =>
    l.tsTypes.contains n.ty &&
    (l.ops.isEmpty ||
      match n.childByField "operator" with
      | some o => l.ops.contains o.ty
      | none => false))

def emitAt (n : T) (src file : Bytes) : Outcome (List Ent) :=
  if !shapeOk n then .panic ("nil dereference at a " ++ n.ty ++ " node")
  else
    seqOutcome (((litsFor n).filter (fun l => l.added && guardHolds l n src)).map (fun l =>
      (preimage l n src file).mapOk (fun p => { kind := l.kind, ty := n.ty, sb := n.sb, eb := n.eb, line := n.sr + 1, pre := p })))

structure St where
  ents  : List Ent := []               -- in insertion order
  edges : List (Bytes × Bytes) := []   -- (from identity, to identity)
  deriving Inhabited

/-- the new `currentContext` after visiting `n` (a method declaration or the generic binary-expression node) -/
def newContext (n : T) (es : List Ent) (ctx : Option Ent) : Option Ent :=
  if n.ty = "method_declaration" then (es.find? (fun e => e.kind = "method_declaration")).orElse (fun _ => ctx)
  else if n.ty = "binary_expression" then (es.find? (fun e => e.kind = "binary_expression")).orElse (fun _ => ctx)
  else ctx

mutual
def traverse (src file : Bytes) : T → Option Ent → St → Outcome St
  | .mk t f b e r c nm cs, ctx, st =>
      match emitAt (.mk t f b e r c nm cs) src file with
      | .ok es =>
          let edges :=
            if t = "method_invocation" then
              match ctx, es.find? (fun x => x.kind = "method_invocation") with
              | some cx, some inv => [(cx.pre, inv.pre)]
              | _, _ => []
            else []
          traverseList src file cs (newContext (.mk t f b e r c nm cs) es ctx)
            { ents := st.ents ++ es, edges := st.edges ++ edges }
      | .diag m => .diag m
      | .panic m => .panic m
def traverseList (src file : Bytes) : List T → Option Ent → St → Outcome St
  | [], _, st => .ok st
  | c :: cs, ctx, st =>
      match traverse src file c ctx st with
      | .ok st1 => traverseList src file cs ctx st1
      | .diag m => .diag m
      | .panic m => .panic m
end

/-- map semantics of `graph.Nodes[id] = node`: a later insert with an equal identity replaces the earlier -/
def dedup : List Ent → List Ent
  | [] => []
  | e :: es => if es.any (fun x => x.pre == e.pre) then dedup es else e :: dedup es

/-- `buildGraphFromAST` on one file -/
def buildGraph (t : T) (src file : Bytes) : Outcome St := traverse src file t none {}

/-- iterations of the inner loop of `markInvokedMethods` (where the hook `verifCountOp` sits):
    for every method declaration of the graph, every node of the graph -/
def passOps (st : St) : Nat :=
  ((dedup st.ents).filter (fun e => e.kind = "method_declaration")).length * (dedup st.ents).length

end Cpf.Scan
