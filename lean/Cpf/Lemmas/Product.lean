/-
  Membership and duplicate-freeness of the Go-style cartesian product fold.
-/
import Cpf.Query.Engine

namespace Cpf.Query

/-- `Pointwise R xs ys`: same length and related position by position (core has no `Forall₂`). -/
inductive Pointwise {α β : Type} (R : α → β → Prop) : List α → List β → Prop
  | nil : Pointwise R [] []
  | cons {a b as bs} : R a b → Pointwise R as bs → Pointwise R (a :: as) (b :: bs)

theorem Pointwise.snoc {α β : Type} {R : α → β → Prop} {as : List α} {bs : List β} {a : α} {b : β}
    (h : Pointwise R as bs) (hab : R a b) : Pointwise R (as ++ [a]) (bs ++ [b]) := by
  induction h with
  | nil => exact .cons hab .nil
  | cons h1 _ ih => exact .cons h1 ih

theorem Pointwise.length_eq {α β : Type} {R : α → β → Prop} {as : List α} {bs : List β}
    (h : Pointwise R as bs) : as.length = bs.length := by
  induction h with
  | nil => rfl
  | cons _ _ ih => simp [ih]

theorem Pointwise.snoc_inv {α β : Type} {R : α → β → Prop} {as : List α} {bs : List β} {a : α} {b : β}
    (h : Pointwise R (as ++ [a]) (bs ++ [b])) : Pointwise R as bs ∧ R a b := by
  induction as generalizing bs with
  | nil =>
      cases bs with
      | nil => cases h with | cons h1 _ => exact ⟨.nil, h1⟩
      | cons b' bs' =>
          cases h with
          | cons _ h2 => have := h2.length_eq; simp at this
  | cons x xs ih =>
      cases bs with
      | nil =>
          cases h with
          | cons _ h2 => have := h2.length_eq; simp at this
      | cons b' bs' =>
          cases h with
          | cons h1 h2 =>
              obtain ⟨h3, h4⟩ := ih h2
              exact ⟨.cons h1 h3, h4⟩

/-- One step of the fold. -/
def prodStep {α : Type} (result : List (List α)) (set : List α) : List (List α) :=
  set.flatMap (fun item => result.map (fun sub => sub ++ [item]))

theorem mem_prodStep {α : Type} (result : List (List α)) (set : List α) (t : List α) :
    t ∈ prodStep result set ↔ ∃ sub item, sub ∈ result ∧ item ∈ set ∧ t = sub ++ [item] := by
  simp only [prodStep, List.mem_flatMap, List.mem_map]
  constructor
  · rintro ⟨item, hi, sub, hs, rfl⟩; exact ⟨sub, item, hs, hi, rfl⟩
  · rintro ⟨sub, item, hs, hi, rfl⟩; exact ⟨item, hi, sub, hs, rfl⟩

theorem mem_foldl_prod {α : Type} (sets : List (List α)) (acc : List (List α)) (t : List α) :
    t ∈ sets.foldl prodStep acc ↔ ∃ p s, p ∈ acc ∧ Pointwise (· ∈ ·) s sets ∧ t = p ++ s := by
  induction sets generalizing acc t with
  | nil =>
      simp only [List.foldl_nil]
      constructor
      · intro h; exact ⟨t, [], h, .nil, by simp⟩
      · rintro ⟨p, s, hp, hs, rfl⟩; cases hs; simpa using hp
  | cons set rest ih =>
      simp only [List.foldl_cons]
      rw [ih]
      constructor
      · rintro ⟨p, s, hp, hs, rfl⟩
        rw [mem_prodStep] at hp
        obtain ⟨sub, item, hsub, hitem, rfl⟩ := hp
        exact ⟨sub, item :: s, hsub, .cons hitem hs, by simp⟩
      · rintro ⟨p, s, hp, hs, rfl⟩
        cases hs with
        | cons h1 h2 =>
            rename_i a as
            exact ⟨p ++ [a], as, (mem_prodStep _ _ _).2 ⟨p, a, hp, h1, rfl⟩, h2, by simp⟩

/-- A tuple is in the product iff it picks, position by position, an element of each set. -/
theorem mem_cartesianProduct {α : Type} (sets : List (List α)) (t : List α) :
    t ∈ cartesianProduct sets ↔ Pointwise (· ∈ ·) t sets := by
  have h := mem_foldl_prod sets [[]] t
  unfold cartesianProduct
  change t ∈ sets.foldl prodStep [[]] ↔ _
  rw [h]
  constructor
  · rintro ⟨p, s, hp, hs, rfl⟩
    simp at hp; subst hp; simpa using hs
  · intro ht; exact ⟨[], t, by simp, ht, by simp⟩

theorem nodup_map_of_inj {α β : Type} {f : α → β} (hf : ∀ a b, f a = f b → a = b) {l : List α}
    (h : l.Nodup) : (l.map f).Nodup := by
  induction l with
  | nil => simp
  | cons x xs ih =>
      rw [List.map_cons, List.nodup_cons]
      obtain ⟨h1, h2⟩ := List.nodup_cons.1 h
      refine ⟨?_, ih h2⟩
      intro hm
      simp only [List.mem_map] at hm
      obtain ⟨y, hy, he⟩ := hm
      exact h1 (hf _ _ he ▸ hy)

theorem nodup_prodStep {α : Type} (result : List (List α)) (set : List α)
    (hr : result.Nodup) (hs : set.Nodup) : (prodStep result set).Nodup := by
  unfold prodStep
  induction set with
  | nil => simp
  | cons x xs ih =>
      simp only [List.flatMap_cons]
      have hx : x ∉ xs := (List.nodup_cons.1 hs).1
      have hxs : xs.Nodup := (List.nodup_cons.1 hs).2
      rw [List.nodup_append]
      refine ⟨?_, ih hxs, ?_⟩
      · exact nodup_map_of_inj (fun a b hab => List.append_cancel_right hab) hr
      · intro a ha b hb
        simp only [List.mem_map] at ha
        obtain ⟨sa, _, rfl⟩ := ha
        simp only [List.mem_flatMap, List.mem_map] at hb
        obtain ⟨y, hy, sb, _, rfl⟩ := hb
        intro heq
        have : x = y := by
          have := congrArg List.getLast? heq
          simpa using this
        exact hx (this ▸ hy)

theorem nodup_foldl_prod {α : Type} (sets : List (List α)) (acc : List (List α))
    (hacc : acc.Nodup) (hsets : ∀ s ∈ sets, s.Nodup) : (sets.foldl prodStep acc).Nodup := by
  induction sets generalizing acc with
  | nil => simpa using hacc
  | cons s rest ih =>
      simp only [List.foldl_cons]
      exact ih _ (nodup_prodStep acc s hacc (hsets s (by simp))) (fun s' hs' => hsets s' (by simp [hs']))

/-- Duplicate-free sets give a duplicate-free product. -/
theorem nodup_cartesianProduct {α : Type} (sets : List (List α)) (h : ∀ s ∈ sets, s.Nodup) :
    (cartesianProduct sets).Nodup := by
  unfold cartesianProduct
  change (sets.foldl prodStep [[]]).Nodup
  exact nodup_foldl_prod sets [[]] (by simp) h

end Cpf.Query
