#!/bin/bash
# usage: seedbatch.sh <round-dir> <Cxx>...   : confirm each seeded change in its worktree, then run its property's check
D="$1"; shift
for P in "$@"; do
  O="$D/$P-out"; W="$D/$P-wt"
  DEMO=""
  for f in demo.sh run_demo.sh run-demo.sh; do [ -f "$O/$f" ] && DEMO="bash $O/$f"; done
  [ -z "$DEMO" ] && [ -f "$O/demo.py" ] && DEMO="python3 $O/demo.py"
  echo "######## $P   demo: $DEMO"
  (cd "$D" && /verif/tools/seedconfirm.sh "$W" "$O/patch.diff" $DEMO 2>&1 | tail -1)
  /verif/tools/seedrun.sh "$O/patch.diff" "$P" 2>&1 | grep -v KNOWN | cut -c1-260 | head -7
done
