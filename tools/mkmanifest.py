#!/usr/bin/env python3
"""Writes MANIFEST.json from the table below (kept as code so the per-property texts live in one place)."""
import json, subprocess
CHECKS = {}
def add(pid, technique, text, note, ref):
    CHECKS[pid] = dict(technique=technique, text=text, note=note, ref=ref)

COMMON_NOTE = ("Trusted: Lean 4.33 kernel + propext/Classical.choice/Quot.sound (audited per theorem every run); tools/factgen and "
               "tools/g4gen.py (regenerate Lean tables from /repo each run); the correspondence harness (differential, sampled); "
               "modelled-not-verified libraries listed in DESIGN.md §8.")

add("C19", "Lean 4 proof by `decide` over tables regenerated from the Go source on every run (go/ast extractor) + exhaustive CLI-level queries of every observed kind",
    "Machine-checked theorems (Cpf.Props.C19) state that every kind a `&Node{}` literal of buildGraphFromAST can produce has a `case` in generateProxyEnv, an accessor table with toString, and only accessors that are defined and nil-safe for that kind. The tables are re-extracted from /repo each run, so the theorems are about the current source; the kitchen-sink scan ties 'kinds in the source' to 'kinds observed' and exercises every kind through the real processQuery.",
    COMMON_NOTE, "DESIGN.md §6 C19")

add("C01", "Lean 4 refinement proof of the engine model (induction over the FROM fold) + differential run of model and real QueryEntities on real atom tables + independent reference evaluation",
    "Theorem C01_complete: for every graph, FROM list, condition shape and atom meaning, every combination in the cross product on which the condition is true is in queryEntities' result (the model mirrors graph/query.go after the fix that removed the unsound narrowing). The model is tied to the code by running both on the same queries: the real expr-lang environment supplies each atom's value per combination, the Lean driver predicts the composite result, and a generator-side reference evaluation (predicates inlined by the generator) is the oracle for missed matches. Condition shapes are enumerated exhaustively to a fixed depth over 3 atoms; random deeper queries with predicates, two entities, keyword-bearing literals.",
    COMMON_NOTE + " expr-lang's evaluation of an atom is opaque to the model (atoms are parameters); its parser is assumed to agree with Query.g4 on ||, &&, ! precedence (validated differentially).", "DESIGN.md §6 C01")
add("C02", "Lean 4 proof (soundness, duplicate-freeness by induction over the product fold, no-WHERE = cross product) + the same differential sweep judged for spurious / duplicated / wrongly-typed combinations",
    "Theorems C02_sound, C02_nodup, C02_no_where(_mem), C02_compile_error over the engine model, for all graphs/queries/atom meanings. Tie and oracle as for C01; additionally every reported combination is checked to consist of existing entities of the FROM kinds in FROM order, and multiplicities are compared (multisets).",
    COMMON_NOTE, "DESIGN.md §6 C02")
add("C11", "Lean 4 proof that the list-of-successes recogniser is sound and complete for the inductive derivation relation of an arbitrary EBNF grammar (the grammar is regenerated from Query.g4 each run) + exhaustive differential vs ANTLR and vs an independent Earley recogniser",
    "parse_sound / parse_complete are proved once for every grammar (functional induction / induction on derivations), so editing Query.g4 re-proves; C11_accept_iff, C11_reject_partial, C11_lex_error state acceptance = membership and diagnostics otherwise. ANTLR's generated parser cannot be translated, so it is tied exhaustively: every sentence up to N tokens over a reduced alphabet and single-token edits are run through the real ParseQuery, the Lean model and an independent Python lexer+Earley recogniser (oracle); structure (FROM items, SELECT kinds, predicates) is compared on random laid-out queries against what the generator wrote.",
    COMMON_NOTE + " Gap stated in Lean (C11_full): completeness for the driver's fixed fuel needs a derivation-height bound that is not proved.", "DESIGN.md §6 C11")
add("C12", "Lean 4 proof of the set laws on the engine model (and unconditional; or/not where the operand does not fail; De Morgan, absorption, distribution, double negation unconditional; counter-example theorems for the full or/not statements) + metamorphic set-law check on real results",
    "C12_and, C12_or_partial, C12_not_partial, C12_equiv and the equivalence instances hold for all graphs, FROM lists and atom meanings, including atoms outside any reference fragment. The full or/not laws are refuted in Lean by a witness and on the implementation by a replay (recorded finding C12:runtime-error-in-operand). The check evaluates related queries on the real engine and verifies the laws on the real result sets, and runs all of them through the Lean model.",
    COMMON_NOTE, "DESIGN.md §6 C12")

add("C10", "Lean 4 proof of totality of the modelled query front end (listener never dereferences an absent child on well-formed trees; console answers every line) + outcome-class correspondence on a malformed-query stream + real-CLI console sessions + native Go fuzzing (thorough)",
    "The model carries each partial Go operation explicitly (Outcome.panic). C10_walk_total / C10_prepare_total_partial: no character string makes lexer+parser+listener+predicate expansion end abnormally, given that accepted inputs have well-formed parse trees (hypothesis AcceptedTreesWF, re-validated by the driver on every accepted input of every run; its general proof from recogniser conformance is not done). C10_console_survives: the session answers every complete line before :quit for every chunking of stdin. The evaluator side is total by construction in the model. Against the real code: token-mutated and arbitrary strings, a list of unusual-but-valid queries (non-boolean WHERE, zero-argument calls, 3-4 entities, unknown accessors/aliases/kinds, recursive and ambiguous predicates, deep nesting), each against an empty and a non-empty graph in both output modes; outcome must be ok or diag and must equal the model's class.",
    COMMON_NOTE + " Panics inside ANTLR's runtime, expr-lang and encoding/json are outside the model (searched by the malformed stream and fuzzing only).", "DESIGN.md §6 C10")
add("C13", "Lean 4 proofs about the modelled predicate resolution and expansion (unused declarations, reordering, exact-call expansion, renaming) + text-for-text correspondence of the expansion + metamorphic oracle on the real engine",
    "C13_unused_*, C13_reorder_match, C13_call_exact, C13_rename_ident hold for all inputs of the model of ReplacePredicateVariables/matchPredicate (as repaired). The general inlining statement (C13_inline_full) is stated but not proved (it needs a parser-substitution lemma); it is covered by correspondence (Lean expansion text = real expansion text on every generated query) and by the oracle: call inlined by the generator, aliases / formals renamed to adversarial identifiers (substrings of others), unused predicates added, declarations reordered — result multisets must be equal on the real engine.",
    COMMON_NOTE, "DESIGN.md §6 C13")
add("C14", "Lean 4 proof that the modelled pipeline factors through the lexer's token list + lexer correspondence (model vs ANTLR) on random layouts and strings + re-layout oracle on the real engine",
    "C14_parse / C14_prepare / C14 / C14_valid: two inputs with equal token lists get the same structure, condition, validity and results, for all graphs and atom meanings. The lexer model (maximal munch over rules regenerated from Query.g4) is tied to ANTLR's lexer on random character strings and on every generated layout; the oracle re-lays-out each query several times (spaces, tabs, CR/LF, no separator where allowed) and compares validity and result multisets on the real engine. The white-space-in-' in ' exception is a recorded finding. The pretty-print/lex round trip (lex_layout) is not proved in Lean.",
    COMMON_NOTE, "DESIGN.md §6 C14")
add("C15", "Lean 4 proof of row/cell alignment and of text/JSON location agreement on the output model + CLI-level oracle in every output mode, with the expected row layout taken from the Lean model",
    "C15_rows, C15_cell, C15_modes, C15_text_row, C15_numbered hold for all result lists, SELECT lists and evaluators (the model mirrors generateOutput's switch, which appends nothing for an unknown item type, and processQuery's JSON/text assembly). The real CLI is run in all six mode combinations on projects whose snippets contain quotes, backslashes, control characters, HTML-sensitive and non-ASCII text: single well-formed JSON document, snippets preserved byte for byte, each cell equals the selected attribute of that row's own entity, identical location multisets in all modes, text-mode numbering.",
    COMMON_NOTE + " fatih/color TTY detection and cobra flag parsing are exercised, not modelled.", "DESIGN.md §6 C15")
add("C16", "Lean 4 proof over all chunkings of stdin (buffered-reader refinement), regenerated source facts (reader outside loop, accessors read-only) decided in Lean, + history-vs-fresh differential and console-vs-stand-alone oracle",
    "C16_console / C16_console_chunking: for every way the input bytes are delivered, the console transcript equals the stand-alone answers of the complete lines up to :quit; C16_console_fresh_reader_fails refutes the pre-fix behaviour. C16_reader_outside_loop and C16_env_read_only are `decide`d on facts re-extracted from the Go source each run; C16_history follows. Against the real code: sequences (1..24) of valid/invalid/repeated queries on one loaded graph, each answer compared with a freshly scanned graph's; console sessions with piped and incrementally written stdin compared line by line with stand-alone runs.",
    COMMON_NOTE, "DESIGN.md §6 C16")

add("C03", "Lean 4 proof over abstract syntax trees (mutual induction: the traversal emits every node's entities exactly once; statement identity format injective via decimal-rendering lemmas; dedup lemma) with kinds/identity formats regenerated from the Go source + exact correspondence of the model with buildGraphFromAST (SHA-256 of the model's pre-image = real ID) + independent census oracle",
    "C03_visit, C03_emitted_kind, C03_stmt_formats (decide on the regenerated table), C03_stmt_ids_injective, C03_dedup_id, C03_ids_mention_file, C03_not_position_complete and the refutation C03_full_fails_for_variables. The model is tied exactly: on the real tree-sitter tree of every test file the model's entities, identities and call links equal the real graph's. Oracles: generator ground truth (unique mode: one entity per construct, nothing else), an independent census of the tree for android/mutated files, project level (nested dirs, mixed extensions). Same-file identity collisions are recorded findings (one signature per kind).",
    COMMON_NOTE + " Identity = SHA-256 of the pre-image (collision resistance assumed).", "DESIGN.md §6 C03")
add("C04", "Lean 4 proof on byte lists (snippet is the file text at its offset; the i-th snippet line lies on file line LineNumber+i, for any bytes) + regenerated facts about every Node literal decided in Lean + oracle over every entity of generated / android / mutated / random-byte / invalid-UTF-8 / CRLF inputs",
    "C04_fields (decide: LineNumber = Row+1, CodeSnippet = node.Content, File = file for every literal of the visitor), C04_entity_location, C04_snippet_in_file, C04_line_of_offset, C04_ith_line. tree-sitter's contract (start row = newlines before start byte, column, ranges) is an explicit assumption re-validated on every dumped tree. Oracle: the snippet bytes must occur in the scanned file starting on the reported line, for every entity; text mode's numbered lines are compared with the file.",
    COMMON_NOTE, "DESIGN.md §6 C04")
add("C07", "Lean 4 proof that the merge is independent of arrival order (bindings by identity and multiset of links, under identity disjointness across files) + regenerated pool facts decided in Lean + forced-arrival-order differential through build-tagged hooks",
    "C07_merge_nodes, C07_merge_edges hold for all lists of per-file graphs and all permutations; the disjointness hypothesis follows from file-scoped identity formats (C07_ids_file_scoped, regenerated) and is re-validated on every project. Real Initialize is run with forced arrival orders (all permutations up to 4 files in thorough), the observed merge order is checked to be the forced one, and the merged graph must equal the union of the per-file graphs and be identical across orders, GOMAXPROCS values, file counts around the pool size and repetitions. The pool's termination for all schedules is NOT proved (only its channel capacities / program order are pinned as regenerated facts: C07_pool_facts); thorough adds the race detector.",
    COMMON_NOTE + " Go scheduler, memory model and cgo parser thread-safety are outside the model.", "DESIGN.md §6 C07")
add("C08", "Lean 4 proof of isolation on the merge model (for every set and order of other per-file graphs, and with faulty files dropped) + context differential with real permission faults as a non-root user",
    "C08_isolation, C08_same_as_alone, C08_faults, disjoint_sublist. Real code: file F scanned alone vs inside contexts (copies, same name elsewhere, shared fragments, empty/malformed/binary files, non-.java files, dangling and live symlinks, unreadable file and unreadable directory as uid 65534); entities and call links whose file is F must be identical.",
    COMMON_NOTE + " filepath.Walk / os.ReadFile are modelled-not-verified.", "DESIGN.md §6 C08")
add("C09", "Lean 4 proof for every abstract tree (mutual induction): no panic under the node-shape hypothesis, quadratic bound on the work of the declaration x invocation pass; regenerated facts on where that pass runs; exact op-count correspondence through a build-tagged counter hook; mutation/fuzz oracle under recover with time limits",
    "C09_total_partial (all trees satisfying allShapeOk, all byte strings), C09_total_full_fails (the unconditional statement is false for the model: the hypothesis is necessary), C09_cost (passOps <= (K*size)^2), C09_pass_placement (decide on regenerated facts). allShapeOk is re-validated on every real tree; the hook counter of the real run equals the model's passOps on the same tree. Oracle: token mutations, random bytes, truncations, deep nesting, invalid UTF-8 through the real visitor; scaling family at n/3n/9n (op counts and growth ratio); thorough: go native fuzzing.",
    COMMON_NOTE + " Wall-clock time, Go stack limits, tree-sitter's termination and memory are not carried by the model.", "DESIGN.md §6 C09")

add("C05", "Lean 4: regenerated attribute wiring decided in Lean, list-shape theorems for any length (named children of delimited lists), pure-function facts for visibility and Javadoc parsing; exact correspondence of the Lean attribute model with the real Node fields on real trees; generator ground-truth oracle",
    "C05_wiring (which extracted value each attribute field of the class/method/variable literals is set from, re-extracted from the Go source every run), C05_list_named / C05_throws (for lists of any length exactly the written items, in order), C05_visibility_*, C05_javadoc_examples (evaluated in the kernel; labelled as examples). The extraction functions of Cpf.Scan.Attrs (post-fix code) are compared attribute by attribute with the real scanner on every generated program and on the android sample. The oracle compares what the generator *wrote* (every visibility, primitive/void/array/class types, 0..n parameters/throws/annotations, superclass, interfaces, Javadoc tag mixes, fields and locals with/without initialisers) with the real attributes. A general theorem 'extract (shape d) = written d' over a Lean-owned Java AST is not done: that the tree of a construct has the assumed shape is tree-sitter's grammar, validated by the exact correspondence.",
    COMMON_NOTE, "DESIGN.md §6 C05")
add("C06", "Lean 4: operator->kind table and attribute wiring decided on regenerated tables; call-argument theorem for argument lists of any length; exact correspondence of the attribute model; generator ground-truth oracle over all 19 operators and every statement form",
    "C06_operator_kinds (each of the 19 operators yields exactly its documented specific kind), C06_generic_binary, C06_wiring(_operators), named_delimited / C06_call_args (any number of arguments: exactly the argument texts in order, string literals unquoted), C06_block_includes_braces (the recorded finding as a model fact). Correspondence and oracle as for C05, over calls (0..n arguments of every literal kind, this./identifier./field receivers), object creations (simple and scoped), nested and parenthesised binary operands, if/else, while, do-while, for with empty clauses, labelled break/continue, yield, assert with/without message, return with/without result, blocks.",
    COMMON_NOTE, "DESIGN.md §6 C06")

def main():
    hooks_commits = subprocess.run(["git", "-C", "/repo", "log", "--format=%H %s", "--grep=^verif:"], capture_output=True, text=True).stdout.strip().splitlines()
    m = dict(
        version=1,
        setup_cmd="cd /verif && ./setup.sh",
        hooks=dict(guard="verif (Go build tag)",
                   enable="go build -tags verif (harness module /verif/harness with replace => /repo/sourcecode-parser)",
                   baseline_off_cmd="/verif/tools/baseline.sh",
                   source_commits=[l.split()[0] for l in hooks_commits],
                   add_only=True),
        engines=[dict(name="lean-model", path="/verif/lean", serves_properties=sorted(CHECKS), kind_free_text="Lean 4 model + theorems (core only), regenerated tables, native driver"),
                 dict(name="harness", path="/verif/harness", serves_properties=sorted(CHECKS), kind_free_text="Go harness calling the real functions in-process (-tags verif)"),
                 dict(name="check", path="/verif/check.py", serves_properties=sorted(CHECKS), kind_free_text="orchestrator: build, factgen, lake build + axiom audit, correspondence, oracle search, evidence")],
        checks=[],
        notes="See DESIGN.md. Every check: ./check <id> quick|thorough. known_findings.json lists recorded defects and fixed ones.",
        not_applicable=[],
    )
    for pid in sorted(CHECKS):
        c = CHECKS[pid]
        m["checks"].append(dict(
            property_id=pid, quick_cmd="./check %s quick" % pid, thorough_cmd="./check %s thorough" % pid,
            evidence_file="/verif/evidence/%s.json" % pid, replay_cmd_template="./check --replay {path}",
            engine="lean-model", level_claimed=dict(category="proof", text=c["text"], design_ref=c["ref"]),
            level_note=c["note"], technique=c["technique"]))
    json.dump(m, open("/verif/MANIFEST.json", "w"), indent=1)

if __name__ == "__main__":
    main()
