"""C19 — every entity kind the scanner produces can be queried.

Proof: Cpf.Props.C19 over tables regenerated from /repo (decide over the whole finite table).
Tie beyond the tables / oracle: scan the kitchen-sink family with the real scanner and query every
observed kind through the real processQuery (`FROM k AS x SELECT x`, and one accessor-based WHERE
per accessor the engine offers for that kind)."""
import json, os, shutil
from vlib import common as C, genjava as G


def run(run):
    tables = json.load(open(os.path.join(C.LEAN, "Cpf", "Generated", "tables.json")))
    produced = sorted({l["kind"] for l in tables["nodeLits"]})
    cases = dict((k, v) for k, v in tables["envCases"])
    d = C.scratch("c19")
    try:
        os.makedirs(os.path.join(d, "p"))
        open(os.path.join(d, "p", "Sink.java"), "w").write(G.kitchen_sink())
        # names shared across kinds: a field and a local named like a class, a method named like its class, a class
        # named like a method of another class
        open(os.path.join(d, "p", "Registry.java"), "w").write(
            "class Registry {\n    private static final Registry Registry = new Registry();\n    int Registry() { int Holder = 1; return Holder; }\n}\n"
            "class Holder {\n    Holder lookup;\n    void lookup() { Registry Holder = null; }\n}\nclass lookup { }\n")
        import random
        for i in range(3 if run.depth == "quick" else 12):
            g = G.Gen(random.Random(run.seed * 100 + i), G.Opts(unique=True, classes=1, methods=3, stmts=6, depth=2))
            open(os.path.join(d, "p", "F%d.java" % i), "w").write(g.file("K%d_" % i)[0])
        # statements with and without their optional parts, side by side: a filter through the optional part keeps the
        # entities that have it, whatever the others do
        open(os.path.join(d, "p", "Optional.java"), "w").write(G.optional_parts())
        h = C.Harness()
        r = h.call(op="scan", dir=os.path.join(d, "p"), graph="g")
        if r.get("outcome") != "ok":
            run.violation("C19:scan-failed", "scan of the kitchen-sink project failed: %s" % r.get("outcome"), dict(dir="kitchen_sink"))
            return
        by_kind = {}
        for n in r["nodes"]:
            by_kind.setdefault(n["type"], []).append(n)
        observed = sorted(by_kind)
        run.extra["kinds_observed"] = observed
        run.extra["kinds_produced_by_source"] = produced
        run.extra["kinds_not_exercised"] = [k for k in produced if k not in by_kind]
        run.extra["exhaustive"] = not run.extra["kinds_not_exercised"]
        for k in observed:
            if k not in produced:
                run.broken_obligation("correspondence:kinds", "scanner produced kind %r that factgen does not see in the source" % k)
        # filters through an optional part
        opt = [("ReturnStmt", 'x.getReturnStmt().Result.NodeString != "no such text"', lambda n: (n.get("return") or {}).get("result") not in (None, "")),
               ("ForStmt", 'x.getForStmt().Init.NodeString != "no such text"', lambda n: (n.get("for") or {}).get("init") not in (None, "")),
               ("ForStmt", 'x.getForStmt().Condition.NodeString != "no such text"', lambda n: (n.get("for") or {}).get("cond") not in (None, "")),
               ("AssertStmt", 'x.getAssertStmt().Message.NodeString != "no such text"', lambda n: (n.get("assert") or {}).get("msg") not in (None, ""))]
        for k, cond, has in opt:
            if k not in by_kind:
                continue
            want = sum(1 for n in by_kind[k] if has(n))
            if want in (0, len(by_kind[k])):
                continue
            q = "FROM %s AS x WHERE %s SELECT x" % (k, cond)
            for rep in range(3):
                rr = h.call(op="query", graph="g", q=q, output="json")
                run.count((k, "optional-part", rep))
                got = None
                if rr.get("outcome") == "ok":
                    try:
                        got = len(json.loads(rr["result"])["result_set"])
                    except Exception:
                        got = None
                if got != want:
                    run.violation("C19:kind-not-queryable:%s" % k, "%d of the %d %s entities have the optional part, but %r returns %s of them (outcome %s)" %
                                  (want, len(by_kind[k]), k, q, got, rr.get("outcome")), dict(query=q, got=got, want=want, java="Optional.java in checks/c19.py"))
                    break
        for k in observed:
            # the alias is an arbitrary identifier: a short one, the kind's own name, another kind's name
            other = "method_declaration" if k != "method_declaration" else "class_declaration"
            queries = ["FROM %s AS x SELECT x" % k, "FROM %s AS %s SELECT %s" % (k, k, k), "FROM %s AS %s SELECT %s" % (k, other, other),
                       "FROM %s AS %s WHERE %s.toString() == %s.toString() SELECT %s" % (k, k, k, k, k)]
            var = cases.get(k)
            for acc, impl in (tables["envAccessors"].get(var, []) if var else []):
                if impl.startswith("lit:"):
                    queries.append('FROM %s AS x WHERE x.%s == "%s" SELECT x' % (k, acc, impl[4:]))
                else:
                    queries.append('FROM %s AS x WHERE x.%s() == x.%s() SELECT x' % (k, acc, acc))
            for q in queries:
                rr = h.call(op="query", graph="g", q=q, output="json")
                run.count((k, q.split("SELECT")[0]))
                want = len(by_kind[k])
                got = None
                if rr.get("outcome") == "ok":
                    try:
                        js = json.loads(rr["result"])
                        got = len(js["result_set"])
                        outs = js["output"]
                    except Exception:
                        got = None
                run.sample(dict(query=q, outcome=rr.get("outcome"), results=got, expected=want))
                if rr.get("outcome") == "died":
                    h.call(op="scan", dir=os.path.join(d, "p"), graph="g", nonodes=True)
                bad = rr.get("outcome") != "ok" or got != want
                why = ""
                # every row of a bare SELECT describes an entity of the kind that was asked for
                if not bad and (" WHERE " not in q) and any(row and isinstance(row[0], str) and row[0].startswith("Node{") and ("Type: %s," % k) not in row[0] for row in outs):
                    bad = True
                    why = "; a row describes an entity of another kind"
                # a bare `SELECT x` must render the entity, not an empty cell
                if not bad and (" SELECT " in q and " WHERE " not in q or q.endswith("SELECT %s" % k)) and any((not row or row[0] in ("", None)) for row in outs):
                    bad = True
                if bad:
                    run.violation("C19:kind-not-queryable:%s" % k,
                                  "kind %s is produced by the scanner but %r gives outcome=%s results=%s (expected %d)%s" %
                                  (k, q, rr.get("outcome"), got, want, why),
                                  dict(java="kitchen_sink()+generated", query=q, outcome=rr.get("outcome"), got=got, want=want,
                                       panic=rr.get("panic")))
        # two kinds in one FROM list (C19_bindings_distinct): each alias stays bound to its own kind, in either order.
        # Graph: the kitchen sink alone (every kind, few entities each, so that every ordered pair is cheap).
        os.makedirs(os.path.join(d, "s"))
        open(os.path.join(d, "s", "Sink.java"), "w").write(G.kitchen_sink())
        r2 = h.call(op="scan", dir=os.path.join(d, "s"), graph="g2")
        cnt = {}
        for n in r2.get("nodes", []):
            cnt[n["type"]] = cnt.get(n["type"], 0) + 1
        names = sorted(cnt)
        # (only the names the scanner produces: the binder also accepts second spellings — comparison_expression,
        #  and_bitwise_expression, … — which no entity carries; a FROM item spelled that way selects nothing, alone or in a
        #  pair, and C19 is about the produced kinds)
        canon_of = lambda k: next((c for c in cnt if c == k), None) or next((c for c in cnt if cases.get(c) == cases.get(k)), None)
        pair_bad = npairs = 0
        for k1 in names:
            for k2 in names:
                c1, c2 = canon_of(k1), canon_of(k2)
                if c1 is None or c2 is None or c1 == c2 or cnt[c1] * cnt[c2] > 900:
                    continue
                q = "FROM %s AS a, %s AS b WHERE a.toString() == a.toString() && b.toString() == b.toString() SELECT a, b" % (k1, k2)
                rr = h.call(op="query", graph="g2", q=q, output="json")
                run.count(("pair", k1, k2))
                npairs += 1
                want = cnt[c1] * cnt[c2]
                got, why = None, ""
                if rr.get("outcome") == "ok":
                    try:
                        js = json.loads(rr["result"])
                        got = len(js["output"])   # one row per combination (result_set lists every entity of every combination)
                        if got == want and any(len(row) != 2 or row[0] in ("", None) or row[1] in ("", None) or ("Type: %s," % c1) not in str(row[0]) or ("Type: %s," % c2) not in str(row[1]) for row in js["output"]):
                            why = "; a SELECT cell is empty or describes another kind"
                    except Exception:
                        got = None
                if rr.get("outcome") == "died":
                    h.call(op="scan", dir=os.path.join(d, "s"), graph="g2", nonodes=True)
                if rr.get("outcome") != "ok" or got != want or why:
                    pair_bad += 1
                    if pair_bad <= 4:
                        run.violation("C19:kinds-not-queryable-together:%s+%s" % (c1, c2),
                                      "kinds %s and %s are produced by the scanner but %r gives outcome=%s results=%s (expected %d = %d x %d)%s" %
                                      (k1, k2, q, rr.get("outcome"), got, want, cnt[c1], cnt[c2], why),
                                      dict(java="kitchen_sink()", query=q, outcome=rr.get("outcome"), got=got, want=want, panic=rr.get("panic")))
        run.extra["kind_pairs_queried"] = npairs
        h.close()
    finally:
        shutil.rmtree(d, ignore_errors=True)
