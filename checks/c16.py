"""C16 — queries on a loaded project do not interfere with one another.

Proof: Cpf.Props.C16 (console transcript for *all chunkings* of stdin = stand-alone answers of the complete
lines; the fresh-reader-per-prompt behaviour refuted by a witness; regenerated facts: reader created outside
the prompt loop, no Env accessor writes through env.Node; history independence from read-only-ness).
Oracle / correspondence: sequences of valid and invalid queries on one loaded graph, each answer compared
with the answer on a freshly scanned graph; console sessions (piped and incremental stdin) compared line by
line with stand-alone CLI runs and with the console model's transcript."""
import collections, json, os, random, re, shutil, subprocess, time
from vlib import common as C, engine as E, querygen as QG, genquery as GQ
from checks import c10, c15

LEAN_MODULES = ["Cpf.Props.C16"]

DOCQ = [
    'FROM method_declaration AS md WHERE md.getDoc().GetCommentAuthor() == "nobody" SELECT md',
    'FROM method_declaration AS md SELECT md',
    'FROM class_declaration AS cd WHERE cd.getDoc().GetCommentVersion() != "0" SELECT cd, cd.getDoc()',
    'FROM class_declaration AS cd SELECT cd',
    'FROM variable_declaration AS v WHERE v.getDoc().GetCommentSince() == "" SELECT v',
    'FROM variable_declaration AS v SELECT v',
    'FROM method_invocation AS mi WHERE mi.getDoc().GetCommentAuthor() == "" SELECT mi',
    'FROM method_invocation AS mi SELECT mi',
    'FROM ClassInstanceExpr AS c WHERE c.getDoc().GetCommentAuthor() == "" SELECT c',
    'FROM ClassInstanceExpr AS c SELECT c',
]


def canon(result):
    """order-insensitive canonical form of a JSON answer (rows stay attached to their entities)"""
    # `SELECT x` prints the entity with %+v: Javadoc tags appear as pointer values, which differ between scans
    result = re.sub(r"0x[0-9a-f]{6,}", "0xPTR", result)
    try:
        js = json.loads(result)
    except Exception:
        return ("text", result)
    rs, rows = js.get("result_set") or [], js.get("output") or []
    if rows and len(rs) % len(rows) == 0:
        ne = len(rs) // len(rows)
        items = [json.dumps([rs[i * ne:(i + 1) * ne], rows[i]], sort_keys=True) for i in range(len(rows))]
    else:
        items = [json.dumps(e, sort_keys=True) for e in rs] + [json.dumps(r) for r in rows]
    return ("json", tuple(sorted(items)))


def run(run):
    C.build_driver()
    h, d = C.Harness(), C.Driver()
    rng = run.rng
    quick = run.depth == "quick"
    stats = collections.Counter()
    proj = E.small_project(rng, h, nfiles=2, extra={"src/Mk.java": "class Mk { void m() { Object a = new Foo(); Object b = new Bar(\"x\"); } }\n"})
    try:
        kinds = [k for k in QG.KINDS_DEFAULT if proj.by_kind.get(k)]
        nseq = 6 if quick else 60

        def gen_query():
            k = rng.random()
            if k < 0.3:
                return rng.choice(DOCQ)
            if k < 0.7:
                return QG.plain(QG.random_query(rng, kinds=kinds, values=proj.values, depth=2, n_entities=1))
            if k < 0.85:
                return rng.choice(c10.UNUSUAL[:30])
            return " ".join(c10.mutate_tokens(rng, QG.random_query(rng, kinds=kinds, values=proj.values).lexemes))

        fresh_cache = {}

        def fresh_answer(q):
            if q not in fresh_cache:
                # a stand-alone evaluation: a new process (no state of any kind survives), a fresh scan
                h2 = C.Harness()
                h2.call(op="scan", dir=proj.dir, graph="fresh", nonodes=True)
                r = h2.call(op="query", graph="fresh", q=q, output="json")
                h2.close()
                fresh_cache[q] = (r.get("outcome"), canon(r.get("result", "")) if r.get("outcome") == "ok" else None)
            return fresh_cache[q]

        for s in range(nseq):
            h.call(op="scan", dir=proj.dir, graph="loaded", nonodes=True)
            n = rng.randint(1, 20)
            seq = [gen_query() for _ in range(n)]
            if s % 3 == 1:
                # near-duplicates: queries that share everything but one part (what a cache key might forget):
                # the body of a called predicate, a literal, the FROM kind behind the same alias, the SELECT list
                fam = []
                k1 = rng.choice([k for k in kinds if k in QG.STRING_ACC])
                vals = (proj.values.get((k1, "getName")) or ["x"])
                v1, v2 = rng.choice(vals), rng.choice(vals)
                for body in ('m.getName() == "%s"' % v1, 'm.getName() != "%s"' % v1, 'm.getVisibility() == "public"', 'm.getName() == "%s"' % v2):
                    fam.append('predicate p(%s m) { %s } FROM %s AS x WHERE p(x) SELECT x.getName()' % (k1, body, k1))
                fam.append('predicate p(%s m, %s n) { m.getName() == n.getName() } FROM %s AS x WHERE p(x, x) SELECT x.getName()' % (k1, k1, k1))
                for lit in (v1, v2, "nope"):
                    fam.append('FROM %s AS x WHERE x.getName() == "%s" SELECT x.getName()' % (k1, lit))
                    fam.append('FROM %s AS x WHERE x.getName() == "%s" SELECT x.getVisibility(), x' % (k1, lit))
                for k2 in kinds:
                    fam.append('FROM %s AS x WHERE x.getName() != "%s" SELECT x.getName()' % (k2, v1))
                # white-space twins: texts that differ only in the amount or kind of white space — inside a literal (another
                # literal), between tokens (the same query), next to the `in` token (one of them is not a query at all)
                for a, b in (("by  Jane", "by Jane"), ("a\tb", "a b"), (" x", "x"), ("two  blanks ", "two blanks")):
                    fam.append('FROM %s AS x WHERE x.getName() != "%s" SELECT x.getName(), "%s"' % (k1, a, a))
                    fam.append('FROM %s AS x WHERE x.getName() != "%s" SELECT x.getName(), "%s"' % (k1, b, b))
                fam.append('FROM %s AS x WHERE x.getName() in ["%s", "%s"] SELECT x.getName()' % (k1, v1, v2))
                fam.append('FROM %s AS x WHERE x.getName()  in  ["%s", "%s"] SELECT x.getName()' % (k1, v1, v2))
                fam.append('FROM %s AS x WHERE x.getName() in ["%s",  "%s"]   SELECT   x.getName()' % (k1, v1, v2))
                fam.append('FROM  %s  AS  x  WHERE  x.getName()\tin\t["%s", "%s"] SELECT x.getName()' % (k1, v1, v2))
                stats["whitespace_twin_queries"] += 11
                # joins over the same kinds: selective, then unrestricted, other aliases, other order
                small = [k for k in ("class_declaration", "method_declaration", "variable_declaration", "ClassInstanceExpr") if k in kinds and len(proj.by_kind.get(k, [])) <= 40]
                if len(small) >= 2:
                    ka, kb = rng.sample(small, 2)
                    va = rng.choice(proj.values.get((ka, "getName")) or ["x"])
                    vb = rng.choice(proj.values.get((kb, "getName")) or ["x"])
                    fam += ['FROM %s AS a, %s AS b WHERE a.getName() == "%s" SELECT a.getName(), b.getName()' % (ka, kb, va),
                            'FROM %s AS x, %s AS y SELECT x.getName(), y.getName()' % (ka, kb),
                            'FROM %s AS a, %s AS b WHERE b.getName() == "%s" && a.getName() != "%s" SELECT b.getName(), a.getName()' % (ka, kb, vb, va),
                            'FROM %s AS p, %s AS q SELECT p.getName(), q.getName()' % (ka, kb),
                            'FROM %s AS y, %s AS x SELECT x.getName(), y.getName()' % (kb, ka),
                            'FROM %s AS a, %s AS b WHERE a.getName() == b.getName() SELECT a.getName()' % (ka, kb),
                            'FROM %s AS x, %s AS y SELECT x.getName(), y.getName()' % (ka, kb)]
                rng.shuffle(fam)
                seq = fam + rng.sample(fam, min(6, len(fam)))
                # the same names for other kinds: a join binds two names, later queries bind each of these names to
                # the other kind and use what only that kind offers (valid ones and ones that cannot be evaluated)
                own = [k for k in small if len(QG.STRING_ACC.get(k, [])) > 2] if len(small) >= 2 else []
                if len(own) >= 2:
                    ka, kb = rng.sample(own, 2)
                    n1, n2 = rng.choice([("c", "m"), ("a", "b"), ("x", "y")])
                    only_a = [a for a in QG.STRING_ACC[ka] if a not in QG.STRING_ACC[kb]]
                    only_b = [a for a in QG.STRING_ACC[kb] if a not in QG.STRING_ACC[ka]]
                    swaps = []
                    for acc in only_a:
                        vs = proj.values.get((ka, acc)) or ["zz"]
                        swaps += ['FROM %s AS %s WHERE %s.%s() == "%s" SELECT %s.getName()' % (ka, n2, n2, acc, rng.choice(vs), n2),
                                  'FROM %s AS %s WHERE %s.%s() != "zz" SELECT %s.getName(), %s.%s()' % (ka, n2, n2, acc, n2, n2, acc),
                                  'FROM %s AS %s WHERE %s.%s() != "zz" SELECT %s.getName()' % (kb, n2, n2, acc, n2)]
                    for acc in only_b:
                        vs = proj.values.get((kb, acc)) or ["zz"]
                        swaps += ['FROM %s AS %s WHERE %s.%s() == "%s" SELECT %s.getName()' % (kb, n1, n1, acc, rng.choice(vs), n1),
                                  'FROM %s AS %s WHERE %s.%s() != "zz" SELECT %s.getName(), %s.%s()' % (kb, n1, n1, acc, n1, n1, acc),
                                  'FROM %s AS %s WHERE %s.%s() != "zz" SELECT %s.getName()' % (ka, n1, n1, acc, n1)]
                    joins = ['FROM %s AS %s, %s AS %s SELECT %s.getName(), %s.getName()' % (ka, n1, kb, n2, n1, n2),
                             'FROM %s AS %s, %s AS %s WHERE %s.getName() == %s.getName() SELECT %s.getName()' % (kb, n2, ka, n1, n1, n2, n1)]
                    rng.shuffle(swaps)
                    # queries that use a name they do not declare (they cannot be evaluated, alone): a name an earlier
                    # query declared must not make them answerable
                    undecl = ['FROM %s AS k WHERE %s.getName() != "zz" SELECT k.getName()' % (ka, n2),
                              'FROM %s AS k SELECT k.getName(), %s.getName()' % (kb, n1),
                              'FROM %s AS %s WHERE %s.getName() != "zz" SELECT %s.getName()' % (ka, n1, n2, n1)]
                    seq = seq + swaps[:3] + [rng.choice(joins)] + swaps + undecl + [rng.choice(joins)] + rng.sample(swaps, min(4, len(swaps))) + undecl[:2]
                    stats["alias_swap_sequences"] += 1
            if s == 0:
                # corpus first: every accessor-with-side-effect candidate followed by a full description of the same kind
                seq = list(DOCQ)
            # repetitions
            for _ in range(rng.randint(0, 4)):
                seq.insert(rng.randrange(len(seq) + 1), rng.choice(seq))
            hist = []
            for i, q in enumerate(seq):
                r = h.call(op="query", graph="loaded", q=q, output="json")
                oc = r.get("outcome")
                run.count(("seq", s, i, q[:200]))
                stats[oc] += 1
                if oc in ("panic", "died", "hang"):
                    run.violation("C16:abnormal-end", "query %d of a sequence ended abnormally (%s): %r" % (i, oc, q[:200]), dict(sequence=seq[:i + 1], panic=r.get("panic")))
                    if oc != "panic":
                        proj.rescan()
                        h.call(op="scan", dir=proj.dir, graph="loaded", nonodes=True)
                    continue
                got = (oc, canon(r.get("result", "")) if oc == "ok" else None)
                want = fresh_answer(q)
                if got != want:
                    run.violation("C16:history-dependent-answer",
                                  "after %d earlier queries the answer to %r differs from a stand-alone evaluation" % (i, q[:200]),
                                  dict(history=seq[:i], query=q, java=E.java_files(proj),
                                       standalone=str(want)[:600], in_sequence=str(got)[:600]))
                    break
                hist.append(q)
            if s < 2:
                run.sample(dict(sequence=seq[:4], length=len(seq)))
        # ---- one `ci` run evaluates all rules on one loaded graph: every entry is the answer to its own query, whatever the
        #      rules before it were (same id, same header, same predicate names, same aliases)
        for rs in range(2 if quick else 10):
            rdir = C.scratch("c16rules")
            try:
                qs = []
                while len(qs) < 5:
                    qq = gen_query().replace("\n", " ")
                    if h.call(op="parse", q=qq).get("outcome") == "ok" and "/*" not in qq:
                        qs.append(qq)
                ids = ["java/shared-id", "java/shared-id", "java/other", "", "java/shared-id"]
                rng.shuffle(ids)
                for j, (qq, rid) in enumerate(zip(qs, ids)):
                    hdr = ("/**\n * @id %s\n * @description rule %d\n * @problem.severity warning\n */\n" % (rid, j)) if rid else ""
                    open(os.path.join(rdir, "r%02d.cql" % j), "w").write(hdr + qq + "\n")
                out = os.path.join(rdir, "report.json")
                rc, so, se = C.cli(["ci", "--project", proj.dir, "--ruleset", rdir, "--output", "json", "--output-file", out, "--disable-metrics"], timeout=300)
                run.count(("ci-ruleset", rs, tuple(ids)))
                stats["ci_rulesets"] += 1
                try:
                    rep = json.load(open(out)) or []
                except Exception:
                    rep = None
                if rep is None or len(rep) != len(qs):
                    run.violation("C16:ci-report", "`ci` over %d rules (rc=%s) gives %s entries" % (len(qs), rc, None if rep is None else len(rep)), dict(rules=qs, ids=ids))
                    continue
                for j, (qq, entry) in enumerate(zip(qs, rep)):
                    want = fresh_answer(qq)
                    got = ("ok", canon(json.dumps(entry.get("result")))) if entry.get("result") is not None else ("diag", None)
                    if want[0] == "ok" and got != want:
                        run.violation("C16:ci-entry-differs", "in one `ci` run the entry of rule %d (id %r) is not the stand-alone answer to its query %r" % (j, ids[j], qq[:160]),
                                      dict(rules=qs, ids=ids, position=j, standalone=str(want)[:400], entry=str(got)[:400]))
                        break
            finally:
                shutil.rmtree(rdir, ignore_errors=True)
        # ---- console vs stand-alone CLI
        nsess = 2 if quick else 12
        for s in range(nsess):
            lines = [gen_query().replace("\n", " ") for _ in range(rng.randint(2, 6))]
            if s == 0:
                # always: a line that does not parse between lines that do, all of it in the pipe at once (a paste)
                ok1, ok2 = rng.choice(DOCQ[1::2]), rng.choice(DOCQ[1::2])
                lines = [ok1, "FROM method_declaration AS md WHERE SELECT md", ok2, "SELECT nothing", ok1]
            payload = "".join(l + "\n" for l in lines) + ":quit\n"
            args = ["query", "--project", proj.dir, "--stdin", "--output", "json", "--disable-metrics"]
            for mode in ("piped", "incremental"):
                env = dict(os.environ, HOME=os.path.join(C.BUILD, "home"))
                out, rc_console = C.run_console([os.path.join(C.BUILD, "pathfinder")] + args, payload.encode(), rng=rng,
                                                chunks=(None if mode == "piped" else [1, 2, 5, 40, 400]), timeout=180, env=env)
                if rc_console is None:
                    run.violation("C16:console-hang", "console session hangs (no end within 180 s)", dict(stdin=payload[:20000], mode=mode))
                    continue
                text = out.decode("utf-8", "replace").replace("\x1b[H\x1b[J", "")
                # split the transcript at the prompts
                parts = text.split("Path-Finder Query Console: \n>")[1:]
                answers = []
                for part in parts:
                    m = re.match(r"Executing query: (.*)\n", part)
                    if not m:
                        continue
                    body = part[m.end():]
                    js = [l for l in body.split("\n") if l.startswith("{")]
                    answers.append((m.group(1).strip(), canon(js[-1]) if js else ("diag", None)))
                stats["console_sessions"] += 1
                run.count(("console", mode, payload[:300]))
                if len(answers) != len(lines):
                    run.violation("C16:console-lines-unanswered", "console answered %d of %d lines (%s stdin)" % (len(answers), len(lines), mode),
                                  dict(stdin=payload, mode=mode, tail=text[-600:]))
                    continue
                for (qtext, ans), line in zip(answers, lines):
                    want = fresh_answer(line)
                    w = want[1] if want[0] == "ok" else ("diag", None)
                    if qtext != line.strip() or ans != w:
                        run.violation("C16:console-answer-differs", "console answer to %r differs from a stand-alone run (%s stdin)" % (line[:200], mode),
                                      dict(stdin=payload, mode=mode, line=line, console=str(ans)[:500], standalone=str(w)[:500]))
                        break
                mt = [x.rstrip("\n") for x in d.call("console", payload) if x != ""]
                if mt != lines:
                    run.broken_obligation("correspondence:console", "console model transcript differs: %r vs %r" % (mt[:3], lines[:3]))
    finally:
        proj.close()
        h.close()
        d.close()
    run.extra["histogram"] = dict(stats)
