/-
  Data types for the tables that `tools/factgen` regenerates from /repo on every run.
  (Core Lean only.)
-/
namespace Cpf.Facts

/-- One piece of the pre-image (the string that is hashed) of an entity identity. -/
inductive IdAtom where
  | lit (s : String)            -- a literal piece of text
  | row                         -- decimal 1-based start row of the syntax node
  | col                         -- decimal 1-based start column of the syntax node
  | file                        -- the path of the file being scanned
  | content                     -- the source text of the syntax node
  | opaque (name : String)      -- a value computed by loops the extractor does not follow (name, …)
  | opaqueList (name : String)  -- a `[]string` computed by loops, printed by `%s` as `[a b c]`
  | strList (items : List (List IdAtom))  -- a literal `[]string{…}`
  deriving Repr

/-- A `&Node{…}` literal inside `buildGraphFromAST`. -/
structure NodeLit where
  tsTypes : List String      -- tree-sitter node types (outer `case` labels) that reach the literal
  ops     : List String      -- operator `case` labels (binary expressions) or `[]`
  kind    : String           -- `Type: "…"`
  fields  : List String      -- struct keys set by the literal
  idFmt   : List IdAtom      -- pre-image of `ID:`
  line    : String           -- source of the `LineNumber:` expression (locals inlined, whitespace-normalised)
  snippet : String           -- source of the `CodeSnippet:` expression
  file    : String           -- source of the `File:` expression
  guard   : String           -- `if` condition around the literal ("" when unconditional)
  added   : Bool             -- the literal is passed to `graph.AddNode` in the same clause
  wiring  : List (String × String) := []   -- attribute field ↦ the expression it is set from (as written)
  deriving Repr

/-- Implementation of an accessor in `generateProxyEnv`'s table. -/
inductive AccImpl where
  | method (name : String)   -- `proxyenv.<name>` (a method of `Env`)
  | lit (value : String)     -- a string constant
  deriving Repr, DecidableEq

end Cpf.Facts
