"""C14 — a query's meaning depends only on its token sequence (layout-insensitive).

Proof: Cpf.Props.C14 (the model's pipeline factors through the lexer's token list).
Correspondence: (1) the model's lexer vs ANTLR's on random layouts and random character strings;
(2) engine_case on the base layout.  Oracle: every re-layout of a query (random white space at every
token boundary outside string literals) must be valid iff the base is and give the same result multiset
on the real engine."""
import collections, json, os, random, shutil
from vlib import common as C, engine as E, querygen as QG, genquery as GQ
from checks import c01

LEAN_MODULES = ["Cpf.Props.C14", "Cpf.Lemmas.LexLayout", "Cpf.Lemmas.LexLayoutQ"]


def run(run):
    C.build_driver()
    h, d = C.Harness(), C.Driver()
    rng = run.rng
    quick = run.depth == "quick"
    nproj = 2 if quick else 6
    nq = 80 if quick else 600
    nlay = 4 if quick else 10
    mism, lexmism, stats = [], [], collections.Counter()
    tmpdir = C.scratch("c14")

    def lex_pair(text):
        rr = h.call(op="lex", q=text)
        mm = d.call("lex", text)
        if rr.get("outcome") != "ok":
            return
        real = [x for kt in rr["tokens"] for x in kt]
        rerr = rr["errors"]
        merr = int(mm[0])
        model = mm[1:] if len(mm) > 1 else []
        stats["lex_cases"] += 1
        if (rerr > 0) != (merr > 0):
            lexmism.append(dict(text=text, real_errors=rerr, model_errors=merr))
        elif rerr == 0 and real != model:
            lexmism.append(dict(text=text, real=real[:20], model=model[:20]))
    outside = []
    long_done = collections.Counter()
    try:
        # (1) lexer correspondence on arbitrary strings
        alphabet = list(" \t\n\r\"\\'()[]{}.,=!<>|&+-*/%abzAZ_09") + ["in", " in ", "LIKE", "predicate", "FROM", "SELECT", "é", "\u2028"]
        for i in range(300 if quick else 5000):
            s = "".join(rng.choice(alphabet) for _ in range(rng.randint(0, 25)))
            lex_pair(s)
            run.count(("lexstr", s))
        for pi in range(nproj):
            proj = E.small_project(rng, h, nfiles=2)
            try:
                kinds = [k for k in QG.KINDS_DEFAULT if proj.by_kind.get(k)]
                ENTITY_LIKE = ["lt", "notX", "amp", "copyOf", "regexLike", "gt", "quot", "ampere"]
                for i in range(nq // nproj):
                    q = QG.random_query(rng, kinds=kinds, values=proj.values, depth=3)
                    if i < 3:
                        # always: an alias spelled like the beginning of an HTML entity name, right behind `&&` in the tight text
                        ka = rng.choice([k for k in kinds if k in QG.STRING_ACC] or kinds)
                        al = ENTITY_LIKE[(pi * 3 + i) % len(ENTITY_LIKE)]
                        at = [QG.accessor_atom(rng, al, ka, proj.values) for _ in range(3)]
                        # … and arithmetic whose operator follows a closing parenthesis and touches its number in the tight
                        # text: `(3)-1==2`, `2*(4+1)-3>=7`
                        S, N = QG.sym, QG.num
                        at[2] = [("atom", (S("("), N(3), S(")"), S("-"), N(1), S("=="), N(2))),
                                 ("atom", (N(2), S("*"), S("("), N(4), S("+"), N(1), S(")"), S("-"), N(3), S(">="), N(7))),
                                 ("atom", (S("("), N(9), S(")"), S("-"), N(4), S("!="), S("("), N(2), S(")"), S("+"), N(3)))][i]
                        q = c01.make_query([(ka, al)], QG.mk("and", at[0], QG.mk("or", at[1], at[2])), al)
                    base_text = QG.plain(q)
                    base = E.engine_case(proj, d, base_text, q)
                    c01.judge(run, "C14", proj, base_text, q, base, stats, mism)
                    run.count(("base", tuple(q.lexemes)))
                    if base["real"] is None:
                        continue
                    want = collections.Counter(base["real"])
                    has_in = "' in '" in q.kinds
                    # the tight text: every layout tested below is this text with white space added between its tokens,
                    # i.e. an instance of the relation C14_lex_layout is proved for (decided by the model's relayoutB)
                    tight = GQ.tight_layout(q.lexemes, q.kinds)
                    rel = d.call("relayout", tight, base_text)[0]
                    stats["relayout_relation:" + rel] += 1
                    if rel != "true":
                        outside.append(dict(tight=tight, layout=base_text))
                    for j in range(nlay + 3):
                        # (the last three: one token per line, flush left; the same with blank lines between the tokens; the
                        #  tight text itself: no white space where none is needed)
                        text = (GQ.layout(q.lexemes, q.kinds, rng, aggressive=True) if j < nlay else
                                GQ.column_layout(q.lexemes, q.kinds) if j == nlay else
                                GQ.paragraph_layout(q.lexemes, q.kinds, rng) if j == nlay + 1 else tight)
                        lex_pair(text)
                        rel = d.call("relayout", tight, text)[0]
                        stats["relayout_relation:" + rel] += 1
                        if rel != "true":
                            outside.append(dict(tight=tight, layout=text))
                        rr = h.call(op="query", graph=proj.name, q=text, output="json")
                        run.count(("layout", text))
                        stats["layouts"] += 1
                        ok = rr.get("outcome") == "ok"
                        got = None
                        if ok:
                            try:
                                js = json.loads(rr["result"])
                                got = collections.Counter((e["file"], e["line"], e["code"]) for e in js["result_set"])
                            except Exception:
                                ok = False
                        if not ok:
                            run.violation("C14:relayout-invalid", "re-layout turns a valid query invalid (%s): %r (base %r)" % (rr.get("outcome"), text, base_text),
                                          dict(base=base_text, layout=text, err=rr.get("err") or rr.get("panic")))
                            if rr.get("outcome") == "died":
                                proj.rescan()
                            continue
                        wantc = collections.Counter()
                        for t in base["real"]:
                            for i_ in t:
                                n = proj.by_id[i_]
                                wantc[(n["file"], n["line"], n["snippet"])] += 1
                        if got != wantc:
                            run.violation("C14:relayout-changes-results", "re-layout changes the results: %r vs %r" % (base_text, text),
                                          dict(base=base_text, layout=text, base_results=sum(wantc.values()), layout_results=sum(got.values()), java=E.java_files(proj)))
                        if j == 0 and i < 2:
                            run.sample(dict(base=base_text, layout=text, results=sum(wantc.values())))
                        # the same re-layout as the body of a rule file: both rule-file readers flatten it line by line
                        # (a literal that spans lines is changed by both readers: the recorded finding of C18, not a layout question)
                        if "\n" in text and (j < 2 or j >= nlay) and not any("\n" in lx or "\r" in lx for lx in q.lexemes):
                            for path in ("ci-reader", "file-reader"):
                                if path == "ci-reader":
                                    er = h.call(op="rule", text=text)
                                    extracted = (er.get("rule") or {}).get("query")
                                else:
                                    fp = os.path.join(tmpdir, "r.cql")
                                    open(fp, "w", encoding="utf-8", newline="").write(text)
                                    er = h.call(op="extract", path=fp)
                                    extracted = er.get("query")
                                stats["rule_file_layouts"] += 1
                                # what a reader hands to the parser (the lines joined by blanks, C18_joined_lines) is again
                                # a re-layout of the tight text: an instance of the relation C14_lex_layout is proved for
                                if extracted is not None:
                                    rel2 = d.call("relayout", tight, extracted)[0]
                                    stats["reader_output_relation:" + rel2] += 1
                                    if rel2 != "true":
                                        outside.append(dict(tight=tight, layout=extracted, reader=path))
                                r2 = h.call(op="query", graph=proj.name, q=extracted or "", output="json") if extracted is not None else dict(outcome="no-query")
                                got2 = None
                                if r2.get("outcome") == "ok":
                                    try:
                                        got2 = collections.Counter((e["file"], e["line"], e["code"]) for e in json.loads(r2["result"])["result_set"])
                                    except Exception:
                                        pass
                                if got2 is None:
                                    run.violation("C14:rulefile-relayout-invalid", "a re-wrapped rule body read by the %s is no longer a valid query: %r" % (path, text),
                                                  dict(base=base_text, layout=text, extracted=extracted, err=r2.get("err") or r2.get("panic")))
                                elif got2 != wantc:
                                    run.violation("C14:rulefile-relayout-changes-results", "a re-wrapped rule body read by the %s gives other results: %r" % (path, text),
                                                  dict(base=base_text, layout=text, extracted=extracted, base_results=sum(wantc.values()), layout_results=sum(got2.values())))
                    # very long physical lines (a whole query joined onto one line): same tokens, same results. The
                    # 12 shifted variants move every byte offset across token interiors; one variant exceeds 64 KiB.
                    if long_done[pi] < 2 and i >= 3 and q.cond is not None and len(q.from_items) == 1 and not any("\n" in lx or "\r" in lx for lx in q.lexemes):
                        long_done[pi] += 1
                        k0, a0 = q.from_items[0]
                        for nconj, shifts in ((330, range(12)), (4800, (0,))):
                            v = QG.clone(q)
                            v.cond = ("paren", q.cond)
                            QG.flatten(v)
                            si = v.kinds.index("'SELECT'") if "'SELECT'" in v.kinds else v.kinds.index("SELECT")
                            padtext = " ".join('&& %s . getName ( ) != "zq%05d"' % (a0, j) for j in range(nconj))
                            one_line = GQ.render_kinds(v.kinds[:si], v.lexemes[:si]) + " " + padtext + " " + GQ.render_kinds(v.kinds[si:], v.lexemes[si:])
                            for sh in shifts:
                                text1 = " " * sh + one_line + "\n"
                                for path in ("ci-reader", "file-reader"):
                                    if path == "ci-reader":
                                        extracted = (h.call(op="rule", text=text1).get("rule") or {}).get("query")
                                    else:
                                        fp = os.path.join(tmpdir, "long.cql")
                                        open(fp, "w", encoding="utf-8", newline="").write(text1)
                                        er = h.call(op="extract", path=fp)
                                        extracted = er.get("query") if er.get("outcome") == "ok" else None
                                    stats["long_line_cases"] += 1
                                    run.count(("long-line", path, nconj, sh, i, pi))
                                    r2 = h.call(op="query", graph=proj.name, q=extracted, output="json", timeout=300) if extracted is not None else dict(outcome="not-extracted", err=str(er.get("err")) if path != "ci-reader" else "")
                                    got2 = None
                                    if r2.get("outcome") == "ok":
                                        try:
                                            got2 = collections.Counter((e["file"], e["line"], e["code"]) for e in json.loads(r2["result"])["result_set"])
                                        except Exception:
                                            pass
                                    if got2 is None:
                                        run.violation("C14:long-line-invalid", "the query written on one line of %d bytes is not read as a valid query by the %s (%s), wrapped it is" % (len(text1), path, r2.get("err") or r2.get("outcome")),
                                                      dict(base=base_text, line_bytes=len(text1), path=path, err=r2.get("err"), conjuncts_appended=nconj, leading_blanks=sh))
                                    elif got2 != wantc:
                                        run.violation("C14:long-line-changes-results", "the query written on one line of %d bytes gives other results through the %s" % (len(text1), path),
                                                      dict(base=base_text, line_bytes=len(text1), path=path, conjuncts_appended=nconj, leading_blanks=sh))
                    # the recorded exception: white space next to the ' in ' token
                    if has_in:
                        k = q.kinds.index("' in '")
                        for ws in ["  in ", " in  ", "\tin ", " in\n", "\nin\n"]:
                            lex2 = list(q.lexemes)
                            lex2[k] = ws
                            text = GQ.render_kinds(q.kinds, lex2)
                            rr = h.call(op="query", graph=proj.name, q=text, output="json")
                            stats["in_ws_variants"] += 1
                            same = False
                            if rr.get("outcome") == "ok":
                                try:
                                    js = json.loads(rr["result"])
                                    same = len(js["result_set"]) == sum(len(t) for t in base["real"])
                                except Exception:
                                    pass
                            if not same:
                                run.violation("C14:in-whitespace", "white space other than single blanks around `in` changes the query: %r" % text,
                                              dict(base=base_text, layout=text, outcome=rr.get("outcome"), err=rr.get("err")))
            finally:
                proj.close()
    finally:
        h.close()
        d.close()
        shutil.rmtree(tmpdir, ignore_errors=True)
    run.extra["histogram"] = dict(stats)
    if mism:
        run.broken_obligation("correspondence:engine", "model vs implementation: %s" % json.dumps(mism[:3])[:1200])
    if lexmism:
        run.broken_obligation("correspondence:lexer", "Lean lexer model and ANTLR lexer disagree on %d inputs, e.g. %s" % (len(lexmism), json.dumps(lexmism[:3])[:1200]))
    if outside:
        run.broken_obligation("correspondence:relayout-relation", "%d tested layout(s) are not instances of the relation C14_lex_layout is proved for (relayoutB says no), e.g. %s" %
                              (len(outside), json.dumps(outside[:2])[:1200]))
