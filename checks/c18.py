"""C18 — a rule file means the same query and metadata on every path.

Proof: Cpf.Props.C18 (string-level theorems about the two readers: the query part is the query's lines joined by
blanks; header keys map to the metadata fields; both readers agree modulo trailing CRs).
Correspondence: the Lean models of cmd.ParseQuery (ci) and ExtractQueryFromFile vs the real functions, text for text.
Oracle: for generated rule files (any field order/subset, single-line values with punctuation, LF/CRLF, wrapping at
arbitrary token boundaries, indentation, 0..3 predicates) the metadata equals the header's values and the token
sequence of the extracted query on every path (ci reader, file reader) equals the tokens of the query as
written; end to end, `ci`, `scan` and `query --query-file` report what `query --query` reports."""
import collections, json, os, random, shutil
from vlib import common as C, engine as E, querygen as QG, genquery as GQ, genrules as GR

LEAN_MODULES = ["Cpf.Props.C18"]


def run(run):
    C.build_driver()
    h, d = C.Harness(), C.Driver()
    rng = run.rng
    quick = run.depth == "quick"
    stats = collections.Counter()
    mism = []
    proj = E.small_project(rng, h, nfiles=1)
    tmp = C.scratch("c18")
    try:
        kinds = [k for k in QG.KINDS_DEFAULT if proj.by_kind.get(k)]
        for i in range(60 if quick else 1500):
            q = QG.random_query(rng, kinds=kinds, values=proj.values, depth=2, n_preds=rng.choice([0, 0, 1, 2, 3]), n_entities=1)
            text, meta = GR.rule_file(rng, q)
            path = os.path.join(tmp, "r%d.cql" % i)
            open(path, "wb").write(text.encode("utf-8"))
            run.count(("rule", text))
            want_tokens = [[k, t] for k, t in zip(q.kinds, q.lexemes)]
            rr = h.call(op="rule", text=text)
            ex = h.call(op="extract", path=path)
            mr = d.call("rulefile", text)
            me = d.call("extract", text)
            if rr.get("outcome") != "ok" or ex.get("outcome") != "ok":
                run.violation("C18:reader-failed", "a rule-file reader ends with %s / %s" % (rr.get("outcome"), ex.get("outcome")), dict(rule_file=text))
                continue
            ru = rr["rule"]
            real_meta = dict(id=ru["id"], description=ru["description"], severity=ru["severity"], impact=ru["impact"], provider=ru["provider"])
            model_meta = dict(zip(["id", "description", "severity", "impact", "provider", "query"], mr))
            for k in real_meta:
                if model_meta.get(k) != real_meta[k]:
                    mism.append(dict(field=k, model=model_meta.get(k), real=real_meta[k], file=text[:300]))
            if model_meta.get("query") != ru["query"]:
                mism.append(dict(field="ci-query", model=model_meta.get("query"), real=ru["query"]))
            if me[0] != ex["query"]:
                mism.append(dict(field="file-query", model=me[0], real=ex["query"]))
            # oracle: metadata
            for k in ("id", "description", "severity", "impact", "provider"):
                if real_meta[k] != meta.get(k, ""):
                    run.violation("C18:metadata:" + k, "header value of %s is %r but the ci reader extracted %r" % (k, meta.get(k, ""), real_meta[k]),
                                  dict(rule_file=text, field=k))
            # oracle: token sequences on both paths
            for name, qtext in (("ci", ru["query"]), ("query-file/scan", ex["query"])):
                lx = h.call(op="lex", q=qtext)
                got_tokens = lx.get("tokens") or []
                if not lx.get("errors") and got_tokens != want_tokens and len(got_tokens) == len(want_tokens) and \
                        all(a == b or (b[0] == "STRING" and ("\n" in b[1] or "\r" in b[1]) and a[0] == "STRING") for a, b in zip(got_tokens, want_tokens)):
                    # the only tokens that differ are string literals that span lines: the recorded finding
                    run.violation("C18:newline-in-string-literal", "a string literal that spans lines is changed by the %s reader (line break -> blank)" % name,
                                  dict(rule_file=text, extracted=qtext, path=name))
                elif lx.get("errors") or got_tokens != want_tokens:
                    run.violation("C18:token-sequence:" + name, "the query extracted by the %s path is not the token sequence written in the file" % name,
                                  dict(rule_file=text, extracted=qtext, path=name, first_difference=next(((a, b) for a, b in zip(lx.get("tokens", []), want_tokens) if a != b), None)))
            if i < 2:
                run.sample(dict(rule_file=text, metadata=meta))
        # a whole query on one very long physical line (two sizes: > 4 KiB in 12 byte-shifted variants, > 64 KiB once)
        for nconj, shifts in ((330, range(12)), (4800, (0,))):
            q = QG.random_query(rng, kinds=kinds, values=proj.values, depth=1, n_preds=0, n_entities=1, where=True)
            while any("\n" in lx or "\r" in lx for lx in q.lexemes):
                # one physical line is the point here: no literal that spans lines (the recorded finding, checked below)
                q = QG.random_query(rng, kinds=kinds, values=proj.values, depth=1, n_preds=0, n_entities=1, where=True)
            if q.cond is None:
                continue
            a0 = q.from_items[0][1]
            si = q.kinds.index("'SELECT'") if "'SELECT'" in q.kinds else q.kinds.index("SELECT")
            pad_l, pad_k = [], []
            for j in range(nconj):
                pad_l += ["&&", a0, ".", "getName", "(", ")", "!=", '"zq%05d"' % j]
                pad_k += ["'&&'", "IDENTIFIER", "'.'", "IDENTIFIER", "'('", "')'", "'!='", "STRING"]
            wi = q.kinds.index("'WHERE'") if "'WHERE'" in q.kinds else q.kinds.index("WHERE")
            lex = q.lexemes[:wi + 1] + ["("] + q.lexemes[wi + 1:si] + [")"] + pad_l + q.lexemes[si:]
            knd = q.kinds[:wi + 1] + ["'('"] + q.kinds[wi + 1:si] + ["')'"] + pad_k + q.kinds[si:]
            line = GQ.render_kinds(knd, lex)
            want_tokens = [[k, t] for k, t in zip(knd, lex)]
            for sh in shifts:
                text = "/**\n * @id long/line\n */\n" + " " * sh + line + "\n"
                path = os.path.join(tmp, "long.cql")
                open(path, "wb").write(text.encode("utf-8"))
                run.count(("long-line", nconj, sh))
                stats["long_line_files"] += 1
                rr = h.call(op="rule", text=text)
                ex = h.call(op="extract", path=path)
                for name, r_, qtext in (("ci", rr, (rr.get("rule") or {}).get("query")), ("query-file/scan", ex, ex.get("query"))):
                    if r_.get("outcome") != "ok" or qtext is None:
                        run.violation("C18:token-sequence:" + name, "the %s path cannot read a query written on one line of %d bytes: %s" % (name, len(line) + sh, r_.get("err") or r_.get("outcome")),
                                      dict(line_bytes=len(line) + sh, path=name, header="@id long/line", query_head=line[:300]))
                        continue
                    lx = h.call(op="lex", q=qtext)
                    if lx.get("errors") or lx.get("tokens") != want_tokens:
                        run.violation("C18:token-sequence:" + name, "the query extracted by the %s path from one line of %d bytes is not the token sequence written in the file" % (name, len(line) + sh),
                                      dict(line_bytes=len(line) + sh, path=name, query_head=line[:300],
                                           first_difference=next(((a, b) for a, b in zip(lx.get("tokens", []), want_tokens) if a != b), None)))
            # the same query wrapped over thousands of lines, the file larger than any read buffer (> 64 KiB, > 128 KiB)
            if nconj >= 4000:
                for ncut in (2600, nconj):
                    h0 = len(q.lexemes[:wi + 1]) + 1 + len(q.lexemes[wi + 1:si]) + 1
                    lex2 = lex[:h0] + lex[h0:h0 + 8 * ncut] + q.lexemes[si:]
                    knd2 = knd[:h0] + knd[h0:h0 + 8 * ncut] + q.kinds[si:]
                    parts = [GQ.render_kinds(knd2[:h0], lex2[:h0])] + [GQ.render_kinds(knd2[h0 + 8 * j:h0 + 8 * j + 8], lex2[h0 + 8 * j:h0 + 8 * j + 8]) for j in range(ncut)] + \
                            [GQ.render_kinds(knd2[h0 + 8 * ncut:], lex2[h0 + 8 * ncut:])]
                    for eol in ("\n", "\r\n"):
                        text = "/**\n * @id long/wrapped\n */\n" + (eol + "    ").join(parts) + eol
                        path = os.path.join(tmp, "wrapped.cql")
                        open(path, "wb").write(text.encode("utf-8"))
                        run.count(("wrapped-file", ncut, eol))
                        stats["wrapped_large_files"] += 1
                        want2 = [[k, t] for k, t in zip(knd2, lex2)]
                        rr = h.call(op="rule", text=text)
                        ex = h.call(op="extract", path=path)
                        for name, r_, qtext in (("ci", rr, (rr.get("rule") or {}).get("query")), ("query-file/scan", ex, ex.get("query"))):
                            lx = h.call(op="lex", q=qtext) if (r_.get("outcome") == "ok" and qtext is not None) else {}
                            if lx.get("errors") or lx.get("tokens") != want2:
                                run.violation("C18:token-sequence:" + name, "the query extracted by the %s path from a rule file of %d bytes (%d lines) is not the token sequence written in the file" % (name, len(text), ncut + 5),
                                              dict(file_bytes=len(text), lines=ncut + 5, path=name, eol=repr(eol), file_head=text[:300], extracted_head=(qtext or "")[:200],
                                                   first_difference=next(((a, b) for a, b in zip(lx.get("tokens", []), want2) if a != b), None)))
        # the excluded point: a string literal that spans lines (as in the shipped BlowfishUsage.cql)
        mls = ['/**\n * @id java/ml\n */\nFROM method_declaration AS md\nSELECT md.getName(), "first line\n    second  line"\n',
               '/**\n * @id java/ml2\n */\nFROM method_declaration AS md\nSELECT md.getName(), "first line\n\n    third  line"\n',
               '/**\n * @id java/ml3\n */\nFROM method_declaration AS md\nWHERE md.getName() != "a\n   \t \nb"\nSELECT md.getName(), "x\n\n\ny"\n']
        for ml in mls:
            for eol in ("\n", "\r\n"):
                t = ml.replace("\n", eol)
                p = os.path.join(tmp, "ml.cql")
                open(p, "wb").write(t.encode())
                a = h.call(op="rule", text=t)["rule"]["query"]
                b = h.call(op="extract", path=p)["query"]
                la, lb = h.call(op="lex", q=a)["tokens"], h.call(op="lex", q=b)["tokens"]
                want = h.call(op="lex", q=t[t.index("FROM"):])["tokens"]
                run.count(("multi-line-literal", ml, eol))
                stats["multi_line_literal_files"] += 1
                # the recorded finding is that a line break inside a literal becomes a blank (and that ci keeps the carriage
                # return of a CR LF); apart from that the two readers read the same thing, empty lines included
                nocr = lambda toks: [[k, x.replace("\r", "")] for k, x in toks]
                if nocr(la) != nocr(lb):
                    run.violation("C18:readers-disagree-on-literal", "a string literal that spans lines (one of them empty or blank) is read differently by `ci` and by the file reader, apart from the carriage return",
                                  dict(rule_file=t, ci=a, file_reader=b))
                elif la != want or lb != want or la != lb:
                    run.violation("C18:newline-in-string-literal", "a string literal that spans lines is changed by the readers (line break -> blank%s)" %
                                  ("; the two readers disagree on the carriage return" if la != lb else ""),
                                  dict(rule_file=t, ci=a, file_reader=b))
        # end to end on a few files: ci / scan / --query-file vs --query
        together = []       # (text, metadata, query, results of `query --query`) of every file, for one ruleset of them all
        heads = []
        for i in range(3 if quick else 25):
            q = QG.random_query(rng, kinds=kinds, values=proj.values, depth=1, n_preds=rng.choice([0, 1]), n_entities=1)
            while any("\n" in lx or "\r" in lx for lx in q.lexemes):
                # a literal that spans lines is the recorded finding (checked above, token by token); end to end
                # it would only show up again as a changed SELECT value
                q = QG.random_query(rng, kinds=kinds, values=proj.values, depth=1, n_preds=rng.choice([0, 1]), n_entities=1)
            # every other file carries the header of the one before it, copied as it is: only the query differs
            rf = GR.rule_file(rng, q, head=heads[-1] if heads and i % 2 == 1 else None)
            heads.append(rf.head)
            text, meta = rf
            rdir = os.path.join(tmp, "rs%d" % i)
            os.makedirs(rdir)
            open(os.path.join(rdir, "r.cql"), "wb").write(text.encode("utf-8"))
            rc, so, se = C.cli(["query", "--project", proj.dir, "--query", QG.plain(q), "--output", "json", "--disable-metrics"])
            base = E_canon(last_json(so))
            rc, so, se = C.cli(["query", "--project", proj.dir, "--query-file", os.path.join(rdir, "r.cql"), "--output", "json", "--disable-metrics"])
            qf = E_canon(last_json(so))
            rc, so, se = C.cli(["scan", "--project", proj.dir, "--ruleset", rdir, "--disable-metrics"])
            sc = E_canon(last_json(so))
            out = os.path.join(tmp, "ci%d.json" % i)
            C.cli(["ci", "--project", proj.dir, "--ruleset", rdir, "--output", "json", "--output-file", out, "--disable-metrics"])
            try:
                cj = json.load(open(out))
                ci = E_canon(json.dumps(cj[0]["result"])) if cj else None
            except Exception:
                ci = None
            run.count(("e2e", text))
            stats["e2e"] += 1
            for name, got in (("query --query-file", qf), ("scan", sc), ("ci", ci)):
                if got != base:
                    run.violation("C18:path-result:" + name, "`%s` on the rule file reports other results than `query --query` with the same query" % name,
                                  dict(rule_file=text, query=QG.plain(q), path=name))
            together.append((text, meta, q, base))
        # the same files as one ruleset (some share a header word for word, and a file without header fields may
        # occur more than once): every file still means its own query and its own metadata
        for rnd in range(1 if quick else 3):
            rdir = os.path.join(tmp, "all%d" % rnd)
            os.makedirs(rdir)
            pick = together if rnd == 0 else rng.sample(together, min(len(together), rng.randint(2, 6)))
            for j, (text, meta, q, base) in enumerate(pick):
                open(os.path.join(rdir, "r%03d.cql" % j), "wb").write(text.encode("utf-8"))
            out = os.path.join(tmp, "ciall%d.json" % rnd)
            C.cli(["ci", "--project", proj.dir, "--ruleset", rdir, "--output", "json", "--output-file", out, "--disable-metrics"])
            try:
                cj = json.load(open(out)) or []
            except Exception:
                cj = []
            stats["e2e_rulesets"] += 1
            run.count(("e2e-ruleset", rnd, len(pick)))
            if len(cj) != len(pick):
                run.violation("C18:ruleset-entries", "`ci` over %d rule files reports %d entries: some file's query was not extracted and reported" % (len(pick), len(cj)),
                              dict(rules={"r%03d.cql" % j: t[0] for j, t in enumerate(pick)}, entries=[e.get("query") for e in cj]))
                continue
            for j, ((text, meta, q, base), entry) in enumerate(zip(pick, cj)):
                etoks = h.call(op="lex", q=entry.get("query") or "").get("tokens")
                wtoks = h.call(op="lex", q=QG.plain(q)).get("tokens")
                if etoks != wtoks:
                    run.violation("C18:ruleset-entry-query", "in a ruleset of %d files, the query `ci` extracted for file %d is not the token sequence written in it" % (len(pick), j),
                                  dict(rule_file=text, query=QG.plain(q), entry_query=entry.get("query")))
                    continue
                ru = entry.get("rule", {})
                got_meta = dict(id=ru.get("id"), description=ru.get("description"), severity=ru.get("severity"), impact=ru.get("impact"), provider=ru.get("rule_provider"))
                want_meta = {k: meta.get(k, "") for k in got_meta}
                got = E_canon(json.dumps(entry.get("result"))) if entry.get("result") is not None else None
                if got != base or got_meta != want_meta:
                    run.violation("C18:ruleset-entry", "in a ruleset of %d files, the entry of file %d carries %s than the file says" %
                                  (len(pick), j, "other results" if got != base else "other metadata"),
                                  dict(rule_file=text, query=QG.plain(q), entry_query=entry.get("query"), got_meta=got_meta, want_meta=want_meta))
    finally:
        proj.close()
        shutil.rmtree(tmp, ignore_errors=True)
        h.close()
        d.close()
    run.extra["histogram"] = dict(stats)
    if mism:
        run.broken_obligation("correspondence:rule-readers", "Lean models of the rule-file readers and the implementation disagree: %s" % json.dumps(mism[:3])[:1500])


def last_json(stdout):
    txt = stdout.decode("utf-8", "replace").replace("\x1b[H\x1b[J", "")
    for line in reversed(txt.split("\n")):
        if line.strip().startswith("{"):
            return line.strip()
    return None


def E_canon(raw):
    if raw is None:
        return None
    import re
    raw = re.sub(r"0x[0-9a-f]{6,}", "0xPTR", raw)      # %+v of Javadoc tags prints pointer values
    try:
        js = json.loads(raw)
    except Exception:
        return None
    if js is None:
        return None
    rs, rows = js.get("result_set") or [], js.get("output") or []
    return tuple(sorted(json.dumps([e, rows[i] if len(rows) == len(rs) else None], sort_keys=True) for i, e in enumerate(rs)))
