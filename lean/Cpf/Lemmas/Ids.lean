/-
  Decimal renderings are digit-only, `_` is not a digit, and the statement identity format
  `<prefix><row>_<col>_<file>` parses back uniquely.
-/
import Cpf.Scan.Build

namespace Cpf.Scan

def IsDigitB (b : UInt8) : Prop := 48 ≤ b.toNat ∧ b.toNat ≤ 57

theorem digit_bounds (c : Char) (h : c.isDigit = true) : 48 ≤ c.toNat ∧ c.toNat ≤ 57 := by
  simp only [Char.isDigit, Bool.and_eq_true, decide_eq_true_eq] at h
  obtain ⟨h1, h2⟩ := h
  exact ⟨UInt32.le_iff_toNat_le.1 h1, UInt32.le_iff_toNat_le.1 h2⟩

theorem byte_of_digit (c : Char) (h : c.toNat ≤ 57) : (UInt8.ofNat c.toNat).toNat = c.toNat := by
  rw [UInt8.toNat_ofNat']
  omega

theorem decB_digits (n : Nat) : ∀ b ∈ decB n, IsDigitB b := by
  intro b hb
  simp only [decB, List.mem_map] at hb
  obtain ⟨c, hc, rfl⟩ := hb
  have hd := digit_bounds c (Nat.isDigit_of_mem_toDigits (b := 10) (by decide) (by decide) hc)
  unfold IsDigitB
  rw [byte_of_digit c hd.2]
  exact hd

theorem decB_ne_nil (n : Nat) : decB n ≠ [] := by
  simp [decB, Nat.toDigits_ne_nil]

theorem map_digit_injective : ∀ (l₁ l₂ : List Char), (∀ c ∈ l₁, c.isDigit = true) → (∀ c ∈ l₂, c.isDigit = true) →
    l₁.map (fun c => UInt8.ofNat c.toNat) = l₂.map (fun c => UInt8.ofNat c.toNat) → l₁ = l₂ := by
  intro l₁
  induction l₁ with
  | nil => intro l₂ _ _ h; cases l₂ with
    | nil => rfl
    | cons y ys => simp at h
  | cons x xs ih =>
      intro l₂ h1 h2 h
      cases l₂ with
      | nil => simp at h
      | cons y ys =>
          simp only [List.map_cons, List.cons.injEq] at h
          have hx := digit_bounds x (h1 x (by simp))
          have hy := digit_bounds y (h2 y (by simp))
          have e := congrArg UInt8.toNat h.1
          rw [byte_of_digit x hx.2, byte_of_digit y hy.2] at e
          have hxy : x = y := Char.ext (UInt32.toNat_inj.1 e)
          subst hxy
          rw [ih ys (fun c hc => h1 c (by simp [hc])) (fun c hc => h2 c (by simp [hc])) h.2]

theorem decB_injective {a b : Nat} (h : decB a = decB b) : a = b := by
  unfold decB at h
  have := map_digit_injective _ _ (fun c hc => Nat.isDigit_of_mem_toDigits (by decide) (by decide) hc)
    (fun c hc => Nat.isDigit_of_mem_toDigits (by decide) (by decide) hc) h
  have ha := Nat.ofDigitChars_ten_toDigits (n := a)
  have hb := Nat.ofDigitChars_ten_toDigits (n := b)
  rw [this] at ha
  omega

/-- a digit run followed by `_` determines the run and the rest -/
theorem digits_sep_unique : ∀ (a a' x x' : Bytes), (∀ b ∈ a, IsDigitB b) → (∀ b ∈ a', IsDigitB b) →
    a ++ (95 : UInt8) :: x = a' ++ (95 : UInt8) :: x' → a = a' ∧ x = x' := by
  intro a
  induction a with
  | nil =>
      intro a' x x' _ h2 h
      cases a' with
      | nil => simpa using h
      | cons y ys =>
          simp only [List.nil_append, List.cons_append, List.cons.injEq] at h
          have := h2 y (by simp)
          rw [← h.1] at this
          unfold IsDigitB at this
          exact absurd this.2 (by decide)
  | cons y ys ih =>
      intro a' x x' h1 h2 h
      cases a' with
      | nil =>
          simp only [List.nil_append, List.cons_append, List.cons.injEq] at h
          have := h1 y (by simp)
          rw [h.1] at this
          unfold IsDigitB at this
          exact absurd this.2 (by decide)
      | cons z zs =>
          simp only [List.cons_append, List.cons.injEq] at h
          obtain ⟨rfl, hrest⟩ := h
          obtain ⟨h3, h4⟩ := ih zs x x' (fun b hb => h1 b (by simp [hb])) (fun b hb => h2 b (by simp [hb])) hrest
          exact ⟨by rw [h3], h4⟩

/-- **the statement identity format is injective** in (row, column, file), for any prefix -/
theorem stmt_format_injective (p : Bytes) (r c r' c' : Nat) (f f' : Bytes)
    (h : p ++ decB r ++ [95] ++ decB c ++ [95] ++ f = p ++ decB r' ++ [95] ++ decB c' ++ [95] ++ f') :
    r = r' ∧ c = c' ∧ f = f' := by
  simp only [List.append_assoc, List.append_cancel_left_eq, List.cons_append, List.nil_append] at h
  obtain ⟨h1, h2⟩ := digits_sep_unique _ _ _ _ (decB_digits r) (decB_digits r') h
  obtain ⟨h3, h4⟩ := digits_sep_unique _ _ _ _ (decB_digits c) (decB_digits c') h2
  exact ⟨decB_injective h1, decB_injective h3, h4⟩

end Cpf.Scan
