/-
  Model of the goroutines and channels of graph.Initialize as a transition system.

    main      queue all `n` files (fileChan, capacity n) · close(fileChan) · start the status goroutine ·
              start the closer · collect from resultChan until it is closed
    worker    (numWorkers of them, started before the queueing) loop: receive a file, or exit when fileChan is
              empty and closed; send status; (reading or parsing may fail: back to the loop head);
              send status; send status; send result; send progress
    status    started by main after the queueing: receive from statusChan / progressChan until it observes a
              closed channel
    closer    after all workers have exited (wg.Wait): close resultChan, statusChan, progressChan

  Channel capacities are parameters (`Cfg`); `Cpf.Generated.poolChans` pins what they are in the source.
  A send blocks while the channel holds `cap` values; a receive blocks while the channel is empty and open.
-/
namespace Cpf.Scan.Pool

structure Cfg where
  n : Nat            -- number of files
  fileCap : Nat
  resultCap : Nat
  statusCap : Nat
  progressCap : Nat
  deriving Repr

/-- worker program counter: 0 loop head; 1 about to send the first status; 2..3 the other two status sends;
    4 send result; 5 send progress; 6 exited -/
abbrev Pc := Nat

structure St where
  unsent : Nat                 -- files main has not queued yet
  mainPc : Nat                 -- 0 queueing · 1 queue closed · 2 status started · 3 collecting (closer started) · 4 returned
  fileQ : Nat
  workers : List Pc
  statusQ : Nat
  resultQ : Nat
  progressQ : Nat
  statusExited : Bool
  closed : Bool                -- the closer has closed result/status/progress
  collected : Nat
  produced : Nat               -- results sent so far (ghost)
  failed : Nat                 -- files a worker gave up on (unreadable / parser error) so far (ghost)
  deriving Repr

def init (c : Cfg) (w : Nat) : St :=
  { unsent := c.n, mainPc := 0, fileQ := 0, workers := List.replicate w 0, statusQ := 0, resultQ := 0, progressQ := 0,
    statusExited := false, closed := false, collected := 0, produced := 0, failed := 0 }

def allExited (s : St) : Bool := s.workers.all (· == 6)

inductive Step (c : Cfg) : St → St → Prop
  -- main
  | queue {s} : s.mainPc = 0 → 0 < s.unsent → s.fileQ < c.fileCap →
      Step c s { s with unsent := s.unsent - 1, fileQ := s.fileQ + 1 }
  | closeFiles {s} : s.mainPc = 0 → s.unsent = 0 → Step c s { s with mainPc := 1 }
  | startStatus {s} : s.mainPc = 1 → Step c s { s with mainPc := 2 }
  | startCloser {s} : s.mainPc = 2 → Step c s { s with mainPc := 3 }
  | collect {s} : s.mainPc = 3 → 0 < s.resultQ → Step c s { s with resultQ := s.resultQ - 1, collected := s.collected + 1 }
  | finish {s} : s.mainPc = 3 → s.resultQ = 0 → s.closed = true → Step c s { s with mainPc := 4 }
  -- workers
  | take {s} (i : Nat) : s.workers[i]? = some 0 → 0 < s.fileQ →
      Step c s { s with fileQ := s.fileQ - 1, workers := s.workers.set i 1 }
  | exit {s} (i : Nat) : s.workers[i]? = some 0 → s.fileQ = 0 → 1 ≤ s.mainPc →
      Step c s { s with workers := s.workers.set i 6 }
  | status {s} (i : Nat) (pc : Pc) : s.workers[i]? = some pc → (pc = 1 ∨ pc = 2 ∨ pc = 3) → s.statusQ < c.statusCap →
      Step c s { s with statusQ := s.statusQ + 1, workers := s.workers.set i (pc + 1) }
  | fail {s} (i : Nat) : s.workers[i]? = some 2 → Step c s { s with failed := s.failed + 1, workers := s.workers.set i 0 }
  | result {s} (i : Nat) : s.workers[i]? = some 4 → s.resultQ < c.resultCap →
      Step c s { s with resultQ := s.resultQ + 1, produced := s.produced + 1, workers := s.workers.set i 5 }
  | progress {s} (i : Nat) : s.workers[i]? = some 5 → s.progressQ < c.progressCap →
      Step c s { s with progressQ := s.progressQ + 1, workers := s.workers.set i 0 }
  -- status goroutine (exists from mainPc ≥ 2 on)
  | drainStatus {s} : 2 ≤ s.mainPc → s.statusExited = false → 0 < s.statusQ → Step c s { s with statusQ := s.statusQ - 1 }
  | drainProgress {s} : 2 ≤ s.mainPc → s.statusExited = false → 0 < s.progressQ → Step c s { s with progressQ := s.progressQ - 1 }
  | statusExit {s} : 2 ≤ s.mainPc → s.statusExited = false → s.closed = true → (s.statusQ = 0 ∨ s.progressQ = 0) →
      Step c s { s with statusExited := true }
  -- closer (exists from mainPc ≥ 3 on)
  | close {s} : 3 ≤ s.mainPc → s.closed = false → allExited s = true → Step c s { s with closed := true }

/-- the scan has returned and every goroutine has ended -/
def Final (s : St) : Prop := s.mainPc = 4 ∧ s.statusExited = true

inductive Reach (c : Cfg) (w : Nat) : St → Prop
  | init : Reach c w (init c w)
  | step {s s'} : Reach c w s → Step c s s' → Reach c w s'

end Cpf.Scan.Pool
