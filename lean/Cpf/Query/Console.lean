/-
  Model of the interactive console of cmd/query.go (executeCLIQuery with --stdin) as a function of a
  *chunked* byte stream: stdin delivers the input in arbitrary pieces (a pipe, a paste, a key at a time);
  the code reads lines through one `bufio.Reader` created before the prompt loop (after the `fix:`), which
  keeps what it has read beyond the current line.

  `readLine` is `bufio.Reader.ReadString('\n')`: the state is the reader's buffer and the chunks not yet
  delivered. The *old* behaviour (a new reader per prompt) is `readLineFresh`: the buffer is thrown away
  after every line.
-/
namespace Cpf.Query.Console

/-- split at the first newline (kept with the line) -/
def splitLine : List Char → Option (List Char × List Char)
  | [] => none
  | c :: cs =>
      if c = '\n' then some (['\n'], cs)
      else match splitLine cs with
        | some (l, r) => some (c :: l, r)
        | none => none

structure Reader where
  buf    : List Char
  chunks : List (List Char)

/-- `ReadString('\n')`: a complete line and the new reader state, or `none` at end of input
    (a trailing unterminated line is an error in the Go code: the session ends). -/
def readLineAux : List Char → List (List Char) → Option (List Char × Reader)
  | buf, [] =>
      match splitLine buf with
      | some (l, r) => some (l, ⟨r, []⟩)
      | none => none
  | buf, c :: cs =>
      match splitLine buf with
      | some (l, r) => some (l, ⟨r, c :: cs⟩)
      | none => readLineAux (buf ++ c) cs

def readLine (r : Reader) : Option (List Char × Reader) := readLineAux r.buf r.chunks

def isQuit (l : List Char) : Bool := l.take 5 == ":quit".toList

/-- The console loop: every line read is answered (by `answer`) until `:quit` or end of input.
    `fuel` bounds the number of prompts (each prompt consumes a line). -/
def console (answer : List Char → String) : Nat → Reader → List String
  | 0, _ => []
  | fuel + 1, r =>
      match readLine r with
      | none => []
      | some (l, r') => if isQuit l then [] else answer l :: console answer fuel r'

/-- all complete lines of a flat input -/
def linesOf : Nat → List Char → List (List Char)
  | 0, _ => []
  | fuel + 1, s =>
      match splitLine s with
      | none => []
      | some (l, r) => l :: linesOf fuel r

/-- the specification: answer the complete lines, in order, up to the first `:quit` -/
def spec (answer : List Char → String) (input : List Char) : List String :=
  ((linesOf (input.length + 1) input).takeWhile (fun l => !isQuit l)).map answer

end Cpf.Query.Console
