/-
  How a Go operation can end: a value, an error that is returned/printed (a diagnostic),
  or an abnormal end (nil dereference, index out of range, failed type assertion, log.Fatal).
  The models never totalise a partial Go operation away: they return `panic` where Go would.
-/
namespace Cpf.Go

inductive Outcome (α : Type) where
  | ok (a : α)
  | diag (msg : String)
  | panic (why : String)
  deriving Repr

namespace Outcome

def bind {α β} (x : Outcome α) (f : α → Outcome β) : Outcome β :=
  match x with
  | ok a => f a
  | diag m => diag m
  | panic w => panic w

instance : Monad Outcome where
  pure := ok
  bind := bind

/-- apply `f` to the value, keep diagnostics and panics -/
def mapOk {α β} (o : Outcome α) (f : α → β) : Outcome β :=
  match o with
  | ok a => ok (f a)
  | diag m => diag m
  | panic w => panic w

def isPanic {α} : Outcome α → Bool
  | panic _ => true
  | _ => false

def isOk {α} : Outcome α → Bool
  | ok _ => true
  | _ => false

theorem mapOk_isPanic {α β} (o : Outcome α) (f : α → β) : (o.mapOk f).isPanic = o.isPanic := by
  cases o <;> rfl

theorem mapOk_eq_ok {α β} {o : Outcome α} {f : α → β} {b : β} (h : o.mapOk f = ok b) : ∃ a, o = ok a ∧ f a = b := by
  cases o with
  | ok a => exact ⟨a, rfl, by simpa [mapOk] using h⟩
  | diag m => simp [mapOk] at h
  | panic m => simp [mapOk] at h

@[simp] theorem bind_ok {α β} (a : α) (f : α → Outcome β) : (ok a >>= f) = f a := rfl
@[simp] theorem bind_diag {α β} (m : String) (f : α → Outcome β) : ((diag m : Outcome α) >>= f) = diag m := rfl
@[simp] theorem bind_panic {α β} (m : String) (f : α → Outcome β) : ((panic m : Outcome α) >>= f) = panic m := rfl
@[simp] theorem pure_eq {α} (a : α) : (pure a : Outcome α) = ok a := rfl

end Outcome
end Cpf.Go
