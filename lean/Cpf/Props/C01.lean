/-
  C01 — no missed matches: every combination of entities of the requested kinds for which the WHERE
  condition is true is reported.  (Engine level; the text → condition layer is in C14/C13.)

  Model: Cpf.Query.Engine (mirrors graph/query.go after the `fix:` that removed the unsound narrowing).
  For all graphs, all FROM lists of any length, all conditions of any shape, all atom meanings.
-/
import Cpf.Lemmas.Product

namespace Cpf.Props.C01
open Cpf.Query

/-- `t` is a combination of entities of the scanned project, of the kinds named in FROM, in FROM order. -/
def InCross (g : List Node) (kinds : List String) (t : Tuple) : Prop :=
  Pointwise (fun n k => n ∈ g ∧ n.kind = k) t kinds

/-- The WHERE condition is true on `t` (no WHERE: every combination qualifies). -/
def Holds (ρ : Nat → Tuple → Res) (q : EQuery) (t : Tuple) : Prop :=
  match q.cond with
  | none => True
  | some c => c.eval ρ t = .tt

theorem mem_candidates (g : List Node) (k : String) (n : Node) : n ∈ candidates g k ↔ n ∈ g ∧ n.kind = k := by
  simp [candidates]

theorem mem_generate (g : List Node) (kinds : List String) (t : Tuple) :
    t ∈ generateCartesianProduct g kinds ↔ InCross g kinds t := by
  unfold generateCartesianProduct InCross
  rw [mem_cartesianProduct]
  induction kinds generalizing t with
  | nil =>
      constructor
      · intro h; cases h; exact .nil
      · intro h; cases h; exact .nil
  | cons k ks ih =>
      constructor
      · intro h
        cases h with
        | cons h1 h2 => exact .cons ((mem_candidates g k _).1 h1) ((ih _).1 h2)
      · intro h
        cases h with
        | cons h1 h2 => exact .cons ((mem_candidates g k _).2 h1) ((ih _).2 h2)

theorem filter_iff (ρ : Nat → Tuple → Res) (q : EQuery) (hc : q.compiles = true) (t : Tuple) :
    filterEntities ρ q t = true ↔ Holds ρ q t := by
  unfold filterEntities Holds
  cases q.cond with
  | none => simp
  | some c => simp [hc]

/-- **C01**: nothing that matches is dropped, whatever the shape of the condition. -/
theorem C01_complete (ρ : Nat → Tuple → Res) (g : List Node) (q : EQuery) (hc : q.compiles = true)
    (t : Tuple) (hin : InCross g q.kinds t) (hw : Holds ρ q t) : t ∈ queryEntities ρ g q := by
  unfold queryEntities
  rw [List.mem_filter]
  exact ⟨(mem_generate g q.kinds t).2 hin, (filter_iff ρ q hc t).2 hw⟩

/-- Characterisation used by C02 and C12 as well. -/
theorem mem_queryEntities (ρ : Nat → Tuple → Res) (g : List Node) (q : EQuery) (hc : q.compiles = true) (t : Tuple) :
    t ∈ queryEntities ρ g q ↔ InCross g q.kinds t ∧ Holds ρ q t := by
  unfold queryEntities
  rw [List.mem_filter, mem_generate, filter_iff ρ q hc]

/-- Non-vacuity: a two-node graph, a negated atom, and the match that the pinned tree used to lose
    (`WHERE !(md.getName() == "foo")` returned nothing before the fix). -/
example :
    let g : List Node := [⟨1, "method_declaration"⟩, ⟨2, "method_declaration"⟩]
    let ρ : Nat → Tuple → Res := fun _ t => if t = [⟨1, "method_declaration"⟩] then .tt else .ff
    [⟨2, "method_declaration"⟩] ∈ queryEntities ρ g ⟨["method_declaration"], some (.not (.atom 0)), true⟩ := by
  decide

end Cpf.Props.C01
