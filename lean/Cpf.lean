import Cpf.Facts
import Cpf.Generated.Tables
import Cpf.Props.C19
