/-
  Layout lemmas for the maximal-munch lexer of Cpf.Query.Ebnf (generic part).

  * regular expressions whose character tests accept no white-space character (`wsFree`) die on white space, and
    the property is kept by derivatives;
  * `scan` on two inputs that differ only by white space inserted after the last match finds the same match;
  * `lexAux`: fuel beyond the length of the input is irrelevant, the accumulator and the error counter are carried.
-/
import Cpf.Query.Ebnf

namespace Cpf.Lemmas.LexLayout
open Cpf.Query Cpf.Query.Re

def isWs (c : Char) : Bool := c == ' ' || c == '\t' || c == '\r' || c == '\n'

/-- no character test of the expression accepts a white-space character -/
def wsFree : Re → Bool
  | .empty => true
  | .eps => true
  | .chr c => !isWs c
  | .set rs => !(inRanges ' ' rs || inRanges '\t' rs || inRanges '\r' rs || inRanges '\n' rs)
  | .nset _ => false
  | .any => false
  | .seq a b => wsFree a && wsFree b
  | .alt a b => wsFree a && wsFree b
  | .star a => wsFree a

theorem dead_mkSeq_left {a : Re} (b : Re) (h : a.dead = true) : (mkSeq a b).dead = true := by
  unfold mkSeq
  split <;> simp_all [dead]

theorem dead_mkAlt {a b : Re} (ha : a.dead = true) (hb : b.dead = true) : (mkAlt a b).dead = true := by
  unfold mkAlt
  split <;> simp_all [dead]

theorem wsFree_mkSeq {a b : Re} (ha : wsFree a = true) (hb : wsFree b = true) : wsFree (mkSeq a b) = true := by
  unfold mkSeq
  split <;> simp_all [wsFree]

theorem wsFree_mkAlt {a b : Re} (ha : wsFree a = true) (hb : wsFree b = true) : wsFree (mkAlt a b) = true := by
  unfold mkAlt
  split <;> simp_all [wsFree]

theorem wsFree_deriv (c : Char) : ∀ r : Re, wsFree r = true → wsFree (r.deriv c) = true
  | .empty, _ => by simp [deriv, wsFree]
  | .eps, _ => by simp [deriv, wsFree]
  | .chr d, _ => by simp only [deriv]; split <;> simp [wsFree]
  | .set rs, _ => by simp only [deriv]; split <;> simp [wsFree]
  | .nset rs, h => by simp [wsFree] at h
  | .any, h => by simp [wsFree] at h
  | .seq a b, h => by
      simp only [wsFree, Bool.and_eq_true] at h
      simp only [deriv]
      split
      · exact wsFree_mkAlt (wsFree_mkSeq (wsFree_deriv c a h.1) h.2) (wsFree_deriv c b h.2)
      · exact wsFree_mkSeq (wsFree_deriv c a h.1) h.2
  | .alt a b, h => by
      simp only [wsFree, Bool.and_eq_true] at h
      simp only [deriv]
      exact wsFree_mkAlt (wsFree_deriv c a h.1) (wsFree_deriv c b h.2)
  | .star a, h => by
      simp only [wsFree] at h
      simp only [deriv]
      exact wsFree_mkSeq (wsFree_deriv c a h) (by simpa [wsFree] using h)

theorem isWs_cases {w : Char} (h : isWs w = true) : w = ' ' ∨ w = '\t' ∨ w = '\r' ∨ w = '\n' := by
  simpa [isWs, or_assoc] using h

/-- a white-space character kills an expression that accepts none -/
theorem wsFree_deriv_dead {w : Char} (hw : isWs w = true) : ∀ r : Re, wsFree r = true → (r.deriv w).dead = true
  | .empty, _ => by simp [deriv, dead]
  | .eps, _ => by simp [deriv, dead]
  | .chr d, h => by
      simp only [wsFree, Bool.not_eq_eq_eq_not, Bool.not_true] at h
      simp only [deriv]
      split
      · rename_i hwd; subst hwd; simp [hw] at h
      · simp [dead]
  | .set rs, h => by
      simp only [wsFree, Bool.not_eq_eq_eq_not, Bool.not_true, Bool.or_eq_false_iff] at h
      simp only [deriv]
      have : inRanges w rs = false := by
        rcases isWs_cases hw with rfl | rfl | rfl | rfl <;> simp [h]
      simp [this, dead]
  | .nset rs, h => by simp [wsFree] at h
  | .any, h => by simp [wsFree] at h
  | .seq a b, h => by
      simp only [wsFree, Bool.and_eq_true] at h
      simp only [deriv]
      split
      · exact dead_mkAlt (dead_mkSeq_left _ (wsFree_deriv_dead hw a h.1)) (wsFree_deriv_dead hw b h.2)
      · exact dead_mkSeq_left _ (wsFree_deriv_dead hw a h.1)
  | .alt a b, h => by
      simp only [wsFree, Bool.and_eq_true] at h
      simp only [deriv]
      exact dead_mkAlt (wsFree_deriv_dead hw a h.1) (wsFree_deriv_dead hw b h.2)
  | .star a, h => by
      simp only [wsFree] at h
      simp only [deriv]
      exact dead_mkSeq_left _ (wsFree_deriv_dead hw a h)

/-! ### scanning -/

/-- the best match once the current state has been looked at -/
def base (r : Re) (pos : Nat) (best : Option Nat) : Option Nat := if r.nullable then some pos else best

theorem scan_nil (r : Re) (pos : Nat) (best : Option Nat) : scan r [] pos best = (base r pos best, pos) := by
  simp [scan, base]

theorem scan_cons (r : Re) (c : Char) (cs : List Char) (pos : Nat) (best : Option Nat) :
    scan r (c :: cs) pos best =
      if (r.deriv c).dead then (base r pos best, pos) else scan (r.deriv c) cs (pos + 1) (base r pos best) := by
  simp [scan, base]

/-- a scan reports the match it started with, the current position, or a later one -/
theorem scan_fst_cases : ∀ (s : List Char) (D : Re) (pos : Nat) (b : Option Nat),
    (scan D s pos b).1 = base D pos b ∨ ∃ k, pos < k ∧ (scan D s pos b).1 = some k
  | [], D, pos, b => by simp [scan_nil]
  | c :: cs, D, pos, b => by
      rw [scan_cons]
      split
      · simp
      · rcases scan_fst_cases cs (D.deriv c) (pos + 1) (base D pos b) with h | ⟨k, hk, h⟩
        · rw [h]
          by_cases hn : (D.deriv c).nullable = true
          · right; exact ⟨pos + 1, by omega, by simp [base, hn]⟩
          · left; simp [base, hn]
        · right; exact ⟨k, by omega, h⟩

/-- `s'` agrees with `s` up to a white-space character of `s'` (or to the end of both) -/
inductive InsWs : List Char → List Char → Prop
  | nil : InsWs [] []
  | same (c : Char) {s s' : List Char} : InsWs s s' → InsWs (c :: s) (c :: s')
  | ws (w : Char) (s s' : List Char) : isWs w = true → InsWs s (w :: s')

theorem InsWs.refl : ∀ s : List Char, InsWs s s
  | [] => .nil
  | c :: s => .same c (InsWs.refl s)

/-- a running best that lies before the current position -/
def Before (b : Option Nat) (pos : Nat) : Prop := ∀ k, b = some k → k < pos

theorem before_base {D : Re} {b : Option Nat} {pos : Nat} (h : Before b pos) : Before (base D pos b) (pos + 1) := by
  intro k hk
  unfold base at hk
  split at hk
  · cases hk; omega
  · have := h k hk; omega

/-- **white space after the last match is not looked past**: when the scan of `s` finds nothing beyond the state
    it starts in, neither does the scan of an `s'` that agrees with `s` up to a white-space character -/
theorem scan_ins {s s' : List Char} (h : InsWs s s') : ∀ (D : Re) (pos : Nat) (b : Option Nat), wsFree D = true →
    Before b pos → (scan D s pos b).1 = base D pos b → (scan D s' pos b).1 = base D pos b := by
  induction h with
  | nil => intro D pos b _ _ h; exact h
  | same c _ ih =>
      intro D pos b hD hb h
      rw [scan_cons] at h ⊢
      split
      · rfl
      · rename_i hdead
        rw [if_neg hdead] at h
        rcases scan_fst_cases _ (D.deriv c) (pos + 1) (base D pos b) with h1 | ⟨k, hk, h1⟩
        · have h2 := ih (D.deriv c) (pos + 1) (base D pos b) (wsFree_deriv c D hD) (before_base hb) h1
          rw [h2, ← h1, h]
        · rw [h1] at h
          have := before_base (D := D) hb k h.symm
          omega
  | ws w s s' hw =>
      intro D pos b hD hb h
      rw [scan_cons]
      simp only [wsFree_deriv_dead hw D hD, if_true]

/-- walking through a prefix: the result when the scan ends inside it, else the state reached after it -/
def scanP : Re → List Char → Nat → Option Nat → Sum (Option Nat × Nat) (Re × Option Nat)
  | r, [], _, best => .inr (r, best)
  | r, c :: cs, pos, best =>
      if (r.deriv c).dead then .inl (base r pos best, pos) else scanP (r.deriv c) cs (pos + 1) (base r pos best)

theorem scan_append : ∀ (p x : List Char) (r : Re) (pos : Nat) (best : Option Nat),
    scan r (p ++ x) pos best =
      match scanP r p pos best with
      | .inl res => res
      | .inr (D, b) => scan D x (pos + p.length) b
  | [], x, r, pos, best => by simp [scanP]
  | c :: cs, x, r, pos, best => by
      simp only [List.cons_append, scan_cons, scanP]
      split
      · rfl
      · rw [scan_append cs x]
        simp only [List.length_cons]
        have : pos + 1 + cs.length = pos + (cs.length + 1) := by omega
        rw [this]

theorem scanP_inv : ∀ (p : List Char) (r : Re) (pos : Nat) (best : Option Nat) (D : Re) (b : Option Nat),
    wsFree r = true → Before best pos → scanP r p pos best = .inr (D, b) → wsFree D = true ∧ Before b (pos + p.length)
  | [], r, pos, best, D, b, hr, hb, h => by
      simp only [scanP, Sum.inr.injEq, Prod.mk.injEq] at h
      obtain ⟨rfl, rfl⟩ := h
      exact ⟨hr, by simpa using hb⟩
  | c :: cs, r, pos, best, D, b, hr, hb, h => by
      simp only [scanP] at h
      split at h
      · cases h
      · have := scanP_inv cs (r.deriv c) (pos + 1) (base r pos best) D b (wsFree_deriv c r hr) (before_base hb) h
        refine ⟨this.1, ?_⟩
        have h2 := this.2
        simp only [List.length_cons]
        have : pos + (cs.length + 1) = pos + 1 + cs.length := by omega
        rw [this]; exact h2

/-- **a rule that accepts no white space**: when its longest match on `l ++ s` does not reach beyond `l`, it finds
    the same match on `l ++ s'` -/
theorem scan_wsFree_same (r : Re) (hr : wsFree r = true) (l : List Char) {s s' : List Char} (h : InsWs s s')
    (hle : ∀ k, (scan r (l ++ s) 0 none).1 = some k → k ≤ l.length) :
    (scan r (l ++ s') 0 none).1 = (scan r (l ++ s) 0 none).1 := by
  rw [scan_append l s, scan_append l s'] at *
  cases hP : scanP r l 0 none with
  | inl res => simp
  | inr Db =>
      obtain ⟨D, b⟩ := Db
      simp only [hP] at hle ⊢
      have hinv := scanP_inv l r 0 none D b hr (by intro k hk; cases hk) hP
      rcases scan_fst_cases s D (0 + l.length) b with h1 | ⟨k, hk, h1⟩
      · rw [scan_ins h D (0 + l.length) b hinv.1 hinv.2 h1, h1]
      · have := hle k h1
        omega

/-! ### choosing the rule -/

/-- how one rule's match updates the winner so far -/
def accStep (r : LexRule) (m : Option Nat) (acc : Option (LexRule × Nat)) : Option (LexRule × Nat) :=
  match m, acc with
  | some n, none => if n > 0 then some (r, n) else none
  | some n, some (r0, n0) => if n > n0 then some (r, n) else some (r0, n0)
  | none, a => a

theorem bestRule_cons (r : LexRule) (rs : List LexRule) (cs : List Char) (acc : Option (LexRule × Nat)) (live : Nat) :
    bestRule (r :: rs) cs acc live =
      bestRule rs cs (accStep r (r.re.scan cs 0 none).1 acc)
        (if (r.re.scan cs 0 none).2 > live then (r.re.scan cs 0 none).2 else live) := by
  simp only [bestRule, accStep]
  rfl

/-- the winner depends only on what every rule matches -/
theorem bestRule_fst_congr : ∀ (rs : List LexRule) (cs cs' : List Char) (acc : Option (LexRule × Nat)) (lv lv' : Nat),
    (∀ r ∈ rs, (r.re.scan cs 0 none).1 = (r.re.scan cs' 0 none).1) →
    (bestRule rs cs acc lv).1 = (bestRule rs cs' acc lv').1
  | [], _, _, _, _, _, _ => by simp [bestRule]
  | r :: rs, cs, cs', acc, lv, lv', h => by
      rw [bestRule_cons, bestRule_cons, h r (by simp)]
      exact bestRule_fst_congr rs cs cs' _ _ _ (fun r' hr' => h r' (by simp [hr']))

/-- the winner so far has a positive length -/
def AccPos (acc : Option (LexRule × Nat)) : Prop := ∀ r n, acc = some (r, n) → 0 < n

theorem accPos_step {r : LexRule} {m : Option Nat} {acc : Option (LexRule × Nat)} (h : AccPos acc) : AccPos (accStep r m acc) := by
  intro r' n' hn
  unfold accStep at hn
  split at hn
  · split at hn
    · cases hn; assumption
    · cases hn
  · rename_i n r0 n0
    split at hn
    · cases hn
      have := h r0 n0 rfl
      omega
    · cases hn; exact h _ _ rfl
  · exact h _ _ hn

theorem bestRule_pos : ∀ (rs : List LexRule) (cs : List Char) (acc : Option (LexRule × Nat)) (lv : Nat), AccPos acc →
    AccPos (bestRule rs cs acc lv).1
  | [], _, _, _, h => by simpa [bestRule] using h
  | r :: rs, cs, acc, lv, h => by
      rw [bestRule_cons]
      exact bestRule_pos rs cs _ _ (accPos_step h)

/-- the winner is at least as long as the winner so far … -/
theorem bestRule_ge_acc : ∀ (rs : List LexRule) (cs : List Char) (acc : Option (LexRule × Nat)) (lv : Nat) (r0 : LexRule) (n0 : Nat),
    acc = some (r0, n0) → ∃ r n, (bestRule rs cs acc lv).1 = some (r, n) ∧ n0 ≤ n
  | [], _, _, _, r0, n0, h => ⟨r0, n0, by simp [bestRule, h], Nat.le_refl _⟩
  | r :: rs, cs, acc, lv, r0, n0, h => by
      rw [bestRule_cons]
      subst h
      cases hm : (r.re.scan cs 0 none).1 with
      | none => simpa [accStep] using bestRule_ge_acc rs cs (some (r0, n0)) _ r0 n0 rfl
      | some n =>
          by_cases hn : n > n0
          · obtain ⟨r', n', h1, h2⟩ := bestRule_ge_acc rs cs (some (r, n)) (if (r.re.scan cs 0 none).2 > lv then (r.re.scan cs 0 none).2 else lv) r n rfl
            exact ⟨r', n', by simpa [accStep, hn] using h1, by omega⟩
          · simpa [accStep, hn] using bestRule_ge_acc rs cs (some (r0, n0)) _ r0 n0 rfl

/-- … and as every rule's match -/
theorem bestRule_max : ∀ (rs : List LexRule) (cs : List Char) (acc : Option (LexRule × Nat)) (lv : Nat) (rw : LexRule) (n : Nat),
    (bestRule rs cs acc lv).1 = some (rw, n) → ∀ r ∈ rs, ∀ k, (r.re.scan cs 0 none).1 = some k → k ≤ n
  | [], _, _, _, _, _, _ => by simp
  | r :: rs, cs, acc, lv, rw, n, h => by
      rw [bestRule_cons] at h
      intro r' hr' k hk
      rcases List.mem_cons.1 hr' with rfl | hr'
      · -- the head rule: its match went into the accumulator, which the result dominates
        rw [hk] at h
        by_cases hk0 : k = 0
        · omega
        cases acc with
        | none =>
            have hstep : accStep r' (some k) none = some (r', k) := by simp [accStep]; omega
            rw [hstep] at h
            obtain ⟨r2, n2, h1, h2⟩ := bestRule_ge_acc rs cs (some (r', k)) (if (r'.re.scan cs 0 none).2 > lv then (r'.re.scan cs 0 none).2 else lv) r' k rfl
            rw [h1] at h; cases h; exact h2
        | some a =>
            obtain ⟨r0, n0⟩ := a
            by_cases hgt : k > n0
            · have hstep : accStep r' (some k) (some (r0, n0)) = some (r', k) := by simp [accStep, hgt]
              rw [hstep] at h
              obtain ⟨r2, n2, h1, h2⟩ := bestRule_ge_acc rs cs (some (r', k)) (if (r'.re.scan cs 0 none).2 > lv then (r'.re.scan cs 0 none).2 else lv) r' k rfl
              rw [h1] at h; cases h; exact h2
            · have hstep : accStep r' (some k) (some (r0, n0)) = some (r0, n0) := by simp [accStep, hgt]
              rw [hstep] at h
              obtain ⟨r2, n2, h1, h2⟩ := bestRule_ge_acc rs cs (some (r0, n0)) (if (r'.re.scan cs 0 none).2 > lv then (r'.re.scan cs 0 none).2 else lv) r0 n0 rfl
              rw [h1] at h; cases h; omega
      · exact bestRule_max rs cs _ _ rw n h r' hr' k hk

/-- the winner is one of the rules, with exactly its own match -/
theorem bestRule_winner : ∀ (rs : List LexRule) (cs : List Char) (acc : Option (LexRule × Nat)) (lv : Nat) (rw : LexRule) (n : Nat),
    (bestRule rs cs acc lv).1 = some (rw, n) → acc = some (rw, n) ∨ (rw ∈ rs ∧ (rw.re.scan cs 0 none).1 = some n)
  | [], _, _, _, _, _, h => by left; simpa [bestRule] using h
  | r :: rs, cs, acc, lv, rw, n, h => by
      rw [bestRule_cons] at h
      rcases bestRule_winner rs cs _ _ rw n h with h1 | ⟨h1, h2⟩
      · unfold accStep at h1
        split at h1
        · split at h1
          · cases h1; right; rename_i hm _; exact ⟨by simp, hm⟩
          · cases h1
        · split at h1
          · cases h1; right; rename_i hm _; exact ⟨by simp, hm⟩
          · left; exact h1
        · left; exact h1
      · right; exact ⟨by simp [h1], h2⟩

/-- a rule with a non-empty match means there is a winner, at least as long -/
theorem bestRule_exists : ∀ (rs : List LexRule) (cs : List Char) (acc : Option (LexRule × Nat)) (lv : Nat) (r : LexRule) (k : Nat),
    r ∈ rs → (r.re.scan cs 0 none).1 = some k → 0 < k → ∃ r' n, (bestRule rs cs acc lv).1 = some (r', n) ∧ k ≤ n
  | [], _, _, _, _, _, h, _, _ => by simp at h
  | r0 :: rs, cs, acc, lv, r, k, h, hk, hpos => by
      rw [bestRule_cons]
      rcases List.mem_cons.1 h with rfl | h
      · rw [hk]
        cases acc with
        | none =>
            have hstep : accStep r (some k) none = some (r, k) := by simp [accStep]; omega
            rw [hstep]
            exact bestRule_ge_acc rs cs _ _ r k rfl
        | some a =>
            obtain ⟨ra, na⟩ := a
            by_cases hgt : k > na
            · have hstep : accStep r (some k) (some (ra, na)) = some (r, k) := by simp [accStep, hgt]
              rw [hstep]
              exact bestRule_ge_acc rs cs _ _ r k rfl
            · have hstep : accStep r (some k) (some (ra, na)) = some (ra, na) := by simp [accStep, hgt]
              rw [hstep]
              obtain ⟨r', n, h1, h2⟩ := bestRule_ge_acc rs cs (some (ra, na)) (if (r.re.scan cs 0 none).2 > lv then (r.re.scan cs 0 none).2 else lv) ra na rfl
              exact ⟨r', n, h1, by omega⟩
      · exact bestRule_exists rs cs _ _ r k h hk hpos

/-- a rule that dies on the first character matches at most the empty string -/
theorem scan_first_dead (r : Re) (c : Char) (x : List Char) (h : (r.deriv c).dead = true) :
    scan r (c :: x) 0 none = (base r 0 none, 0) := by
  rw [scan_cons]; simp [h]

/-! ### the lexer loop -/

def tokOf (r : LexRule) (cs : List Char) (n : Nat) : Token := { kind := r.kind, text := String.ofList (cs.take n) }

theorem lexAux_cons (R : List LexRule) (f : Nat) (c : Char) (cs : List Char) (acc : List Token) (e : Nat) :
    lexAux R (f + 1) (c :: cs) acc e =
      match bestRule R (c :: cs) none 0 with
      | (some (r, n), _) => lexAux R f ((c :: cs).drop n) (if r.skip then acc else tokOf r (c :: cs) n :: acc) e
      | (none, live) => lexAux R f ((c :: cs).drop (live + 1)) acc (e + 1) := by
  simp only [lexAux, tokOf]
  rfl

/-- the accumulator and the error counter are only carried along -/
theorem lexAux_acc (R : List LexRule) : ∀ (f : Nat) (cs : List Char) (acc : List Token) (e : Nat),
    lexAux R f cs acc e = (acc.reverse ++ (lexAux R f cs [] 0).1, e + (lexAux R f cs [] 0).2)
  | 0, cs, acc, e => by simp [lexAux]
  | f + 1, [], acc, e => by simp [lexAux]
  | f + 1, c :: cs, acc, e => by
      rw [lexAux_cons, lexAux_cons]
      cases hb : bestRule R (c :: cs) none 0 with
      | mk w lv =>
        cases w with
        | none =>
            simp only
            rw [lexAux_acc R f _ acc (e + 1), lexAux_acc R f _ [] (0 + 1)]
            simp only [List.reverse_nil, List.nil_append, Prod.mk.injEq, true_and]
            omega
        | some rn =>
            obtain ⟨r, n⟩ := rn
            simp only
            rw [lexAux_acc R f _ (if r.skip then acc else tokOf r (c :: cs) n :: acc) e,
                lexAux_acc R f _ (if r.skip then [] else tokOf r (c :: cs) n :: []) 0]
            cases r.skip <;> simp

/-- fuel beyond the length of the input is not used -/
theorem lexAux_fuel (R : List LexRule) : ∀ (f1 f2 : Nat) (cs : List Char) (acc : List Token) (e : Nat),
    cs.length < f1 → cs.length < f2 → lexAux R f1 cs acc e = lexAux R f2 cs acc e
  | 0, _, _, _, _, h, _ => by omega
  | _ + 1, 0, _, _, _, _, h => by omega
  | f1 + 1, f2 + 1, [], acc, e, _, _ => by simp [lexAux]
  | f1 + 1, f2 + 1, c :: cs, acc, e, h1, h2 => by
      rw [lexAux_cons, lexAux_cons]
      cases hb : bestRule R (c :: cs) none 0 with
      | mk w lv =>
        cases w with
        | none =>
            simp only
            apply lexAux_fuel R f1 f2
            · simp only [List.length_drop, List.length_cons] at *; omega
            · simp only [List.length_drop, List.length_cons] at *; omega
        | some rn =>
            obtain ⟨r, n⟩ := rn
            simp only
            have hpos : 0 < n := by
              have := bestRule_pos R (c :: cs) none 0 (by intro _ _ h; cases h)
              rw [hb] at this
              exact this r n rfl
            apply lexAux_fuel R f1 f2
            · simp only [List.length_drop, List.length_cons] at *; omega
            · simp only [List.length_drop, List.length_cons] at *; omega

/-- **one token**: when a rule wins at the head of the input, the lexer emits its token (unless the rule is skipped)
    and goes on after it -/
theorem lex_step (R : List LexRule) (cs : List Char) (r : LexRule) (n lv : Nat) (hne : cs ≠ [])
    (hb : bestRule R cs none 0 = (some (r, n), lv)) :
    lex R cs = ((if r.skip then [] else [tokOf r cs n]) ++ (lex R (cs.drop n)).1, (lex R (cs.drop n)).2) := by
  obtain ⟨c, cs', rfl⟩ := List.exists_cons_of_ne_nil hne
  have hpos : 0 < n := by
    have := bestRule_pos R (c :: cs') none 0 (by intro _ _ h; cases h)
    rw [hb] at this
    exact this r n rfl
  unfold lex
  rw [show (c :: cs').length + 1 = (c :: cs').length + 1 from rfl, lexAux_cons, hb]
  simp only
  rw [lexAux_acc]
  have hf : lexAux R (c :: cs').length (List.drop n (c :: cs')) [] 0
      = lexAux R ((List.drop n (c :: cs')).length + 1) (List.drop n (c :: cs')) [] 0 := by
    apply lexAux_fuel
    · simp only [List.length_drop, List.length_cons]; omega
    · omega
  rw [hf]
  cases r.skip <;> simp

end Cpf.Lemmas.LexLayout
