/-
  The few functions of Go's `strings` package the modelled code uses, on `List Char`
  (proof-friendly) with `String` wrappers for the executable driver.
-/
namespace Cpf.Go.Str

/-- `strings.HasPrefix` -/
def hasPrefix : List Char → List Char → Bool
  | _, [] => true
  | [], _ :: _ => false
  | c :: cs, p :: ps => c == p && hasPrefix cs ps

/-- `strings.Split(s, sep)` for a one-character separator. -/
def splitChar (sep : Char) : List Char → List (List Char)
  | [] => [[]]
  | c :: cs =>
      if c == sep then [] :: splitChar sep cs
      else match splitChar sep cs with
        | [] => [[c]]
        | w :: ws => (c :: w) :: ws

def isSpace (c : Char) : Bool :=
  c == ' ' || c == '\t' || c == '\n' || c == '\r' || c == '\x0b' || c == '\x0c' || c == '\u0085' || c == ' '

def trimLeft : List Char → List Char
  | [] => []
  | c :: cs => if isSpace c then trimLeft cs else c :: cs

/-- `strings.TrimSpace` (ASCII white space plus U+0085, U+00A0; the remaining Unicode spaces are not modelled) -/
def trimSpace (s : List Char) : List Char := (trimLeft (trimLeft s).reverse).reverse

/-- `strings.Join` -/
def join (sep : List Char) : List (List Char) → List Char
  | [] => []
  | [x] => x
  | x :: xs => x ++ sep ++ join sep xs

/-- `strings.Contains`-/
def contains : List Char → List Char → Bool
  | s, p => hasPrefix s p || match s with
    | [] => false
    | _ :: cs => contains cs p

end Cpf.Go.Str
