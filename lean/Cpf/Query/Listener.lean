/-
  Model of antlr/listener_impl.go: the walk of CustomQueryListener over a parse tree,
  producing what parser.ParseQuery returns. Mirrors the code *as it is now* (after the fix: commits
  recorded in known_findings.json): the condition text comes from the WHERE sub-tree
  (`conditionText`), arguments are attributed to aliases by equality, a missing argument list is ok.
  A mandatory child that is absent is a Go nil dereference: `Outcome.panic`.
-/
import Cpf.Query.Ebnf
import Cpf.Go.Outcome
import Cpf.Go.Str

namespace Cpf.Query
open Cpf.Go

structure Param where
  name : String
  type : String
  deriving Repr, DecidableEq, Inhabited

structure Predicate where
  name   : String
  params : List Param
  body   : String
  deriving Repr, DecidableEq, Inhabited

structure Invocation where
  name    : String
  args    : List Param
  matched : Predicate        -- the zero value when no declaration matches
  deriving Repr, DecidableEq, Inhabited

structure SelectItem where
  entity : String
  alias  : String
  deriving Repr, DecidableEq, Inhabited

structure SelectOut where
  text : String
  ty   : String              -- "variable" | "method_chain" | "string"
  deriving Repr, DecidableEq, Inhabited

structure ParsedQuery where
  selectList   : List SelectItem := []
  expression   : String := ""
  condition    : List String := []
  predicates   : List Predicate := []
  invocations  : List Invocation := []
  selectOutput : List SelectOut := []
  deriving Repr, DecidableEq, Inhabited

structure LState extends ParsedQuery where
  inDecl : Bool := false
  deriving Repr

/- `conditionText`: token texts concatenated, `||` and `&&` set off by spaces. -/
mutual
def conditionText : PT → String
  | .leaf t => if t.text = "||" ∨ t.text = "&&" then " " ++ t.text ++ " " else t.text
  | .node _ cs => conditionTextList cs
def conditionTextList : List PT → String
  | [] => ""
  | c :: cs => conditionText c ++ conditionTextList cs
end

def need (o : Option PT) (what : String) : Outcome PT :=
  match o with
  | some p => .ok p
  | none => .panic ("nil dereference: " ++ what)

def firstLeaf? (p : PT) (k : String) : Option PT := p.children.find? (PT.isTok k)

/-- `inferExpressionType`: the FROM item whose alias *is* the (trimmed) argument. -/
def inferArg (sel : List SelectItem) (arg : String) : Option Param :=
  let a := String.ofList (Str.trimSpace arg.toList)
  (sel.find? (fun e => a = e.alias)).map (fun e => { name := e.alias, type := e.entity })

def extractArguments (sel : List SelectItem) (args : List String) : List Param :=
  args.filterMap (inferArg sel)

def paramTypesMatch : List Param → List Param → Bool
  | [], [] => true
  | p :: ps, a :: as => p.type == a.type && paramTypesMatch ps as
  | _, _ => false

/-- `matchPredicate`: exactly one declared predicate with that name, arity and parameter types. -/
def matchPredicate (decls : List Predicate) (name : String) (args : List Param) : Option Predicate :=
  match (decls.filter (fun p => p.name == name)).filter (fun p => paramTypesMatch p.params args) with
  | [p] => some p
  | _ => none

/-- `for … { l.selectList = append(…, SelectList{child.Entity().GetText(), child.Alias().GetText()}) }` -/
def selectItems : List PT → Outcome (List SelectItem)
  | [] => .ok []
  | it :: rest =>
      match it.child? "entity", it.child? "alias" with
      | some e, some a =>
          match selectItems rest with
          | .ok xs => .ok ({ entity := e.text, alias := a.text } :: xs)
          | .diag m => .diag m
          | .panic m => .panic m
      | _, _ => .panic "nil dereference: select_item.Entity()/Alias()"

/-- `for _, paramCtx := range ctx.Parameter_list().AllParameter() { … }` -/
def declParams : List PT → Outcome (List Param)
  | [] => .ok []
  | q :: rest =>
      match q.child? "type", firstLeaf? q "IDENTIFIER" with
      | some ty, some id =>
          match declParams rest with
          | .ok xs => .ok ({ name := id.text, type := ty.text } :: xs)
          | .diag m => .diag m
          | .panic m => .panic m
      | _, _ => .panic "nil dereference: parameter.Type_()/IDENTIFIER()"

def enterRule (p : PT) (s : LState) : Outcome LState :=
  match p with
  | .leaf _ => .ok s
  | .node rule cs =>
    if rule = "query" then
      match p.child? "expression" with
      | some e => .ok { s with expression := s.expression ++ conditionText e }
      | none => .ok s
    else if rule = "select_expression" then
      let ty :=
        match cs with
        | c :: _ => if c.isRule "variable" then "variable" else if c.isRule "method_chain" then "method_chain"
                    else if c.isTok "STRING" then "string" else ""
        | [] => ""
      .ok { s with selectOutput := s.selectOutput ++ [{ text := p.text, ty := ty }] }
    else if rule = "select_list" then
      match selectItems (p.childrenOf "select_item") with
      | .ok items => .ok { s with selectList := s.selectList ++ items }
      | .diag m => .diag m
      | .panic m => .panic m
    else if rule = "predicate_invocation" then
      match p.child? "predicate_name" with
      | none => .panic "nil dereference: predicate_invocation.Predicate_name()"
      | some n =>
        let params := match p.child? "argument_list" with
          | some a => a.text
          | none => ""
        let parts := (Str.splitChar ',' params.toList).map String.ofList
        let args := extractArguments s.selectList parts
        let m := (matchPredicate s.predicates n.text args).getD default
        .ok { s with invocations := s.invocations ++ [{ name := n.text, args := args, matched := m }] }
    else if rule = "predicate_declaration" then
      match p.child? "predicate_name", p.child? "expression" with
      | some n, some body =>
          let ps : Outcome (List Param) := match p.child? "parameter_list" with
            | none => .ok []
            | some pl => declParams (pl.childrenOf "parameter")
          match ps with
          | .ok params =>
              .ok { s with inDecl := true, predicates := s.predicates ++ [{ name := n.text, params := params, body := body.text }] }
          | .diag m => .diag m
          | .panic m => .panic m
      | _, _ => .panic "nil dereference: predicate_declaration.Predicate_name()/Expression()"
    else if rule = "equalityExpression" ∨ rule = "relationalExpression" then
      if cs.length > 1 ∧ ¬ s.inDecl then .ok { s with condition := s.condition ++ [p.text] } else .ok s
    else .ok s

def exitRule (p : PT) (s : LState) : LState :=
  if p.isRule "predicate_declaration" then { s with inDecl := false } else s

/- `antlr.ParseTreeWalkerDefault.Walk` -/
mutual
def walk : PT → LState → Outcome LState
  | .leaf _, s => .ok s
  | .node r cs, s =>
      match enterRule (.node r cs) s with
      | .ok s1 =>
          match walkList cs s1 with
          | .ok s2 => .ok (exitRule (.node r cs) s2)
          | .diag m => .diag m
          | .panic m => .panic m
      | .diag m => .diag m
      | .panic m => .panic m
def walkList : List PT → LState → Outcome LState
  | [], s => .ok s
  | c :: cs, s =>
      match walk c s with
      | .ok s1 => walkList cs s1
      | .diag m => .diag m
      | .panic m => .panic m
end

/-- `parser.ParseQuery` on a token list: syntax errors are diagnostics. -/
def parseQueryTokens (g : Grammar) (start : String) (ts : List Token) : Outcome ParsedQuery :=
  match (parsesOf g (fuelFor ts) start ts).head? with
  | none => .diag "syntax error"
  | some tree =>
      match walk tree {} with
      | .ok s => .ok s.toParsedQuery
      | .diag m => .diag m
      | .panic m => .panic m

/-- `parser.ParseQuery` on characters (lexer errors are syntax errors). -/
def parseQuery (rules : List LexRule) (g : Grammar) (start : String) (cs : List Char) : Outcome ParsedQuery :=
  match lex rules cs with
  | (ts, 0) => parseQueryTokens g start ts
  | (_, _ + 1) => .diag "token recognition error"

end Cpf.Query
