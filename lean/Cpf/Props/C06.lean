/-
  C06 — call, expression and statement attributes mirror the source.

  * `C06_operator_kinds` (regenerated table, `decide`): each of the 19 binary operators produces exactly one
    operator-specific kind — the documented one — besides the generic `binary_expression`;
  * `C06_wiring` (regenerated): which local value each attribute field of the call / object-creation / binary /
    statement literals is set from;
  * `C06_call_args` / `C06_block_named`: for an argument list (resp. any delimited list) of **any length**
    whose punctuation tokens are unnamed and whose items are named, the extracted list is exactly the items,
    in order — string literals without their delimiting quotes;
  * the extraction functions themselves (Cpf.Scan.Attrs) are tied exactly to the real Node fields on real
    trees (checks/c05.py, c06.py); that a construct's tree has the assumed shape is tree-sitter's grammar and
    is validated there on every generated program. A block's statement list includes its braces — recorded
    finding C06:BlockStmt:statements (`C06_block_includes_braces`).
-/
import Cpf.Scan.Attrs

namespace Cpf.Props.C06
open Cpf.Scan Cpf.Go Cpf.Facts Cpf.Generated

def kindsOfOp (op : String) : List String := (nodeLits.filter (fun l => l.ops.contains op)).map (·.kind)

def operatorTable : List (String × String) :=
  [("+", "add_expression"), ("-", "sub_expression"), ("*", "mul_expression"), ("/", "div_expression"),
   (">", "comp_expression"), ("<", "comp_expression"), (">=", "comp_expression"), ("<=", "comp_expression"),
   ("%", "rem_expression"), (">>", "right_shift_expression"), ("<<", "left_shift_expression"),
   ("!=", "ne_expression"), ("==", "eq_expression"), ("&", "bitwise_and_expression"), ("&&", "and_expression"),
   ("||", "or_expression"), ("|", "bitwise_or_expression"), (">>>", "bitwise_right_shift_expression"),
   ("^", "bitwise_xor_expression")]

/-- **C06 (operator → kind)**: all 19 operators, exactly one specific kind each. -/
theorem C06_operator_kinds : ∀ p ∈ operatorTable, kindsOfOp p.1 = [p.2] := by decide

/-- … and every binary expression also produces the generic kind, from one literal that applies to all operators. -/
theorem C06_generic_binary :
    (nodeLits.filter (fun l => l.tsTypes == ["binary_expression"] && l.ops.isEmpty)).map (·.kind) = ["binary_expression"] := by
  decide

def wiringOf (kind : String) : List (List (String × String)) := (nodeLits.filter (fun l => l.kind == kind)).map (·.wiring)

def stmtWiring (k field value : String) : List (List (String × String)) :=
  [[("Name", "\"" ++ k ++ "\""), ("IsExternal", "true"), ("isJavaSourceFile", "isJavaSourceFile"), (field, value)]]

def wiringTable : List (String × List (List (String × String))) :=
  [("method_invocation", [[("Name", "methodName"), ("IsExternal", "true"), ("MethodArgumentsValue", "arguments"), ("isJavaSourceFile", "isJavaSourceFile")]]),
   ("ClassInstanceExpr", [[("Name", "className"), ("isJavaSourceFile", "isJavaSourceFile"), ("ClassInstanceExpr", "&classInstanceExpression")]]),
   ("binary_expression", [[("Name", "node.Content(sourceCode)"), ("isJavaSourceFile", "isJavaSourceFile"), ("BinaryExpr", "&expressionNode")]]),
   ("IfStmt", stmtWiring "IfStmt" "IfStmt" "&ifNode"), ("WhileStmt", stmtWiring "WhileStmt" "WhileStmt" "&whileNode"),
   ("DoStmt", stmtWiring "DoStmt" "DoStmt" "&doWhileNode"), ("ForStmt", stmtWiring "ForStmt" "ForStmt" "&forNode"),
   ("BreakStmt", stmtWiring "BreakStmt" "BreakStmt" "breakNode"), ("ContinueStmt", stmtWiring "ContinueStmt" "ContinueStmt" "continueNode"),
   ("YieldStmt", stmtWiring "YieldStmt" "YieldStmt" "yieldNode"), ("AssertStmt", stmtWiring "AssertStmt" "AssertStmt" "assertNode"),
   ("ReturnStmt", stmtWiring "ReturnStmt" "ReturnStmt" "returnNode"), ("BlockStmt", stmtWiring "BlockStmt" "BlockStmt" "blockNode")]

/-- Regenerated: the attribute fields of calls, object creations, binary expressions and statements are set from
    the values extracted for them. -/
theorem C06_wiring : ∀ p ∈ wiringTable, wiringOf p.1 = p.2 := by decide

/-- … and every operator-specific literal carries the same binary-expression value as the generic one. -/
theorem C06_wiring_operators :
    ((nodeLits.filter (fun l => l.tsTypes == ["binary_expression"])).all (fun l =>
      l.wiring == [("Name", "node.Content(sourceCode)"), ("isJavaSourceFile", "isJavaSourceFile"), ("BinaryExpr", "&expressionNode")])) = true := by
  decide

/-! ### lists of any length -/

/-- children of a delimited list: `open item (sep item)* close`, punctuation unnamed -/
def delimited (openT sepT closeT : T) (items : List T) : List T :=
  openT :: (match items with
    | [] => []
    | i :: rest => i :: rest.flatMap (fun x => [sepT, x])) ++ [closeT]

theorem named_delimited (openT sepT closeT : T) (items : List T)
    (ho : openT.named = false) (hs : sepT.named = false) (hc : closeT.named = false) (hi : ∀ i ∈ items, i.named = true) :
    (delimited openT sepT closeT items).filter (·.named) = items := by
  unfold delimited
  simp only [List.filter_cons, ho, List.filter_append, hc, Bool.false_eq_true, ↓reduceIte, List.filter_nil, List.append_nil]
  cases items with
  | nil => rfl
  | cons i rest =>
      have h1 : i.named = true := hi i (by simp)
      simp only [List.filter_cons, h1, ↓reduceIte]
      congr 1
      induction rest with
      | nil => rfl
      | cons x xs ih =>
          have hx : x.named = true := hi x (by simp)
          simp only [List.flatMap_cons, List.filter_append, List.filter_cons, hs, hx, Bool.false_eq_true, ↓reduceIte, List.filter_nil,
            List.nil_append, List.cons_append]
          rw [ih (fun j hj => hi j (by
            rcases List.mem_cons.1 hj with rfl | hj
            · simp
            · simp [hj]))]

def unquote (b : Bytes) : Bytes := trimSuffixB (trimPrefixB b (str "\"")) (str "\"")

/-- **C06 (call arguments)**: for a call whose only `argument_list` child is `( a₁ , … , aₙ )` (any n ≥ 0) the
    extracted arguments are the argument texts in order, string literals unquoted — no punctuation. -/
theorem C06_call_args (src : Bytes) (n al : T) (front : List T) (hn : n.children = front ++ [al])
    (hfront : ∀ c ∈ front, c.ty ≠ "argument_list") (hal : al.ty = "argument_list")
    (openT sepT closeT : T) (args : List T) (hch : al.children = delimited openT sepT closeT args)
    (ho : openT.named = false) (hs : sepT.named = false) (hc : closeT.named = false) (hi : ∀ i ∈ args, i.named = true) :
    callArgs n src
      = args.map (fun a => if a.ty = "string_literal" then unquote (a.content src) else a.content src) := by
  unfold callArgs
  have hf : front.filter (fun c => c.ty = "argument_list") = [] := by
    rw [List.filter_eq_nil_iff]
    intro c hc'
    simpa using hfront c hc'
  rw [hn, List.filter_append, hf, List.nil_append]
  have h1 : [al].filter (fun c => decide (c.ty = "argument_list")) = [al] := by simp [hal]
  rw [h1]
  simp only [List.flatMap_cons, List.flatMap_nil, List.append_nil, T.namedChildren]
  rw [hch, named_delimited openT sepT closeT args ho hs hc hi]
  rfl

/-- the recorded finding, as a fact about the model: the statement list of `{ s }` starts with `{` -/
theorem C06_block_includes_braces :
    blockStmts (T.mk "block" "" 0 4 0 0 true [T.mk "{" "" 0 1 0 0 false [], T.mk "expression_statement" "" 1 3 0 1 true [],
                                              T.mk "}" "" 3 4 0 3 false []]) [123, 120, 59, 125]
      = [[123], [120, 59], [125]] := by decide

/-- Non-vacuity of `C06_call_args`: `f(a, "s")` -/
example :
    callArgs (T.mk "method_invocation" "" 0 9 0 0 true
      [T.mk "identifier" "name" 0 1 0 0 true [],
       T.mk "argument_list" "arguments" 1 9 0 1 true
        (delimited (T.mk "(" "" 1 2 0 1 false []) (T.mk "," "" 3 4 0 3 false []) (T.mk ")" "" 8 9 0 8 false [])
          [T.mk "identifier" "" 2 3 0 2 true [], T.mk "string_literal" "" 5 8 0 5 true []])])
      [102, 40, 97, 44, 32, 34, 115, 34, 41]
      = [[97], [115]] := by decide

end Cpf.Props.C06
