/-
  Model of antlr/listener_impl.go: the walk of CustomQueryListener over a parse tree,
  producing what parser.ParseQuery returns. Mirrors the code *as it is now* (after the fix: commits
  recorded in known_findings.json): the condition text comes from the WHERE sub-tree
  (`conditionText`), arguments are attributed to aliases by equality, a missing argument list is ok.
  A mandatory child that is absent is a Go nil dereference: `Outcome.panic`.
-/
import Cpf.Query.Ebnf
import Cpf.Go.Outcome
import Cpf.Go.Str

namespace Cpf.Query
open Cpf.Go

structure Param where
  name : String
  type : String
  deriving Repr, DecidableEq, Inhabited

structure Predicate where
  name   : String
  params : List Param
  body   : String
  deriving Repr, DecidableEq, Inhabited

structure Invocation where
  name    : String
  args    : List Param
  matched : Predicate        -- the zero value when no declaration matches
  deriving Repr, DecidableEq, Inhabited

structure SelectItem where
  entity : String
  alias  : String
  deriving Repr, DecidableEq, Inhabited

structure SelectOut where
  text : String
  ty   : String              -- "variable" | "method_chain" | "string"
  deriving Repr, DecidableEq, Inhabited

structure ParsedQuery where
  selectList   : List SelectItem := []
  expression   : String := ""
  condition    : List String := []
  predicates   : List Predicate := []
  invocations  : List Invocation := []
  selectOutput : List SelectOut := []
  deriving Repr, DecidableEq, Inhabited

structure LState extends ParsedQuery where
  inDecl : Bool := false
  deriving Repr

/- `conditionText`: token texts concatenated, `||` and `&&` set off by spaces. -/
mutual
def conditionText : PT → String
  | .leaf t => if t.text = "||" ∨ t.text = "&&" then " " ++ t.text ++ " " else t.text
  | .node _ cs => conditionTextList cs
def conditionTextList : List PT → String
  | [] => ""
  | c :: cs => conditionText c ++ conditionTextList cs
end

def need (o : Option PT) (what : String) : Outcome PT :=
  match o with
  | some p => .ok p
  | none => .panic ("nil dereference: " ++ what)

def firstLeaf? (p : PT) (k : String) : Option PT := p.children.find? (PT.isTok k)

/-- `inferExpressionType`: the FROM item whose alias *is* the (trimmed) argument. -/
def inferArg (sel : List SelectItem) (arg : String) : Option Param :=
  let a := String.ofList (Str.trimSpace arg.toList)
  (sel.find? (fun e => a = e.alias)).map (fun e => { name := e.alias, type := e.entity })

def extractArguments (sel : List SelectItem) (args : List String) : List Param :=
  args.filterMap (inferArg sel)

def paramTypesMatch : List Param → List Param → Bool
  | [], [] => true
  | p :: ps, a :: as => p.type == a.type && paramTypesMatch ps as
  | _, _ => false

/-- `matchPredicate`: exactly one declared predicate with that name, arity and parameter types. -/
def matchPredicate (decls : List Predicate) (name : String) (args : List Param) : Option Predicate :=
  match (decls.filter (fun p => p.name == name)).filter (fun p => paramTypesMatch p.params args) with
  | [p] => some p
  | _ => none

def enterRule (p : PT) (s : LState) : Outcome LState :=
  match p with
  | .leaf _ => .ok s
  | .node rule cs =>
    if rule = "query" then
      match p.child? "expression" with
      | some e => .ok { s with expression := s.expression ++ conditionText e }
      | none => .ok s
    else if rule = "select_expression" then
      let ty :=
        match cs with
        | c :: _ => if c.isRule "variable" then "variable" else if c.isRule "method_chain" then "method_chain"
                    else if c.isTok "STRING" then "string" else ""
        | [] => ""
      .ok { s with selectOutput := s.selectOutput ++ [{ text := p.text, ty := ty }] }
    else if rule = "select_list" then do
      let items ← (p.childrenOf "select_item").mapM (fun it => do
        let e ← need (it.child? "entity") "select_item.Entity()"
        let a ← need (it.child? "alias") "select_item.Alias()"
        pure ({ entity := e.text, alias := a.text } : SelectItem))
      .ok { s with selectList := s.selectList ++ items }
    else if rule = "predicate_invocation" then do
      let n ← need (p.child? "predicate_name") "predicate_invocation.Predicate_name()"
      let params := match p.child? "argument_list" with
        | some a => a.text
        | none => ""
      let parts := (Str.splitChar ',' params.toList).map String.ofList
      let args := extractArguments s.selectList parts
      let m := (matchPredicate s.predicates n.text args).getD default
      .ok { s with invocations := s.invocations ++ [{ name := n.text, args := args, matched := m }] }
    else if rule = "predicate_declaration" then do
      let n ← need (p.child? "predicate_name") "predicate_declaration.Predicate_name()"
      let params ← match p.child? "parameter_list" with
        | none => pure []
        | some pl => (pl.childrenOf "parameter").mapM (fun q => do
            let ty ← need (q.child? "type") "parameter.Type_()"
            let id ← need (firstLeaf? q "IDENTIFIER") "parameter.IDENTIFIER()"
            pure ({ name := id.text, type := ty.text } : Param))
      let body ← need (p.child? "expression") "predicate_declaration.Expression()"
      .ok { s with inDecl := true, predicates := s.predicates ++ [{ name := n.text, params := params, body := body.text }] }
    else if rule = "equalityExpression" ∨ rule = "relationalExpression" then
      if cs.length > 1 ∧ ¬ s.inDecl then .ok { s with condition := s.condition ++ [p.text] } else .ok s
    else .ok s

def exitRule (p : PT) (s : LState) : LState :=
  if p.isRule "predicate_declaration" then { s with inDecl := false } else s

/- `antlr.ParseTreeWalkerDefault.Walk` -/
mutual
def walk : PT → LState → Outcome LState
  | .leaf _, s => .ok s
  | .node r cs, s => do
      let s1 ← enterRule (.node r cs) s
      let s2 ← walkList cs s1
      pure (exitRule (.node r cs) s2)
def walkList : List PT → LState → Outcome LState
  | [], s => .ok s
  | c :: cs, s => do
      let s1 ← walk c s
      walkList cs s1
end

/-- `parser.ParseQuery` on a token list: syntax errors are diagnostics. -/
def parseQueryTokens (g : Grammar) (start : String) (ts : List Token) : Outcome ParsedQuery :=
  match (parsesOf g (fuelFor ts) start ts).head? with
  | none => .diag "syntax error"
  | some tree => do
      let s ← walk tree {}
      pure s.toParsedQuery

/-- `parser.ParseQuery` on characters (lexer errors are syntax errors). -/
def parseQuery (rules : List LexRule) (g : Grammar) (start : String) (cs : List Char) : Outcome ParsedQuery :=
  match lex rules cs with
  | (ts, 0) => parseQueryTokens g start ts
  | (_, _ + 1) => .diag "token recognition error"

end Cpf.Query
