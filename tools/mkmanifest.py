#!/usr/bin/env python3
"""Writes MANIFEST.json from the table below (kept as code so the per-property texts live in one place)."""
import json, subprocess
CHECKS = {}
def add(pid, technique, text, note, ref):
    CHECKS[pid] = dict(technique=technique, text=text, note=note, ref=ref)

COMMON_NOTE = ("Trusted: Lean 4.33 kernel + propext/Classical.choice/Quot.sound (audited per theorem every run); tools/factgen and "
               "tools/g4gen.py (regenerate Lean tables from /repo each run); the correspondence harness (differential, sampled); "
               "modelled-not-verified libraries listed in DESIGN.md §8.")

add("C19", "Lean 4 proof by `decide` over tables regenerated from the Go source on every run (go/ast extractor) + exhaustive CLI-level queries of every observed kind",
    "Machine-checked theorems (Cpf.Props.C19) state that every kind a `&Node{}` literal of buildGraphFromAST can produce has a `case` in generateProxyEnv, an accessor table with toString, and only accessors that are defined and nil-safe for that kind. The tables are re-extracted from /repo each run, so the theorems are about the current source; the kitchen-sink scan ties 'kinds in the source' to 'kinds observed' and exercises every kind through the real processQuery.",
    COMMON_NOTE, "DESIGN.md §6 C19")

add("C01", "Lean 4 refinement proof of the engine model (induction over the FROM fold) + differential run of model and real QueryEntities on real atom tables + independent reference evaluation",
    "Theorem C01_complete: for every graph, FROM list, condition shape and atom meaning, every combination in the cross product on which the condition is true is in queryEntities' result (the model mirrors graph/query.go after the fix that removed the unsound narrowing). The model is tied to the code by running both on the same queries: the real expr-lang environment supplies each atom's value per combination, the Lean driver predicts the composite result, and a generator-side reference evaluation (predicates inlined by the generator) is the oracle for missed matches. Condition shapes are enumerated exhaustively to a fixed depth over 3 atoms; random deeper queries with predicates, two entities, keyword-bearing literals.",
    COMMON_NOTE + " expr-lang's evaluation of an atom is opaque to the model (atoms are parameters); its parser is assumed to agree with Query.g4 on ||, &&, ! precedence (validated differentially).", "DESIGN.md §6 C01")
add("C02", "Lean 4 proof (soundness, duplicate-freeness by induction over the product fold, no-WHERE = cross product) + the same differential sweep judged for spurious / duplicated / wrongly-typed combinations",
    "Theorems C02_sound, C02_nodup, C02_no_where(_mem), C02_compile_error over the engine model, for all graphs/queries/atom meanings. Tie and oracle as for C01; additionally every reported combination is checked to consist of existing entities of the FROM kinds in FROM order, and multiplicities are compared (multisets).",
    COMMON_NOTE, "DESIGN.md §6 C02")
add("C11", "Lean 4 proof that the list-of-successes recogniser is sound and complete for the inductive derivation relation of an arbitrary EBNF grammar (the grammar is regenerated from Query.g4 each run) + exhaustive differential vs ANTLR and vs an independent Earley recogniser",
    "parse_sound / parse_complete are proved once for every grammar (functional induction / induction on derivations), so editing Query.g4 re-proves; C11_accept_iff, C11_reject_partial, C11_lex_error state acceptance = membership and diagnostics otherwise. ANTLR's generated parser cannot be translated, so it is tied exhaustively: every sentence up to N tokens over a reduced alphabet and single-token edits are run through the real ParseQuery, the Lean model and an independent Python lexer+Earley recogniser (oracle); structure (FROM items, SELECT kinds, predicates) is compared on random laid-out queries against what the generator wrote.",
    COMMON_NOTE + " Gap stated in Lean (C11_full): completeness for the driver's fixed fuel needs a derivation-height bound that is not proved.", "DESIGN.md §6 C11")
add("C12", "Lean 4 proof of the set laws on the engine model (and unconditional; or/not where the operand does not fail; De Morgan, absorption, distribution, double negation unconditional; counter-example theorems for the full or/not statements) + metamorphic set-law check on real results",
    "C12_and, C12_or_partial, C12_not_partial, C12_equiv and the equivalence instances hold for all graphs, FROM lists and atom meanings, including atoms outside any reference fragment. The full or/not laws are refuted in Lean by a witness and on the implementation by a replay (recorded finding C12:runtime-error-in-operand). The check evaluates related queries on the real engine and verifies the laws on the real result sets, and runs all of them through the Lean model.",
    COMMON_NOTE, "DESIGN.md §6 C12")

def main():
    hooks_commits = subprocess.run(["git", "-C", "/repo", "log", "--format=%H %s", "--grep=^verif:"], capture_output=True, text=True).stdout.strip().splitlines()
    m = dict(
        version=1,
        setup_cmd="cd /verif && ./setup.sh",
        hooks=dict(guard="verif (Go build tag)",
                   enable="go build -tags verif (harness module /verif/harness with replace => /repo/sourcecode-parser)",
                   baseline_off_cmd="/verif/tools/baseline.sh",
                   source_commits=[l.split()[0] for l in hooks_commits],
                   add_only=True),
        engines=[dict(name="lean-model", path="/verif/lean", serves_properties=sorted(CHECKS), kind_free_text="Lean 4 model + theorems (core only), regenerated tables, native driver"),
                 dict(name="harness", path="/verif/harness", serves_properties=sorted(CHECKS), kind_free_text="Go harness calling the real functions in-process (-tags verif)"),
                 dict(name="check", path="/verif/check.py", serves_properties=sorted(CHECKS), kind_free_text="orchestrator: build, factgen, lake build + axiom audit, correspondence, oracle search, evidence")],
        checks=[],
        notes="See DESIGN.md. Every check: ./check <id> quick|thorough. known_findings.json lists recorded defects and fixed ones.",
        not_applicable=[],
    )
    for pid in sorted(CHECKS):
        c = CHECKS[pid]
        m["checks"].append(dict(
            property_id=pid, quick_cmd="./check %s quick" % pid, thorough_cmd="./check %s thorough" % pid,
            evidence_file="/verif/evidence/%s.json" % pid, replay_cmd_template="./check --replay {path}",
            engine="lean-model", level_claimed=dict(category="proof", text=c["text"], design_ref=c["ref"]),
            level_note=c["note"], technique=c["technique"]))
    json.dump(m, open("/verif/MANIFEST.json", "w"), indent=1)

if __name__ == "__main__":
    main()
