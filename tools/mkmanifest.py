#!/usr/bin/env python3
"""Writes MANIFEST.json from the table below (kept as code so the per-property texts live in one place)."""
import json, subprocess
CHECKS = {}
def add(pid, technique, text, note, ref):
    CHECKS[pid] = dict(technique=technique, text=text, note=note, ref=ref)

COMMON_NOTE = ("Trusted: Lean 4.33 kernel + propext/Classical.choice/Quot.sound (audited per theorem every run); tools/factgen and "
               "tools/g4gen.py (regenerate Lean tables from /repo each run); the correspondence harness (differential, sampled); "
               "modelled-not-verified libraries listed in DESIGN.md §8.")

add("C19", "Lean 4 proof by `decide` over tables regenerated from the Go source on every run (go/ast extractor) + exhaustive CLI-level queries of every observed kind",
    "Machine-checked theorems (Cpf.Props.C19) state that every kind a `&Node{}` literal of buildGraphFromAST can produce has a `case` in generateProxyEnv, an accessor table with toString, and only accessors that are defined and nil-safe for that kind. The tables are re-extracted from /repo each run, so the theorems are about the current source; the kitchen-sink scan ties 'kinds in the source' to 'kinds observed' and exercises every kind through the real processQuery.",
    COMMON_NOTE, "DESIGN.md §6 C19")

def main():
    hooks_commits = subprocess.run(["git", "-C", "/repo", "log", "--format=%H %s", "--grep=^verif:"], capture_output=True, text=True).stdout.strip().splitlines()
    m = dict(
        version=1,
        setup_cmd="cd /verif && ./setup.sh",
        hooks=dict(guard="verif (Go build tag)",
                   enable="go build -tags verif (harness module /verif/harness with replace => /repo/sourcecode-parser)",
                   baseline_off_cmd="/verif/tools/baseline.sh",
                   source_commits=[l.split()[0] for l in hooks_commits],
                   add_only=True),
        engines=[dict(name="lean-model", path="/verif/lean", serves_properties=sorted(CHECKS), kind_free_text="Lean 4 model + theorems (core only), regenerated tables, native driver"),
                 dict(name="harness", path="/verif/harness", serves_properties=sorted(CHECKS), kind_free_text="Go harness calling the real functions in-process (-tags verif)"),
                 dict(name="check", path="/verif/check.py", serves_properties=sorted(CHECKS), kind_free_text="orchestrator: build, factgen, lake build + axiom audit, correspondence, oracle search, evidence")],
        checks=[],
        notes="See DESIGN.md. Every check: ./check <id> quick|thorough. known_findings.json lists recorded defects and fixed ones.",
        not_applicable=[],
    )
    for pid in sorted(CHECKS):
        c = CHECKS[pid]
        m["checks"].append(dict(
            property_id=pid, quick_cmd="./check %s quick" % pid, thorough_cmd="./check %s thorough" % pid,
            evidence_file="/verif/evidence/%s.json" % pid, replay_cmd_template="./check --replay {path}",
            engine="lean-model", level_claimed=dict(category="proof", text=c["text"], design_ref=c["ref"]),
            level_note=c["note"], technique=c["technique"]))
    json.dump(m, open("/verif/MANIFEST.json", "w"), indent=1)

if __name__ == "__main__":
    main()
