// factgen: re-derives tables from /repo's working tree and emits them as Lean data.
//
// It is the "regenerated" half of the tie between the Lean model and the Go source
// (DESIGN.md §2.2). It uses go/ast only; when it meets a shape it does not understand it
// fails loudly (non-zero exit), which the check treats as a broken tie.
//
// usage: factgen <repo-root> <out-dir>
package main

import (
	"bytes"
	"crypto/sha256"
	"encoding/hex"
	"encoding/json"
	"fmt"
	"go/ast"
	"go/parser"
	"go/printer"
	"go/token"
	"os"
	"path/filepath"
	"regexp"
	"sort"
	"strconv"
	"strings"
)

var fset = token.NewFileSet()

func die(format string, a ...interface{}) {
	fmt.Fprintf(os.Stderr, "factgen: "+format+"\n", a...)
	os.Exit(2)
}

func parseFile(path string) *ast.File {
	f, err := parser.ParseFile(fset, path, nil, parser.ParseComments)
	if err != nil {
		die("cannot parse %s: %v", path, err)
	}
	return f
}

func findFunc(f *ast.File, name string) *ast.FuncDecl {
	for _, d := range f.Decls {
		if fd, ok := d.(*ast.FuncDecl); ok && fd.Name.Name == name {
			return fd
		}
	}
	return nil
}

func src(n ast.Node) string {
	var b bytes.Buffer
	if err := printer.Fprint(&b, fset, n); err != nil {
		die("print: %v", err)
	}
	// normalise whitespace
	return strings.Join(strings.Fields(b.String()), " ")
}

func strLit(e ast.Expr) (string, bool) {
	if bl, ok := e.(*ast.BasicLit); ok && bl.Kind == token.STRING {
		s, err := strconv.Unquote(bl.Value)
		if err == nil {
			return s, true
		}
	}
	return "", false
}

// ---------- Lean emission helpers ----------

func leanStr(s string) string {
	var b strings.Builder
	b.WriteByte('"')
	for _, r := range s {
		switch {
		case r == '"':
			b.WriteString("\\\"")
		case r == '\\':
			b.WriteString("\\\\")
		case r == '\n':
			b.WriteString("\\n")
		case r == '\t':
			b.WriteString("\\t")
		case r == '\r':
			b.WriteString("\\r")
		case r < 0x20 || r == 0x7f:
			b.WriteString(fmt.Sprintf("\\x%02x", r))
		default:
			b.WriteRune(r)
		}
	}
	b.WriteByte('"')
	return b.String()
}

func leanStrList(xs []string) string {
	parts := make([]string, len(xs))
	for i, x := range xs {
		parts[i] = leanStr(x)
	}
	return "[" + strings.Join(parts, ", ") + "]"
}

// ---------- F-kinds / F-fields / F-ids : Node literals in buildGraphFromAST ----------

type NodeLit struct {
	TsTypes  []string          // outer case labels (tree-sitter node types)
	Ops      []string          // inner case labels (operator types), empty if none
	Kind     string            // Type: "..."
	Fields   []string          // keys set in the literal, in order
	Exprs    map[string]string // key -> normalised source of the value (after inlining straight-line locals)
	RawExprs map[string]string // key -> normalised source of the value as written
	IDFmt    []IDAtom
	Guard    string // extra if-condition around the literal inside the case ("" if none)
	Line     int
	AddNoded bool // literal variable is passed to graph.AddNode in the same clause
}

// IDAtom is one piece of the pre-image of an entity identity.
type IDAtom struct {
	Tag string // lit | row | col | file | content | opaque | strlist
	Arg string
	Sub []IDAtom // for strlist: the elements
}

type symEnv map[string]ast.Expr

// collectAssignments walks top-level statements (not nested in for/if/switch) of a block and
// records single straight-line definitions; variables assigned anywhere else are left unresolved.
func collectAssignments(stmts []ast.Stmt, env symEnv, multi map[string]bool) {
	for _, st := range stmts {
		switch s := st.(type) {
		case *ast.AssignStmt:
			if len(s.Lhs) == len(s.Rhs) {
				for i, l := range s.Lhs {
					id, ok := l.(*ast.Ident)
					if !ok {
						continue
					}
					switch s.Tok {
					case token.DEFINE, token.ASSIGN:
						if _, seen := env[id.Name]; seen {
							// second straight-line assignment: keep the latest, substituting is still sound
							env[id.Name] = substitute(s.Rhs[i], env)
						} else {
							env[id.Name] = substitute(s.Rhs[i], env)
						}
					case token.ADD_ASSIGN:
						prev, ok := env[id.Name]
						if !ok {
							prev = ast.NewIdent(id.Name)
						}
						env[id.Name] = &ast.BinaryExpr{X: prev, Op: token.ADD, Y: substitute(s.Rhs[i], env)}
					default:
						multi[id.Name] = true
					}
				}
			} else if len(s.Rhs) == 1 {
				// tuple assignment from a call: name, id := f(...)
				for i, l := range s.Lhs {
					if id, ok := l.(*ast.Ident); ok {
						env[id.Name] = &ast.IndexExpr{X: substitute(s.Rhs[0], env), Index: &ast.BasicLit{Kind: token.INT, Value: strconv.Itoa(i)}}
					}
				}
			}
		case *ast.DeclStmt:
			// var x T  -> unresolved
		default:
			// nested control flow: anything assigned inside becomes unresolved
			ast.Inspect(st, func(n ast.Node) bool {
				if as, ok := n.(*ast.AssignStmt); ok {
					for _, l := range as.Lhs {
						if id, ok := l.(*ast.Ident); ok && as.Tok != token.DEFINE {
							multi[id.Name] = true
						}
					}
				}
				return true
			})
		}
	}
}

// substitute replaces identifiers bound in env by their definitions (deep copy not needed: we only print).
func substitute(e ast.Expr, env symEnv) ast.Expr {
	switch x := e.(type) {
	case *ast.Ident:
		if d, ok := env[x.Name]; ok {
			return d
		}
		return x
	case *ast.BinaryExpr:
		return &ast.BinaryExpr{X: substitute(x.X, env), Op: x.Op, Y: substitute(x.Y, env)}
	case *ast.CallExpr:
		args := make([]ast.Expr, len(x.Args))
		for i, a := range x.Args {
			args[i] = substitute(a, env)
		}
		return &ast.CallExpr{Fun: x.Fun, Args: args}
	case *ast.CompositeLit:
		elts := make([]ast.Expr, len(x.Elts))
		for i, a := range x.Elts {
			elts[i] = substitute(a, env)
		}
		return &ast.CompositeLit{Type: x.Type, Elts: elts}
	case *ast.ParenExpr:
		return substitute(x.X, env)
	case *ast.IndexExpr:
		return &ast.IndexExpr{X: substitute(x.X, env), Index: x.Index}
	}
	return e
}

var extractMethodNameID ast.Expr // symbolic second result of extractMethodName
var visitorName string

func callName(c *ast.CallExpr) string {
	switch f := c.Fun.(type) {
	case *ast.Ident:
		return f.Name
	case *ast.SelectorExpr:
		return src(f)
	}
	return ""
}

// idAtoms translates a string-valued Go expression into pre-image atoms.
func idAtoms(e ast.Expr) []IDAtom {
	switch src(e) {
	case "node.StartPoint().Row + 1", "int(node.StartPoint().Row) + 1", "int(node.StartPoint().Row + 1)":
		return []IDAtom{{Tag: "row"}}
	case "node.StartPoint().Column + 1", "int(node.StartPoint().Column) + 1", "int(node.StartPoint().Column + 1)":
		return []IDAtom{{Tag: "col"}}
	}
	switch x := e.(type) {
	case *ast.ParenExpr:
		return idAtoms(x.X)
	case *ast.BasicLit:
		if s, ok := strLit(x); ok {
			return []IDAtom{{Tag: "lit", Arg: s}}
		}
	case *ast.Ident:
		switch x.Name {
		case "file", "filepath":
			return []IDAtom{{Tag: "file"}}
		}
		return []IDAtom{{Tag: "opaque", Arg: x.Name}}
	case *ast.BinaryExpr:
		if x.Op == token.ADD {
			return append(idAtoms(x.X), idAtoms(x.Y)...)
		}
	case *ast.CallExpr:
		name := callName(x)
		s := src(x)
		switch {
		case s == "node.Content(sourceCode)":
			return []IDAtom{{Tag: "content"}}
		case s == "node.StartPoint().Row + 1" || s == "int(node.StartPoint().Row) + 1" || s == "int(node.StartPoint().Row + 1)":
			return []IDAtom{{Tag: "row"}}
		case name == "strconv.Itoa" && len(x.Args) == 1:
			return idAtoms(x.Args[0])
		case name == "int" && len(x.Args) == 1:
			return idAtoms(x.Args[0])
		case name == "fmt.Sprintf" && len(x.Args) >= 1:
			f, ok := strLit(x.Args[0])
			if !ok {
				die("Sprintf with non-literal format at %s", fset.Position(x.Pos()))
			}
			return sprintfAtoms(f, x.Args[1:], x)
		case name == "GenerateMethodID" && len(x.Args) == 3:
			// fmt.Sprintf("%s-%s-%s", methodName, parameters, sourceFile); a []string prints as [a b c]
			out := idAtoms(x.Args[0])
			out = append(out, IDAtom{Tag: "lit", Arg: "-"})
			out = append(out, strListAtoms(x.Args[1])...)
			out = append(out, IDAtom{Tag: "lit", Arg: "-"})
			out = append(out, idAtoms(x.Args[2])...)
			return out
		case name == "GenerateSha256" && len(x.Args) == 1:
			return idAtoms(x.Args[0])
		}
	case *ast.IndexExpr:
		// tuple projection of a call result
		if c, ok := x.X.(*ast.CallExpr); ok && callName(c) == "extractMethodName" {
			if bl, ok := x.Index.(*ast.BasicLit); ok && bl.Value == "1" {
				if extractMethodNameID == nil {
					die("extractMethodName's id expression not resolved")
				}
				return idAtoms(extractMethodNameID)
			}
			return []IDAtom{{Tag: "opaque", Arg: "methodName"}}
		}
	}
	// row / col expressions written as binary expressions
	s := src(e)
	switch s {
	case "node.StartPoint().Row + 1", "int(node.StartPoint().Row) + 1":
		return []IDAtom{{Tag: "row"}}
	case "node.StartPoint().Column + 1", "int(node.StartPoint().Column) + 1":
		return []IDAtom{{Tag: "col"}}
	case "node.StartPoint().Row", "node.StartPoint().Column":
		return []IDAtom{{Tag: "opaque", Arg: s}}
	}
	return []IDAtom{{Tag: "opaque", Arg: s}}
}

func strListAtoms(e ast.Expr) []IDAtom {
	if cl, ok := e.(*ast.CompositeLit); ok {
		sub := []IDAtom{}
		for _, el := range cl.Elts {
			sub = append(sub, IDAtom{Tag: "elem", Sub: idAtoms(el)})
		}
		return []IDAtom{{Tag: "strlist", Sub: sub}}
	}
	if id, ok := e.(*ast.Ident); ok {
		return []IDAtom{{Tag: "opaquelist", Arg: id.Name}}
	}
	return []IDAtom{{Tag: "opaquelist", Arg: src(e)}}
}

var verbRe = regexp.MustCompile(`%[dsvq]`)

func sprintfAtoms(format string, args []ast.Expr, at ast.Node) []IDAtom {
	var out []IDAtom
	idx := verbRe.FindAllStringIndex(format, -1)
	if len(idx) != len(args) {
		die("Sprintf verb/arg mismatch at %s", fset.Position(at.Pos()))
	}
	pos := 0
	for i, m := range idx {
		if m[0] > pos {
			out = append(out, IDAtom{Tag: "lit", Arg: format[pos:m[0]]})
		}
		out = append(out, idAtoms(args[i])...)
		pos = m[1]
	}
	if pos < len(format) {
		out = append(out, IDAtom{Tag: "lit", Arg: format[pos:]})
	}
	return out
}

func mergeLits(as []IDAtom) []IDAtom {
	var out []IDAtom
	for _, a := range as {
		if a.Tag == "lit" && len(out) > 0 && out[len(out)-1].Tag == "lit" {
			out[len(out)-1].Arg += a.Arg
			continue
		}
		out = append(out, a)
	}
	return out
}

func leanAtom(a IDAtom) string {
	switch a.Tag {
	case "lit":
		return ".lit " + leanStr(a.Arg)
	case "row":
		return ".row"
	case "col":
		return ".col"
	case "file":
		return ".file"
	case "content":
		return ".content"
	case "opaque":
		return ".opaque " + leanStr(a.Arg)
	case "opaquelist":
		return ".opaqueList " + leanStr(a.Arg)
	case "strlist":
		parts := []string{}
		for _, el := range a.Sub {
			sub := []string{}
			for _, s := range mergeLits(el.Sub) {
				sub = append(sub, leanAtom(s))
			}
			parts = append(parts, "["+strings.Join(sub, ", ")+"]")
		}
		return ".strList [" + strings.Join(parts, ", ") + "]"
	}
	die("unknown atom tag %s", a.Tag)
	return ""
}

// wiring renders which expression every attribute field of the literal is set from (ID and the location
// fields are reported separately).
func wiring(l NodeLit) string {
	parts := []string{}
	for _, f := range l.Fields {
		switch f {
		case "ID", "LineNumber", "CodeSnippet", "File", "Type":
			continue
		}
		parts = append(parts, fmt.Sprintf("(%s, %s)", leanStr(f), leanStr(l.RawExprs[f])))
	}
	return "[" + strings.Join(parts, ", ") + "]"
}

func resolveExtractMethodName(f *ast.File) {
	fd := findFunc(f, "extractMethodName")
	if fd == nil {
		die("extractMethodName not found")
	}
	env := symEnv{}
	multi := map[string]bool{}
	collectAssignments(fd.Body.List, env, multi)
	for k := range multi {
		delete(env, k)
	}
	// last statement must be `return methodName, methodID`
	ret, ok := fd.Body.List[len(fd.Body.List)-1].(*ast.ReturnStmt)
	if !ok || len(ret.Results) != 2 {
		die("extractMethodName: unexpected return shape")
	}
	extractMethodNameID = substitute(ret.Results[1], env)
}

func caseLabels(cc *ast.CaseClause) []string {
	var out []string
	for _, e := range cc.List {
		if s, ok := strLit(e); ok {
			out = append(out, s)
		} else {
			die("non-literal case label at %s", fset.Position(e.Pos()))
		}
	}
	return out
}

func nodeLiterals(f *ast.File) []NodeLit {
	// the visitor: the function (buildGraphFromAST or the one it delegates to) whose body switches on node.Type()
	var outer *ast.SwitchStmt
	visitor := ""
	for _, d := range f.Decls {
		fd, ok := d.(*ast.FuncDecl)
		if !ok || fd.Body == nil {
			continue
		}
		for _, st := range fd.Body.List {
			if sw, ok := st.(*ast.SwitchStmt); ok && src(sw.Tag) == "node.Type()" {
				if outer != nil {
					die("more than one function switches on node.Type(): %s and %s", visitor, fd.Name.Name)
				}
				outer = sw
				visitor = fd.Name.Name
			}
		}
	}
	if outer == nil {
		die("no function with `switch node.Type()` found in construct.go")
	}
	visitorName = visitor
	var lits []NodeLit
	for _, c := range outer.Body.List {
		cc := c.(*ast.CaseClause)
		ts := caseLabels(cc)
		env := symEnv{}
		multi := map[string]bool{}
		collectAssignments(cc.Body, env, multi)
		for k := range multi {
			delete(env, k)
		}
		var visit func(stmts []ast.Stmt, ops []string, guard string, env symEnv)
		visit = func(stmts []ast.Stmt, ops []string, guard string, env symEnv) {
			for _, st := range stmts {
				switch s := st.(type) {
				case *ast.SwitchStmt:
					for _, ic := range s.Body.List {
						icc := ic.(*ast.CaseClause)
						env2 := symEnv{}
						for k, v := range env {
							env2[k] = v
						}
						m2 := map[string]bool{}
						collectAssignments(icc.Body, env2, m2)
						for k := range m2 {
							delete(env2, k)
						}
						labels := []string{}
						if src(s.Tag) == "operatorType" {
							labels = caseLabels(icc)
						}
						visit(icc.Body, labels, guard, env2)
					}
				case *ast.IfStmt:
					env2 := symEnv{}
					for k, v := range env {
						env2[k] = v
					}
					m2 := map[string]bool{}
					collectAssignments(s.Body.List, env2, m2)
					for k := range m2 {
						delete(env2, k)
					}
					g := src(s.Cond)
					hasLit := false
					ast.Inspect(s.Body, func(n ast.Node) bool {
						if cl, ok := n.(*ast.CompositeLit); ok && src(cl.Type) == "Node" {
							hasLit = true
						}
						return true
					})
					if hasLit {
						visit(s.Body.List, ops, g, env2)
					}
				case *ast.AssignStmt:
					for i, r := range s.Rhs {
						ue, ok := r.(*ast.UnaryExpr)
						if !ok || ue.Op != token.AND {
							continue
						}
						cl, ok := ue.X.(*ast.CompositeLit)
						if !ok || src(cl.Type) != "Node" {
							continue
						}
						nl := NodeLit{TsTypes: ts, Ops: ops, Exprs: map[string]string{}, RawExprs: map[string]string{}, Guard: guard, Line: fset.Position(cl.Pos()).Line}
						var idExpr ast.Expr
						for _, el := range cl.Elts {
							kv := el.(*ast.KeyValueExpr)
							key := kv.Key.(*ast.Ident).Name
							nl.Fields = append(nl.Fields, key)
							val := substitute(kv.Value, env)
							nl.Exprs[key] = src(val)
							nl.RawExprs[key] = src(kv.Value)
							if key == "Type" {
								k, ok := strLit(kv.Value)
								if !ok {
									die("Node literal with non-literal Type at %s", fset.Position(kv.Pos()))
								}
								nl.Kind = k
							}
							if key == "ID" {
								idExpr = val
							}
						}
						if nl.Kind == "" || idExpr == nil {
							die("Node literal without Type or ID at %s", fset.Position(cl.Pos()))
						}
						nl.IDFmt = mergeLits(idAtoms(idExpr))
						// is it added to the graph?
						if id, ok := s.Lhs[i].(*ast.Ident); ok {
							want := "graph.AddNode(" + id.Name + ")"
							for _, st2 := range stmts {
								if es, ok := st2.(*ast.ExprStmt); ok && src(es.X) == want {
									nl.AddNoded = true
								}
							}
						}
						lits = append(lits, nl)
					}
				}
			}
		}
		visit(cc.Body, nil, "", env)
	}
	return lits
}

// ---------- F-env : generateProxyEnv ----------

type EnvFacts struct {
	Defaults  map[string]string      // variable -> default kind string
	VarOrder  []string               // declaration order
	Cases     [][2]string            // case label -> variable assigned entity.Alias
	MapKeys   []string               // env map keys that are variables (in order)
	Accessors map[string][][2]string // variable -> (accessor name, "method:GetX" | "lit:...")
	TopLevel  [][2]string            // literal-string keys of env map -> value
	Methods   map[string][]string    // Env method -> field chain after env.Node (deref path), all chains
	MethodRet map[string]string
}

func envFacts(f *ast.File) EnvFacts {
	ef := EnvFacts{Defaults: map[string]string{}, Accessors: map[string][][2]string{}, Methods: map[string][]string{}, MethodRet: map[string]string{}}
	fd := findFunc(f, "generateProxyEnv")
	if fd == nil {
		die("generateProxyEnv not found")
	}
	for _, st := range fd.Body.List {
		switch s := st.(type) {
		case *ast.AssignStmt:
			if s.Tok == token.DEFINE && len(s.Lhs) == 1 && len(s.Rhs) == 1 {
				id := s.Lhs[0].(*ast.Ident).Name
				if v, ok := strLit(s.Rhs[0]); ok {
					ef.Defaults[id] = v
					ef.VarOrder = append(ef.VarOrder, id)
					continue
				}
				if cl, ok := s.Rhs[0].(*ast.CompositeLit); ok && id == "env" {
					for _, el := range cl.Elts {
						kv := el.(*ast.KeyValueExpr)
						if ks, ok := strLit(kv.Key); ok {
							ef.TopLevel = append(ef.TopLevel, [2]string{ks, src(kv.Value)})
							continue
						}
						kid, ok := kv.Key.(*ast.Ident)
						if !ok {
							die("env map key of unknown shape at %s", fset.Position(kv.Pos()))
						}
						ef.MapKeys = append(ef.MapKeys, kid.Name)
						inner, ok := kv.Value.(*ast.CompositeLit)
						if !ok {
							die("env map value of unknown shape at %s", fset.Position(kv.Pos()))
						}
						for _, iel := range inner.Elts {
							ikv := iel.(*ast.KeyValueExpr)
							an, ok := strLit(ikv.Key)
							if !ok {
								die("accessor name not a literal at %s", fset.Position(ikv.Pos()))
							}
							var val string
							if sel, ok := ikv.Value.(*ast.SelectorExpr); ok && src(sel.X) == "proxyenv" {
								val = "method:" + sel.Sel.Name
							} else if lv, ok := strLit(ikv.Value); ok {
								val = "lit:" + lv
							} else {
								die("accessor value of unknown shape at %s", fset.Position(ikv.Pos()))
							}
							ef.Accessors[kid.Name] = append(ef.Accessors[kid.Name], [2]string{an, val})
						}
					}
				}
			}
		case *ast.RangeStmt:
			if len(s.Body.List) != 1 {
				die("generateProxyEnv: the loop over the FROM items holds more than the switch on the kind (%d statements): unknown shape", len(s.Body.List))
			}
			if _, ok := s.Body.List[0].(*ast.SwitchStmt); !ok {
				die("generateProxyEnv: the loop over the FROM items is not a single switch: unknown shape")
			}
			ast.Inspect(s, func(n ast.Node) bool {
				sw, ok := n.(*ast.SwitchStmt)
				if !ok {
					return true
				}
				for _, c := range sw.Body.List {
					cc := c.(*ast.CaseClause)
					if len(cc.Body) != 1 {
						die("generateProxyEnv case body of unknown shape at %s", fset.Position(cc.Pos()))
					}
					as, ok := cc.Body[0].(*ast.AssignStmt)
					if !ok || src(as.Rhs[0]) != "entity.Alias" {
						die("generateProxyEnv case body of unknown shape at %s", fset.Position(cc.Pos()))
					}
					for _, l := range caseLabels(cc) {
						ef.Cases = append(ef.Cases, [2]string{l, as.Lhs[0].(*ast.Ident).Name})
					}
				}
				return false
			})
		}
	}
	// Env methods
	for _, d := range f.Decls {
		fd, ok := d.(*ast.FuncDecl)
		if !ok || fd.Recv == nil || len(fd.Recv.List) != 1 || src(fd.Recv.List[0].Type) != "*Env" {
			continue
		}
		chains := map[string]bool{}
		ast.Inspect(fd.Body, func(n ast.Node) bool {
			sel, ok := n.(*ast.SelectorExpr)
			if !ok {
				return true
			}
			s := src(sel)
			if strings.HasPrefix(s, "env.Node.") {
				chains[strings.TrimPrefix(s, "env.Node.")] = true
			}
			return true
		})
		var cs []string
		for c := range chains {
			cs = append(cs, c)
		}
		sort.Strings(cs)
		// keep only maximal chains' pointer prefixes: a chain A.B.C dereferences A and A.B
		ef.Methods[fd.Name.Name] = cs
		if fd.Type.Results != nil && len(fd.Type.Results.List) == 1 {
			ef.MethodRet[fd.Name.Name] = src(fd.Type.Results.List[0].Type)
		}
	}
	return ef
}

// pointer-typed fields of Node (so that a deref of them can be nil)
func nodePointerFields(f *ast.File) []string {
	var out []string
	for _, d := range f.Decls {
		gd, ok := d.(*ast.GenDecl)
		if !ok {
			continue
		}
		for _, sp := range gd.Specs {
			ts, ok := sp.(*ast.TypeSpec)
			if !ok || ts.Name.Name != "Node" {
				continue
			}
			st := ts.Type.(*ast.StructType)
			for _, fl := range st.Fields.List {
				if _, ok := fl.Type.(*ast.StarExpr); ok {
					for _, n := range fl.Names {
						out = append(out, n.Name)
					}
				}
			}
		}
	}
	return out
}

// ---------- F-pool : Initialize ----------

type PoolFacts struct {
	NumWorkers           string
	Chans                [][2]string // name -> capacity expression
	Order                []string    // program order of the main goroutine's phases
	WorkerSends          []string    // channel sends inside the worker loop, in order
	ContinueBeforeResult bool
	NumWorkersNat        int
	Worker               []string // control shape of the worker function (see shape)
	Sender               []string // control shape of the queueing loop
	Status               []string // control shape of the status goroutine
	Closer               []string // control shape of the closer goroutine
	Collect              []string // control shape of the collecting loop (channel operations only)
}

// shape translates a statement list into the sequence of its concurrency-relevant operations:
// sends, receives, closes, wg calls, defers of those, and the control flow around them
// (range/for/select/if with continue, break, return). Everything else is dropped.
func shape(stmts []ast.Stmt) []string {
	var out []string
	for _, st := range stmts {
		out = append(out, shapeStmt(st)...)
	}
	return out
}

func interestingCall(e ast.Expr) (string, bool) {
	c, ok := e.(*ast.CallExpr)
	if !ok {
		if u, ok := e.(*ast.UnaryExpr); ok && u.Op == token.ARROW {
			return "recv:" + src(u.X), true
		}
		return "", false
	}
	n := src(c.Fun)
	switch {
	case n == "close" && len(c.Args) == 1:
		return "close:" + src(c.Args[0]), true
	case strings.HasPrefix(n, "wg."):
		return "call:" + src(c), true
	case n == "panic" || n == "os.Exit" || n == "log.Fatal" || n == "log.Fatalf" || n == "runtime.Goexit":
		return "abort:" + n, true
	}
	return "", false
}

func wrap(kind string, inner []string) []string {
	if len(inner) == 0 {
		return nil
	}
	return []string{kind + "[" + strings.Join(inner, " ") + "]"}
}

func shapeStmt(st ast.Stmt) []string {
	switch s := st.(type) {
	case *ast.SendStmt:
		return []string{"send:" + src(s.Chan)}
	case *ast.ExprStmt:
		if t, ok := interestingCall(s.X); ok {
			return []string{t}
		}
	case *ast.AssignStmt:
		var out []string
		for _, r := range s.Rhs {
			if t, ok := interestingCall(r); ok {
				out = append(out, t)
			}
		}
		return out
	case *ast.DeferStmt:
		if t, ok := interestingCall(s.Call); ok {
			return []string{"defer-" + t}
		}
	case *ast.BranchStmt:
		return []string{s.Tok.String()}
	case *ast.ReturnStmt:
		return []string{"return"}
	case *ast.GoStmt:
		return []string{"go"}
	case *ast.BlockStmt:
		return shape(s.List)
	case *ast.IfStmt:
		out := wrap("if", shape(s.Body.List))
		if s.Else != nil {
			out = append(out, wrap("else", shapeStmt(s.Else))...)
		}
		return out
	case *ast.RangeStmt:
		x := src(s.X)
		inner := shape(s.Body.List)
		if _, isChan := chanNames[x]; isChan {
			return append(append([]string{"range:" + x}, inner...), "end-range")
		}
		return wrap("loop", inner)
	case *ast.ForStmt:
		if s.Cond == nil {
			return append(append([]string{"forever"}, shape(s.Body.List)...), "end-forever")
		}
		return wrap("loop", shape(s.Body.List))
	case *ast.SelectStmt:
		var out []string
		for _, cc := range s.Body.List {
			c := cc.(*ast.CommClause)
			head := "default"
			if c.Comm != nil {
				hs := shapeStmt(c.Comm)
				head = strings.Join(hs, " ")
			}
			out = append(out, "case("+head+")["+strings.Join(shape(c.Body), " ")+"]")
		}
		return append(append([]string{"select"}, out...), "end-select")
	case *ast.SwitchStmt:
		return wrap("switch", shape(s.Body.List))
	case *ast.CaseClause:
		return shape(s.Body)
	case *ast.LabeledStmt:
		return shapeStmt(s.Stmt)
	}
	return nil
}

var chanNames = map[string]bool{}

func poolFacts(f *ast.File) PoolFacts {
	var pf PoolFacts
	fd := findFunc(f, "Initialize")
	if fd == nil {
		die("Initialize not found")
	}
	ast.Inspect(fd.Body, func(n ast.Node) bool {
		if a, ok := n.(*ast.AssignStmt); ok && len(a.Lhs) == 1 && len(a.Rhs) == 1 {
			if c, ok := a.Rhs[0].(*ast.CallExpr); ok && callName(c) == "make" {
				if _, ok := c.Args[0].(*ast.ChanType); ok {
					chanNames[src(a.Lhs[0])] = true
				}
			}
		}
		return true
	})
	for _, st := range fd.Body.List {
		switch s := st.(type) {
		case *ast.AssignStmt:
			if len(s.Lhs) == 1 && len(s.Rhs) == 1 {
				name := src(s.Lhs[0])
				if name == "numWorkers" {
					pf.NumWorkers = src(s.Rhs[0])
					pf.NumWorkersNat, _ = strconv.Atoi(pf.NumWorkers)
				}
				if c, ok := s.Rhs[0].(*ast.CallExpr); ok && callName(c) == "make" {
					if _, ok := c.Args[0].(*ast.ChanType); ok {
						capExpr := "0"
						if len(c.Args) > 1 {
							capExpr = src(c.Args[1])
						}
						pf.Chans = append(pf.Chans, [2]string{name, capExpr})
					}
				}
				if fl, ok := s.Rhs[0].(*ast.FuncLit); ok && name == "worker" {
					ast.Inspect(fl.Body, func(n ast.Node) bool {
						if ss, ok := n.(*ast.SendStmt); ok {
							pf.WorkerSends = append(pf.WorkerSends, src(ss.Chan))
						}
						return true
					})
					pf.Worker = shape(fl.Body.List)
					pf.Order = append(pf.Order, "define-worker")
				}
			}
		case *ast.ForStmt:
			if strings.Contains(src(s.Body), "go worker(") {
				pf.Order = append(pf.Order, "start-workers")
			}
		case *ast.RangeStmt:
			body := src(s.Body)
			switch {
			case strings.Contains(body, "fileChan <- file"):
				pf.Order = append(pf.Order, "send-files")
				pf.Sender = shapeStmt(s)
			case src(s.X) == "resultChan":
				pf.Order = append(pf.Order, "collect")
				pf.Collect = shapeStmt(s)
			}
		case *ast.ExprStmt:
			if src(s.X) == "close(fileChan)" {
				pf.Order = append(pf.Order, "close-files")
			}
			if src(s.X) == "wg.Add(numWorkers)" {
				pf.Order = append(pf.Order, "wg-add")
			}
		case *ast.GoStmt:
			body := src(s.Call)
			switch {
			case strings.Contains(body, "wg.Wait()"):
				pf.Order = append(pf.Order, "start-closer")
				if fl, ok := s.Call.Fun.(*ast.FuncLit); ok {
					pf.Closer = shape(fl.Body.List)
				}
			case strings.Contains(body, "<-statusChan"):
				pf.Order = append(pf.Order, "start-status")
				if fl, ok := s.Call.Fun.(*ast.FuncLit); ok {
					pf.Status = shape(fl.Body.List)
				}
			default:
				pf.Order = append(pf.Order, "go-other")
			}
		}
	}
	return pf
}

// ---------- F-json : bundle keys ----------

type JSONFacts struct {
	ProducerTop       []string // json tags of CQLFiles
	ProducerFile      []string // json tags of CQLFileContent
	ConsumerTop       []string // keys indexed on the response map
	ConsumerFile      []string // keys indexed on each file map
	ProducerExt       string
	ResultKeysWritten []string // keys written into each result_set entry by processQuery
	ResultTopWritten  []string
	SarifKeysRead     []string
}

var tagRe = regexp.MustCompile(`json:"([^",]+)`)

func structTags(f *ast.File, name string) []string {
	var out []string
	for _, d := range f.Decls {
		gd, ok := d.(*ast.GenDecl)
		if !ok {
			continue
		}
		for _, sp := range gd.Specs {
			ts, ok := sp.(*ast.TypeSpec)
			if !ok || ts.Name.Name != name {
				continue
			}
			for _, fl := range ts.Type.(*ast.StructType).Fields.List {
				if fl.Tag == nil {
					continue
				}
				t, _ := strconv.Unquote(fl.Tag.Value)
				if m := tagRe.FindStringSubmatch(t); m != nil {
					out = append(out, src(fl.Type)+":"+m[1])
				}
			}
		}
	}
	return out
}

func indexKeys(fn *ast.FuncDecl, base string) []string {
	var out []string
	if fn == nil {
		return out
	}
	ast.Inspect(fn.Body, func(n ast.Node) bool {
		ie, ok := n.(*ast.IndexExpr)
		if !ok {
			return true
		}
		if src(ie.X) == base {
			if s, ok := strLit(ie.Index); ok {
				out = append(out, s)
			}
		}
		return true
	})
	return out
}

// valueFlow lists, in source order, every place of `fd` where the variable first assigned from a call to one
// of `origins` is written (lhs:<callee or expression>) or handed to a call (arg:<callee>).
func valueFlow(fd *ast.FuncDecl, origins ...string) []string {
	if fd == nil {
		return []string{"<function not found>"}
	}
	v := ""
	var out []string
	isOrigin := func(n string) bool {
		for _, o := range origins {
			if n == o {
				return true
			}
		}
		return false
	}
	mentions := func(e ast.Expr) bool {
		found := false
		ast.Inspect(e, func(n ast.Node) bool {
			if id, ok := n.(*ast.Ident); ok && id.Name == v {
				found = true
			}
			return true
		})
		return found
	}
	ast.Inspect(fd.Body, func(n ast.Node) bool {
		switch s := n.(type) {
		case *ast.AssignStmt:
			if v == "" {
				if len(s.Rhs) == 1 {
					if c, ok := s.Rhs[0].(*ast.CallExpr); ok && isOrigin(src(c.Fun)) {
						v = src(s.Lhs[0])
						out = append(out, "lhs:"+src(c.Fun))
						return false
					}
				}
				return true
			}
			for _, l := range s.Lhs {
				if src(l) == v {
					rhs := src(s.Rhs[0])
					if c, ok := s.Rhs[0].(*ast.CallExpr); ok {
						rhs = src(c.Fun)
					}
					out = append(out, "lhs:"+rhs)
				}
			}
		case *ast.CallExpr:
			if v == "" {
				return true
			}
			for _, a := range s.Args {
				if mentions(a) {
					out = append(out, "arg:"+src(s.Fun))
					break
				}
			}
		case *ast.IncDecStmt:
			if v != "" && src(s.X) == v {
				out = append(out, "incdec")
			}
		}
		return true
	})
	return out
}

// loopConds lists, for the first `range` loop of fd, the conditions of every if inside it (source order) and
// every continue/break/return: what decides whether an element of the loop contributes.
func loopConds(fd *ast.FuncDecl) []string {
	if fd == nil {
		return []string{"<function not found>"}
	}
	var out []string
	var loop *ast.RangeStmt
	ast.Inspect(fd.Body, func(n ast.Node) bool {
		if r, ok := n.(*ast.RangeStmt); ok && loop == nil {
			loop = r
			return false
		}
		return true
	})
	if loop == nil {
		return []string{"<no loop>"}
	}
	ast.Inspect(loop.Body, func(n ast.Node) bool {
		switch x := n.(type) {
		case *ast.IfStmt:
			out = append(out, "if:"+src(x.Cond))
		case *ast.BranchStmt:
			out = append(out, x.Tok.String())
		case *ast.ReturnStmt:
			out = append(out, "return")
		case *ast.AssignStmt:
			if len(x.Lhs) == 1 && len(x.Rhs) == 1 {
				if c, ok := x.Rhs[0].(*ast.CallExpr); ok && src(c.Fun) == "append" {
					out = append(out, "append:"+src(x.Lhs[0])+"<-"+src(c.Args[len(c.Args)-1]))
				}
			}
		}
		return true
	})
	return out
}

// decisions lists, in source order, what decides the outcome of a block: every if condition, every return with
// its values, every append, every continue/break.
func decisions(body *ast.BlockStmt) []string {
	var out []string
	ast.Inspect(body, func(n ast.Node) bool {
		switch x := n.(type) {
		case *ast.IfStmt:
			out = append(out, "if:"+src(x.Cond))
			if x.Else != nil {
				out = append(out, "has-else")
			}
		case *ast.BranchStmt:
			out = append(out, x.Tok.String())
		case *ast.ReturnStmt:
			var vs []string
			for _, r := range x.Results {
				vs = append(vs, src(r))
			}
			out = append(out, "return:"+strings.Join(vs, ","))
		case *ast.AssignStmt:
			if len(x.Lhs) == 1 && len(x.Rhs) == 1 {
				if c, ok := x.Rhs[0].(*ast.CallExpr); ok && src(c.Fun) == "append" {
					out = append(out, "append:"+src(x.Lhs[0])+"<-"+src(c.Args[len(c.Args)-1]))
				}
			}
		case *ast.FuncLit:
			return true
		}
		return true
	})
	return out
}

// getFilesCallback: the decisions of the WalkFunc literal inside getFiles, and what getFiles calls it with
func getFilesCallback(f *ast.File) []string { return walkCallback(f, "getFiles") }

// walkCallback: the decisions of the first function literal passed as second argument of a call inside `fn`
func walkCallback(f *ast.File, fn string) []string {
	fd := findFunc(f, fn)
	if fd == nil {
		return []string{"<" + fn + " not found>"}
	}
	var out []string
	ast.Inspect(fd.Body, func(n ast.Node) bool {
		c, ok := n.(*ast.CallExpr)
		if !ok || len(c.Args) != 2 {
			return true
		}
		if fl, ok := c.Args[1].(*ast.FuncLit); ok {
			out = append(out, "walk:"+src(c.Fun)+"("+src(c.Args[0])+")")
			out = append(out, decisions(fl.Body)...)
			return false
		}
		return true
	})
	return out
}

// ---------- F-doc : the Javadoc accessors of model/javadoc.go ----------

// docAccessors classifies every GetComment* method of *Javadoc: (method, tag name, shape) where shape is
// "first" for  `for _, tag := range j.Tags { if tag.TagName == "<name>" { return tag.Text } }; return ""`,
// "all" for the appending loop, and "other" for anything else.
func docAccessors(f *ast.File) [][3]string {
	var out [][3]string
	for _, d := range f.Decls {
		fd, ok := d.(*ast.FuncDecl)
		if !ok || fd.Recv == nil || !strings.HasPrefix(fd.Name.Name, "GetComment") || fd.Body == nil {
			continue
		}
		shape, tagName := "other", ""
		stmts := fd.Body.List
		loopAt := -1
		for i, st := range stmts {
			if _, ok := st.(*ast.RangeStmt); ok {
				loopAt = i
				break
			}
		}
		if loopAt >= 0 {
			rs := stmts[loopAt].(*ast.RangeStmt)
			if strings.HasSuffix(src(rs.X), ".Tags") && len(rs.Body.List) == 1 {
				if is, ok := rs.Body.List[0].(*ast.IfStmt); ok && is.Else == nil && len(is.Body.List) == 1 {
					if be, ok := is.Cond.(*ast.BinaryExpr); ok && be.Op == token.EQL && strings.HasSuffix(src(be.X), ".TagName") {
						if lit, ok := strLit(be.Y); ok {
							tagName = lit
							switch inner := is.Body.List[0].(type) {
							case *ast.ReturnStmt:
								if loopAt == 0 && len(stmts) == 2 && len(inner.Results) == 1 && strings.HasSuffix(src(inner.Results[0]), ".Text") {
									if r, ok := stmts[1].(*ast.ReturnStmt); ok && len(r.Results) == 1 && src(r.Results[0]) == `""` {
										shape = "first"
									}
								}
							case *ast.AssignStmt:
								if loopAt == 1 && len(stmts) == 3 && strings.Contains(src(inner), "append(") && strings.HasSuffix(strings.TrimSuffix(src(inner), ")"), ".Text") {
									shape = "all"
								}
							}
						}
					}
				}
			}
		}
		out = append(out, [3]string{fd.Name.Name, tagName, shape})
	}
	return out
}

// ---------- fingerprints ----------

func fingerprint(fd *ast.FuncDecl) string {
	h := sha256.Sum256([]byte(src(fd)))
	return hex.EncodeToString(h[:8])
}

// assignmentsTo: the source text of every assignment or definition of one of the named variables in the function,
// in source order ("x = f(x)", "y := ...").
func assignmentsTo(fd *ast.FuncDecl, names ...string) []string {
	if fd == nil {
		return []string{"<function not found>"}
	}
	var out []string
	ast.Inspect(fd.Body, func(n ast.Node) bool {
		if as, ok := n.(*ast.AssignStmt); ok {
			for _, l := range as.Lhs {
				for _, nm := range names {
					if src(l) == nm {
						out = append(out, src(as))
					}
				}
			}
		}
		return true
	})
	return out
}

// packageVars lists every package-level variable of the packages a query runs through (files guarded by the verif
// build tag excluded; of the antlr package only the hand-written listener): "dir/file.go:name type-or-initialiser".
func packageVars(sp string) []string {
	var out []string
	for _, dir := range []string{"cmd", "graph", "graph/java", "model", "antlr"} {
		ents, err := os.ReadDir(filepath.Join(sp, dir))
		if err != nil {
			die("packageVars: %v", err)
		}
		for _, e := range ents {
			name := e.Name()
			if e.IsDir() || !strings.HasSuffix(name, ".go") || strings.HasSuffix(name, "_test.go") {
				continue
			}
			if dir == "antlr" && name != "listener_impl.go" {
				continue
			}
			raw, err := os.ReadFile(filepath.Join(sp, dir, name))
			if err != nil {
				die("packageVars: %v", err)
			}
			head := string(raw)
			if i := strings.Index(head, "\npackage "); i >= 0 {
				head = head[:i]
			}
			if strings.Contains(head, "go:build") && strings.Contains(head, "verif") {
				continue
			}
			f := parseFile(filepath.Join(sp, dir, name))
			for _, d := range f.Decls {
				gd, ok := d.(*ast.GenDecl)
				if !ok || gd.Tok != token.VAR {
					continue
				}
				for _, sp_ := range gd.Specs {
					vs := sp_.(*ast.ValueSpec)
					for i, n := range vs.Names {
						desc := ""
						if vs.Type != nil {
							desc = src(vs.Type)
						} else if i < len(vs.Values) {
							desc = src(vs.Values[i])
							if bl, ok := vs.Values[i].(*ast.BasicLit); ok {
								desc = "literal:" + bl.Kind.String() // (the value itself may change: a version string)
							}
							if j := strings.IndexAny(desc, "{\n"); j >= 0 {
								desc = desc[:j]
							}
						}
						out = append(out, dir+"/"+name+":"+n.Name+" "+strings.TrimSpace(desc))
					}
				}
			}
		}
	}
	sort.Strings(out)
	return out
}

func main() {
	if len(os.Args) != 3 {
		die("usage: factgen <repo-root> <out-dir>")
	}
	repo, out := os.Args[1], os.Args[2]
	sp := filepath.Join(repo, "sourcecode-parser")
	construct := parseFile(filepath.Join(sp, "graph", "construct.go"))
	query := parseFile(filepath.Join(sp, "graph", "query.go"))
	ci := parseFile(filepath.Join(sp, "cmd", "ci.go"))
	cmdq := parseFile(filepath.Join(sp, "cmd", "query.go"))
	gens := parseFile(filepath.Join(repo, "pathfinder-rules", "gen-script", "main.go"))

	resolveExtractMethodName(construct)
	lits := nodeLiterals(construct)
	ef := envFacts(query)
	ptrs := nodePointerFields(construct)
	pf := poolFacts(construct)

	if err := os.MkdirAll(out, 0o755); err != nil {
		die("%v", err)
	}
	var b strings.Builder
	b.WriteString("-- GENERATED by /verif/tools/factgen from /repo's working tree. Do not edit.\n")
	b.WriteString("import Cpf.Facts\n\nnamespace Cpf.Generated\nopen Cpf.Facts\n\n")

	// node literals
	b.WriteString("def nodeLits : List NodeLit := [\n")
	for i, l := range lits {
		atoms := []string{}
		for _, a := range l.IDFmt {
			atoms = append(atoms, leanAtom(a))
		}
		sep := ","
		if i == len(lits)-1 {
			sep = ""
		}
		fmt.Fprintf(&b, "  { tsTypes := %s, ops := %s, kind := %s, fields := %s,\n    idFmt := [%s],\n    line := %s, snippet := %s, file := %s, guard := %s, added := %v,\n    wiring := %s }%s\n",
			leanStrList(l.TsTypes), leanStrList(l.Ops), leanStr(l.Kind), leanStrList(l.Fields),
			strings.Join(atoms, ", "),
			leanStr(l.Exprs["LineNumber"]), leanStr(l.Exprs["CodeSnippet"]), leanStr(l.Exprs["File"]), leanStr(l.Guard), l.AddNoded, wiring(l), sep)
	}
	b.WriteString("]\n\n")
	fmt.Fprintf(&b, "def nodePointerFields : List String := %s\n\n", leanStrList(ptrs))

	// env
	b.WriteString("def envDefaults : List (String × String) := [")
	for i, v := range ef.VarOrder {
		if i > 0 {
			b.WriteString(", ")
		}
		fmt.Fprintf(&b, "(%s, %s)", leanStr(v), leanStr(ef.Defaults[v]))
	}
	b.WriteString("]\n\n")
	b.WriteString("def envCases : List (String × String) := [")
	for i, c := range ef.Cases {
		if i > 0 {
			b.WriteString(", ")
		}
		fmt.Fprintf(&b, "(%s, %s)", leanStr(c[0]), leanStr(c[1]))
	}
	b.WriteString("]\n\n")
	b.WriteString("def envAccessors : List (String × List (String × AccImpl)) := [\n")
	for i, k := range ef.MapKeys {
		parts := []string{}
		for _, a := range ef.Accessors[k] {
			impl := ".lit " + leanStr(strings.TrimPrefix(a[1], "lit:"))
			if strings.HasPrefix(a[1], "method:") {
				impl = ".method " + leanStr(strings.TrimPrefix(a[1], "method:"))
			}
			parts = append(parts, fmt.Sprintf("(%s, %s)", leanStr(a[0]), impl))
		}
		sep := ","
		if i == len(ef.MapKeys)-1 {
			sep = ""
		}
		fmt.Fprintf(&b, "  (%s, [%s])%s\n", leanStr(k), strings.Join(parts, ", "), sep)
	}
	b.WriteString("]\n\n")
	b.WriteString("def envMethodDerefs : List (String × List (List String)) := [\n")
	var mnames []string
	for m := range ef.Methods {
		mnames = append(mnames, m)
	}
	sort.Strings(mnames)
	for i, m := range mnames {
		sep := ","
		if i == len(mnames)-1 {
			sep = ""
		}
		chains := []string{}
		for _, c := range ef.Methods[m] {
			chains = append(chains, leanStrList(strings.Split(c, ".")))
		}
		fmt.Fprintf(&b, "  (%s, [%s])%s\n", leanStr(m), strings.Join(chains, ", "), sep)
	}
	b.WriteString("]\n\n")
	b.WriteString("def envTopLevel : List (String × String) := [")
	for i, c := range ef.TopLevel {
		if i > 0 {
			b.WriteString(", ")
		}
		fmt.Fprintf(&b, "(%s, %s)", leanStr(c[0]), leanStr(c[1]))
	}
	b.WriteString("]\n\n")

	// pool
	b.WriteString("def poolNumWorkers : String := " + leanStr(pf.NumWorkers) + "\n")
	b.WriteString("def poolChans : List (String × String) := [")
	for i, c := range pf.Chans {
		if i > 0 {
			b.WriteString(", ")
		}
		fmt.Fprintf(&b, "(%s, %s)", leanStr(c[0]), leanStr(c[1]))
	}
	b.WriteString("]\n")
	b.WriteString("def poolOrder : List String := " + leanStrList(pf.Order) + "\n")
	b.WriteString("def poolWorkerSends : List String := " + leanStrList(pf.WorkerSends) + "\n")
	fmt.Fprintf(&b, "def poolNumWorkersNat : Nat := %d\n", pf.NumWorkersNat)
	b.WriteString("def poolWorkerShape : List String := " + leanStrList(pf.Worker) + "\n")
	b.WriteString("def poolSenderShape : List String := " + leanStrList(pf.Sender) + "\n")
	b.WriteString("def poolStatusShape : List String := " + leanStrList(pf.Status) + "\n")
	b.WriteString("def poolCloserShape : List String := " + leanStrList(pf.Closer) + "\n")
	b.WriteString("def poolCollectShape : List String := " + leanStrList(pf.Collect) + "\n\n")

	// json keys
	for _, fn := range []struct {
		name, fun string
		file      *ast.File
	}{{"ruleReaderCi", "ParseQuery", ci}, {"ruleCommentLine", "ParseCommentLine", ci}, {"ruleReaderFile", "ExtractQueryFromFile", cmdq}} {
		fd := findFunc(fn.file, fn.fun)
		if fd == nil {
			die("%s not found", fn.fun)
		}
		var calls []string
		ast.Inspect(fd.Body, func(n ast.Node) bool {
			if c, ok := n.(*ast.CallExpr); ok {
				if name := src(c.Fun); strings.HasPrefix(name, "strings.") || strings.HasPrefix(name, "bufio.") {
					calls = append(calls, "call:"+src(c))
				}
			}
			return true
		})
		b.WriteString("def " + fn.name + "Decisions : List String := " + leanStrList(decisions(fd.Body)) + "\n")
		b.WriteString("def " + fn.name + "Calls : List String := " + leanStrList(calls) + "\n")
	}
	{
		// how the query command writes --output-file: every call that mentions the flag variable, and what is
		// written to the handle
		var uses []string
		for _, d := range cmdq.Decls {
			ast.Inspect(d, func(n ast.Node) bool {
				c, ok := n.(*ast.CallExpr)
				if !ok {
					return true
				}
				for _, a := range c.Args {
					if id, ok := a.(*ast.Ident); ok && id.Name == "outputFile" {
						uses = append(uses, src(c))
					}
				}
				if strings.HasPrefix(src(c.Fun), "file.") {
					uses = append(uses, src(c))
				}
				return true
			})
		}
		b.WriteString("def outputFileUses : List String := " + leanStrList(uses) + "\n")
	}
	b.WriteString("def loadRulesCallback : List String := " + leanStrList(walkCallback(ci, "loadRules")) + "\n")
	b.WriteString("def getFilesCallback : List String := " + leanStrList(getFilesCallback(construct)) + "\n")
	b.WriteString("def docAccessors : List (String × String × String) := [")
	for i, a := range docAccessors(parseFile(filepath.Join(sp, "model", "javadoc.go"))) {
		if i > 0 {
			b.WriteString(", ")
		}
		fmt.Fprintf(&b, "(%s, %s, %s)", leanStr(a[0]), leanStr(a[1]), leanStr(a[2]))
	}
	b.WriteString("]\n")
	b.WriteString("def bundleProducerBytesFlow : List String := " + leanStrList(valueFlow(findFunc(gens, "processDirectory"), "json.MarshalIndent", "json.Marshal")) + "\n")
	b.WriteString("def bundleConsumerBytesFlow : List String := " + leanStrList(valueFlow(findFunc(ci, "downloadRuleset"), "io.ReadAll", "ioutil.ReadAll")) + "\n")
	b.WriteString("def bundleConsumerUrl : List String := " + leanStrList(assignmentsTo(findFunc(ci, "downloadRuleset"), "ruleset", "url")) + "\n")
	b.WriteString("def bundleProducerPath : List String := " + leanStrList(assignmentsTo(findFunc(gens, "processDirectory"), "jsonFileName", "jsonFilePath")) + "\n")
	b.WriteString("def bundleConsumerLoop : List String := " + leanStrList(loopConds(findFunc(ci, "downloadRuleset"))) + "\n")
	b.WriteString("def bundleProducerLoop : List String := " + leanStrList(loopConds(findFunc(gens, "processDirectory"))) + "\n")
	b.WriteString("def bundleProducerTop : List String := " + leanStrList(structTags(gens, "CQLFiles")) + "\n")
	b.WriteString("def bundleProducerFile : List String := " + leanStrList(structTags(gens, "CQLFileContent")) + "\n")
	b.WriteString("def bundleConsumerTop : List String := " + leanStrList(indexKeys(findFunc(ci, "downloadRuleset"), "response")) + "\n")
	b.WriteString("def bundleConsumerFile : List String := " + leanStrList(indexKeys(findFunc(ci, "downloadRuleset"), "rule")) + "\n")
	b.WriteString("def resultEntryKeysWritten : List String := " + leanStrList(indexKeys(findFunc(cmdq, "processQuery"), "result")) + "\n")
	b.WriteString("def resultTopKeysWritten : List String := " + leanStrList(indexKeys(findFunc(cmdq, "processQuery"), "results")) + "\n")
	b.WriteString("def sarifTopKeysRead : List String := " + leanStrList(indexKeys(findFunc(ci, "generateSarifReport"), "localresult")) + "\n")
	b.WriteString("def sarifEntryKeysRead : List String := " + leanStrList(indexKeys(findFunc(ci, "generateSarifReport"), "findingMap")) + "\n")
	b.WriteString("def sarifRuleKeysRead : List String := " + leanStrList(indexKeys(findFunc(ci, "generateSarifReport"), "result")) + "\n")
	b.WriteString("def ruleJsonTags : List String := " + leanStrList(structTags(ci, "Rule")) + "\n")
	// Env methods that assign through env.Node (a query must not modify the graph)
	var mutating []string
	for _, d := range query.Decls {
		fd, ok := d.(*ast.FuncDecl)
		if !ok || fd.Recv == nil || len(fd.Recv.List) != 1 || src(fd.Recv.List[0].Type) != "*Env" {
			continue
		}
		ast.Inspect(fd.Body, func(n ast.Node) bool {
			switch st := n.(type) {
			case *ast.AssignStmt:
				for _, l := range st.Lhs {
					if strings.HasPrefix(src(l), "env.Node") {
						mutating = append(mutating, fd.Name.Name+": "+src(st))
					}
				}
			case *ast.IncDecStmt:
				if strings.HasPrefix(src(st.X), "env.Node") {
					mutating = append(mutating, fd.Name.Name+": "+src(st))
				}
			}
			return true
		})
	}
	b.WriteString("def envMethodsMutatingNode : List String := " + leanStrList(mutating) + "\n")
	// where the console creates its buffered reader: inside or outside the prompt loop
	inLoop, outside := 0, 0
	if fd := findFunc(cmdq, "executeCLIQuery"); fd != nil {
		var loops []*ast.ForStmt
		ast.Inspect(fd.Body, func(n ast.Node) bool {
			if f, ok := n.(*ast.ForStmt); ok {
				loops = append(loops, f)
			}
			return true
		})
		ast.Inspect(fd.Body, func(n ast.Node) bool {
			c, ok := n.(*ast.CallExpr)
			if !ok || callName(c) != "bufio.NewReader" {
				return true
			}
			inside := false
			for _, l := range loops {
				if c.Pos() >= l.Body.Pos() && c.End() <= l.Body.End() {
					inside = true
				}
			}
			if inside {
				inLoop++
			} else {
				outside++
			}
			return true
		})
	} else {
		die("executeCLIQuery not found")
	}
	// C09: where the whole-graph passes are. The recursive visitor must not loop over graph.Nodes; the
	// entry point runs the declaration/invocation pass a fixed number of times and is not recursive.
	visitorGraphLoops, entryRecursive, entryPassCalls, passGraphLoops := 0, 0, 0, 0
	countGraphLoops := func(fd *ast.FuncDecl) int {
		c := 0
		ast.Inspect(fd.Body, func(n ast.Node) bool {
			if r, ok := n.(*ast.RangeStmt); ok && strings.HasSuffix(src(r.X), ".Nodes") {
				c++
			}
			return true
		})
		return c
	}
	if vf := findFunc(construct, visitorName); vf != nil {
		visitorGraphLoops = countGraphLoops(vf)
	}
	// the same count over everything the visitor can reach through calls inside the graph package
	// (functions and methods matched by name: an over-approximation of the call graph)
	pkgFuncs := map[string][]*ast.FuncDecl{}
	gdir := filepath.Join(sp, "graph")
	if ents, err := os.ReadDir(gdir); err == nil {
		for _, e := range ents {
			n := e.Name()
			if e.IsDir() || !strings.HasSuffix(n, ".go") || strings.HasSuffix(n, "_test.go") || strings.HasPrefix(n, "verif_") {
				continue
			}
			for _, d := range parseFile(filepath.Join(gdir, n)).Decls {
				if fd, ok := d.(*ast.FuncDecl); ok && fd.Body != nil {
					pkgFuncs[fd.Name.Name] = append(pkgFuncs[fd.Name.Name], fd)
				}
			}
		}
	}
	reached := map[string]bool{}
	var visit func(name string)
	visit = func(name string) {
		if reached[name] {
			return
		}
		reached[name] = true
		for _, fd := range pkgFuncs[name] {
			ast.Inspect(fd.Body, func(n ast.Node) bool {
				if c, ok := n.(*ast.CallExpr); ok {
					switch f := c.Fun.(type) {
					case *ast.Ident:
						if _, ok := pkgFuncs[f.Name]; ok {
							visit(f.Name)
						}
					case *ast.SelectorExpr:
						if _, ok := pkgFuncs[f.Sel.Name]; ok {
							visit(f.Sel.Name)
						}
					}
				}
				return true
			})
		}
	}
	visit(visitorName)
	visitorReachLoops := 0
	var reachedNames []string
	for name := range reached {
		for _, fd := range pkgFuncs[name] {
			if c := countGraphLoops(fd); c > 0 {
				visitorReachLoops += c
				reachedNames = append(reachedNames, name)
			}
		}
	}
	sort.Strings(reachedNames)
	if ef := findFunc(construct, "buildGraphFromAST"); ef != nil {
		ast.Inspect(ef.Body, func(n ast.Node) bool {
			if c, ok := n.(*ast.CallExpr); ok {
				switch callName(c) {
				case "buildGraphFromAST":
					entryRecursive++
				case "markInvokedMethods":
					entryPassCalls++
				}
			}
			return true
		})
		if visitorName == "buildGraphFromAST" {
			entryRecursive = 1
		}
	} else {
		die("buildGraphFromAST not found")
	}
	if pfn := findFunc(construct, "markInvokedMethods"); pfn != nil {
		passGraphLoops = countGraphLoops(pfn)
	}
	fmt.Fprintf(&b, "def visitorName : String := %s\n", leanStr(visitorName))
	fmt.Fprintf(&b, "def visitorGraphLoops : Nat := %d\n", visitorGraphLoops)
	// who runs the declaration x invocation pass: it must stay a per-file step (what it derives for a file must
	// not depend on other files)
	var passCallers []string
	for name, fds := range pkgFuncs {
		for _, fd := range fds {
			n := 0
			ast.Inspect(fd.Body, func(x ast.Node) bool {
				if c, ok := x.(*ast.CallExpr); ok && callName(c) == "markInvokedMethods" {
					n++
				}
				return true
			})
			for i := 0; i < n; i++ {
				passCallers = append(passCallers, name)
			}
		}
	}
	sort.Strings(passCallers)
	b.WriteString("def passCallers : List String := " + leanStrList(passCallers) + "\n")
	fmt.Fprintf(&b, "def visitorReachableGraphLoops : Nat := %d\n", visitorReachLoops)
	b.WriteString("def visitorReachableLoopFuncs : List String := " + leanStrList(reachedNames) + "\n")
	fmt.Fprintf(&b, "def entryPointCallsItself : Nat := %d\n", entryRecursive)
	fmt.Fprintf(&b, "def entryPointPassCalls : Nat := %d\n", entryPassCalls)
	fmt.Fprintf(&b, "def passNestedGraphLoops : Nat := %d\n", passGraphLoops)
	b.WriteString("def packageLevelVars : List String := " + leanStrList(packageVars(sp)) + "\n")
	fmt.Fprintf(&b, "def consoleReadersCreatedInLoop : Nat := %d\n", inLoop)
	fmt.Fprintf(&b, "def consoleReadersCreatedOutsideLoop : Nat := %d\n", outside)
	b.WriteString("\nend Cpf.Generated\n")

	if err := os.WriteFile(filepath.Join(out, "Tables.lean"), []byte(b.String()), 0o644); err != nil {
		die("%v", err)
	}

	// the same tables as JSON for the Python side of the checks
	type litJSON struct {
		TsTypes []string `json:"tsTypes"`
		Ops     []string `json:"ops"`
		Kind    string   `json:"kind"`
		Fields  []string `json:"fields"`
		Guard   string   `json:"guard"`
	}
	var lj []litJSON
	for _, l := range lits {
		lj = append(lj, litJSON{l.TsTypes, l.Ops, l.Kind, l.Fields, l.Guard})
	}
	tj := map[string]interface{}{"nodeLits": lj, "envCases": ef.Cases, "envAccessors": ef.Accessors, "envDefaults": ef.Defaults,
		"envMethodDerefs": ef.Methods, "envMethodRet": ef.MethodRet, "nodePointerFields": ptrs,
		"poolNumWorkers": pf.NumWorkers, "poolWorkerShape": pf.Worker}
	tb, _ := json.MarshalIndent(tj, "", " ")
	if err := os.WriteFile(filepath.Join(out, "tables.json"), tb, 0o644); err != nil {
		die("%v", err)
	}

	// fingerprints (not Lean)
	fps := map[string]string{}
	for _, pair := range []struct {
		f     *ast.File
		names []string
	}{
		{construct, []string{"buildGraphFromAST", "traverseAST", "markInvokedMethods", "extractMethodName", "getFiles", "Initialize", "parseJavadocTags", "extractVisibilityModifier", "AddNode", "AddEdge", "FindNodesByType"}},
		{query, []string{"QueryEntities", "generateOutput", "evaluateExpression", "generateCartesianProduct", "cartesianProduct", "ReplacePredicateVariables", "FilterEntities", "generateProxyEnvForSet", "generateProxyEnv"}},
		{ci, []string{"generateSarifReport", "loadRules", "downloadRuleset", "ParseQuery", "ParseCommentLine"}},
		{cmdq, []string{"executeCLIQuery", "processQuery", "ExtractQueryFromFile"}},
	} {
		for _, n := range pair.names {
			if fd := findFunc(pair.f, n); fd != nil {
				fps[n] = fingerprint(fd)
			} else {
				fps[n] = "missing"
			}
		}
	}
	lst := parseFile(filepath.Join(sp, "antlr", "listener_impl.go"))
	for _, d := range lst.Decls {
		if fd, ok := d.(*ast.FuncDecl); ok {
			fps["listener."+fd.Name.Name] = fingerprint(fd)
		}
	}
	// every function of every non-test source file the properties are anchored in, keyed "<file>:<func>"
	// (drives the adaptive depth of the correspondence checks: a changed function deepens the search)
	for _, dir := range []string{"sourcecode-parser/graph", "sourcecode-parser/graph/java", "sourcecode-parser/cmd", "sourcecode-parser/model",
		"sourcecode-parser/antlr", "sourcecode-parser", "pathfinder-rules/gen-script"} {
		ents, err := os.ReadDir(filepath.Join(repo, dir))
		if err != nil {
			continue
		}
		for _, e := range ents {
			n := e.Name()
			if e.IsDir() || !strings.HasSuffix(n, ".go") || strings.HasSuffix(n, "_test.go") || strings.HasPrefix(n, "verif_") {
				continue
			}
			if dir == "sourcecode-parser/antlr" && n != "listener_impl.go" {
				continue // generated lexer/parser: pinned by Query.g4, which g4gen reads
			}
			for _, d := range parseFile(filepath.Join(repo, dir, n)).Decls {
				switch x := d.(type) {
				case *ast.FuncDecl:
					name := x.Name.Name
					if x.Recv != nil && len(x.Recv.List) > 0 {
						name = strings.TrimPrefix(src(x.Recv.List[0].Type), "*") + "." + name
					}
					fps[dir+"/"+n+":"+name] = fingerprint(x)
				case *ast.GenDecl:
					h := sha256.Sum256([]byte(src(x)))
					fps[dir+"/"+n+":decl@"+hex.EncodeToString(h[:4])] = hex.EncodeToString(h[:8])
				}
			}
		}
	}
	jb, _ := json.MarshalIndent(fps, "", " ")
	if err := os.WriteFile(filepath.Join(out, "fingerprints.json"), jb, 0o644); err != nil {
		die("%v", err)
	}
}
