"""Scan-side correspondence: the real buildGraphFromAST (harness op `build`) vs the Lean structural model
(driver op `scan-model`) on the *real* tree-sitter tree of the same bytes; plus the tree-sitter contract
checks (row/column/byte offsets) and the spec-level census."""
import hashlib, json
from vlib import common as C


def flat_tree(t, out=None):
    out = [] if out is None else out
    cs = t.get("c") or []
    out += [t["t"], t.get("f", ""), str(t["sb"]), str(t["eb"]), str(t["sr"]), str(t["sc"]), "1" if t.get("named") else "0", str(len(cs))]
    for c in cs:
        flat_tree(c, out)
    return out


def walk(t):
    yield t
    for c in t.get("c") or []:
        yield from walk(c)


def real_build(h, src: bytes, file: str, timeout=120, graph=""):
    return h.call(op="build", hex=src.hex(), file=file, timeout=timeout, graph=graph)


def model_build(d, src: bytes, file: str, tree):
    r = d.call("scan-model", file, src.hex(), *flat_tree(tree))
    if r[0] != "ok":
        return dict(outcome=r[0], msg=r[1] if len(r) > 1 else "")
    n_ins, n, ops = int(r[1]), int(r[2]), int(r[3])
    ents, i = [], 4
    for _ in range(n):
        kind, line, sb, eb, pre = r[i:i + 5]
        ents.append(dict(kind=kind, line=int(line), sb=int(sb), eb=int(eb), pre=bytes.fromhex(pre)))
        i += 5
    ne = int(r[i]); i += 1
    edges = []
    for _ in range(ne):
        edges.append((bytes.fromhex(r[i]), bytes.fromhex(r[i + 1])))
        i += 2
    return dict(outcome="ok", inserted=n_ins, ents=ents, edges=edges, ops=ops)


def sha(b):
    return hashlib.sha256(b).hexdigest()


def contract_violations(tree, src: bytes):
    """tree-sitter's contract as the model assumes it: startRow = newlines before startByte,
    startColumn = bytes since the last newline, 0 <= sb <= eb <= len(src), children inside the parent."""
    bad = []
    for n in walk(tree):
        sb, eb = n["sb"], n["eb"]
        if not (0 <= sb <= eb <= len(src)):
            bad.append(("range", n["t"], sb, eb))
            continue
        if n["sr"] != src[:sb].count(b"\n"):
            bad.append(("row", n["t"], sb, n["sr"], src[:sb].count(b"\n")))
        col = sb - (src.rfind(b"\n", 0, sb) + 1)
        if n["sc"] != col:
            bad.append(("col", n["t"], sb, n["sc"], col))
        for c in n.get("c") or []:
            if not (sb <= c["sb"] and c["eb"] <= eb):
                bad.append(("child-outside", n["t"], c["t"]))
    return bad


def compare(real, model, src: bytes, file: str):
    """returns (list of mismatch descriptions, stats)"""
    mism = []
    if real.get("outcome") != "ok" or model.get("outcome") != "ok":
        if real.get("outcome") != model.get("outcome"):
            mism.append("outcome: real=%s model=%s %s" % (real.get("outcome"), model.get("outcome"), model.get("msg", "")))
        return mism, {}
    rn = {n["id"]: n for n in real["nodes"]}
    mn = {}
    for e in model["ents"]:
        mn[sha(e["pre"])] = e
    for i in set(rn) - set(mn):
        n = rn[i]
        mism.append("real entity missing from model: %s line %s %r" % (n["type"], n["line"], n["snippet"][:60]))
    for i in set(mn) - set(rn):
        e = mn[i]
        mism.append("model entity missing from real graph: %s line %s pre=%r" % (e["kind"], e["line"], e["pre"][:80]))
    for i in set(rn) & set(mn):
        n, e = rn[i], mn[i]
        snip = src[e["sb"]:e["eb"]].decode("utf-8", "replace")
        if n["type"] != e["kind"] or n["line"] != e["line"] or n["snippet"] != snip or n["file"] != file:
            mism.append("entity differs: real (%s,%s,%r,%s) model (%s,%s,%r)" % (n["type"], n["line"], n["snippet"][:40], n["file"], e["kind"], e["line"], snip[:40]))
    re_ = sorted((a, b) for a, b in real["edges"])
    me = sorted((sha(a), sha(b)) for a, b in model["edges"])
    if re_ != me:
        mism.append("call links differ: real %d model %d" % (len(re_), len(me)))
    if real.get("ops") is not None and real["ops"] != model.get("ops"):
        mism.append("operation count of the declaration x invocation pass differs: hook %s, model %s" % (real["ops"], model.get("ops")))
    return mism, dict(real_nodes=len(rn), model_nodes=len(mn), inserted=model["inserted"], edges=len(re_), ops=real.get("ops"))
