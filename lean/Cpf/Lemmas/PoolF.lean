import Cpf.Scan.PoolF
import Cpf.Lemmas.Pool

namespace Cpf.Scan.PoolF
open Cpf.Scan.Pool

variable {F : Type}

/-! ### the file-carrying model refines the counting model -/

theorem abs_allExited (s : StF F) : allExited (abs s) = allExitedF s := by
  simp [allExited, allExitedF, abs, List.all_map, Function.comp_def]

theorem get_map_pc (l : List (W F)) (i : Nat) (w : W F) (h : l[i]? = some w) : (l.map W.pc)[i]? = some w.pc := by
  simp [h]

theorem of_get_map_pc (l : List (W F)) (i n : Nat) (h : (l.map W.pc)[i]? = some n) : ∃ w, l[i]? = some w ∧ w.pc = n := by
  rw [List.getElem?_map] at h
  cases hw : l[i]? with
  | none => simp [hw] at h
  | some w => exact ⟨w, rfl, by simpa [hw] using h⟩

theorem pc_idle (w : W F) (h : w.pc = 0) : w = .idle := by
  cases w with
  | idle => rfl
  | busy st f => cases st <;> simp [W.pc, Stage.toNat] at h
  | exited => simp [W.pc] at h

theorem pc_exited (w : W F) (h : w.pc = 6) : w = .exited := by
  cases w with
  | idle => simp [W.pc] at h
  | busy st f => cases st <;> simp [W.pc, Stage.toNat] at h
  | exited => rfl

theorem pc_busy (w : W F) (st : Stage) (h : w.pc = st.toNat) : ∃ f, w = .busy st f := by
  cases w with
  | idle => cases st <;> simp [W.pc, Stage.toNat] at h
  | busy st' f => exact ⟨f, by cases st <;> cases st' <;> simp_all [W.pc, Stage.toNat]⟩
  | exited => cases st <;> simp [W.pc, Stage.toNat] at h

/-- every step of the file-carrying model is a step of the counting model -/
theorem sim (c : Cfg) (ok : F → Bool) (s s' : StF F) (h : StepF c ok s s') : Step c (abs s) (abs s') := by
  cases h with
  | @queue f rest h1 h2 h3 =>
      have e : abs { s with unsent := rest, fileQ := s.fileQ ++ [f] }
          = { abs s with unsent := (abs s).unsent - 1, fileQ := (abs s).fileQ + 1 } := by simp [abs, h2]
      rw [e]; exact Step.queue h1 (by simp [abs, h2]) h3
  | closeFiles h1 h2 => exact Step.closeFiles (s := abs s) h1 (by simp [abs, h2])
  | startStatus h1 => exact Step.startStatus (s := abs s) h1
  | startCloser h1 => exact Step.startCloser (s := abs s) h1
  | @collect f rest h1 h2 =>
      have e : abs { s with resultQ := rest, collected := s.collected ++ [f] }
          = { abs s with resultQ := (abs s).resultQ - 1, collected := (abs s).collected + 1 } := by
        simp [abs, h2]; omega
      rw [e]; exact Step.collect h1 (by simp [abs, h2])
  | finish h1 h2 h3 => exact Step.finish (s := abs s) h1 (by simp [abs, h2]) h3
  | @take f rest i h1 h2 =>
      have e : abs { s with fileQ := rest, workers := s.workers.set i (.busy .s1 f) }
          = { abs s with fileQ := (abs s).fileQ - 1, workers := (abs s).workers.set i 1 } := by
        simp [abs, h2, List.map_set, W.pc, Stage.toNat]
      rw [e]; exact Step.take i (get_map_pc _ _ _ h1) (by simp [abs, h2])
  | exit i h1 h2 h3 =>
      have e : abs { s with workers := s.workers.set i .exited } = { abs s with workers := (abs s).workers.set i 6 } := by
        simp [abs, List.map_set, W.pc]
      rw [e]; exact Step.exit i (get_map_pc _ _ _ h1) (by simp [abs, h2]) h3
  | @status1 f i h1 h2 =>
      have e : abs { s with statusQ := s.statusQ + 1, workers := s.workers.set i (.busy .s2 f) }
          = { abs s with statusQ := (abs s).statusQ + 1, workers := (abs s).workers.set i (1 + 1) } := by
        simp [abs, List.map_set, W.pc, Stage.toNat]
      rw [e]; exact Step.status i 1 (get_map_pc _ _ _ h1) (Or.inl rfl) h2
  | @fail f i h1 h2 =>
      have e : abs { s with failed := f :: s.failed, workers := s.workers.set i .idle }
          = { abs s with failed := (abs s).failed + 1, workers := (abs s).workers.set i 0 } := by
        simp [abs, List.map_set, W.pc]
      rw [e]; exact Step.fail i (get_map_pc _ _ _ h1)
  | @status2 f i h1 h2 h3 =>
      have e : abs { s with statusQ := s.statusQ + 1, workers := s.workers.set i (.busy .s3 f) }
          = { abs s with statusQ := (abs s).statusQ + 1, workers := (abs s).workers.set i (2 + 1) } := by
        simp [abs, List.map_set, W.pc, Stage.toNat]
      rw [e]; exact Step.status i 2 (get_map_pc _ _ _ h1) (Or.inr (Or.inl rfl)) h3
  | @status3 f i h1 h2 =>
      have e : abs { s with statusQ := s.statusQ + 1, workers := s.workers.set i (.busy .s4 f) }
          = { abs s with statusQ := (abs s).statusQ + 1, workers := (abs s).workers.set i (3 + 1) } := by
        simp [abs, List.map_set, W.pc, Stage.toNat]
      rw [e]; exact Step.status i 3 (get_map_pc _ _ _ h1) (Or.inr (Or.inr rfl)) h2
  | @result f i h1 h2 =>
      have e : abs { s with resultQ := s.resultQ ++ [f], workers := s.workers.set i (.busy .s5 f) }
          = { abs s with resultQ := (abs s).resultQ + 1, produced := (abs s).produced + 1, workers := (abs s).workers.set i 5 } := by
        simp [abs, List.map_set, W.pc, Stage.toNat]; omega
      rw [e]; exact Step.result i (get_map_pc _ _ _ h1) h2
  | @progress f i h1 h2 =>
      have e : abs { s with progressQ := s.progressQ + 1, workers := s.workers.set i .idle }
          = { abs s with progressQ := (abs s).progressQ + 1, workers := (abs s).workers.set i 0 } := by
        simp [abs, List.map_set, W.pc]
      rw [e]; exact Step.progress i (get_map_pc _ _ _ h1) h2
  | drainStatus h1 h2 h3 => exact Step.drainStatus (s := abs s) h1 h2 h3
  | drainProgress h1 h2 h3 => exact Step.drainProgress (s := abs s) h1 h2 h3
  | statusExit h1 h2 h3 h4 => exact Step.statusExit (s := abs s) h1 h2 h3 h4
  | close h1 h2 h3 => exact Step.close (s := abs s) h1 h2 (by rw [abs_allExited]; exact h3)

theorem abs_init (files : List F) (w : Nat) (c : Cfg) (hn : c.n = files.length) : abs (initF files w) = init c w := by
  simp [abs, initF, init, hn, W.pc]

theorem reach_abs (c : Cfg) (ok : F → Bool) (files : List F) (w : Nat) (hn : c.n = files.length) (s : StF F)
    (h : ReachF c ok files w s) : Reach c w (abs s) := by
  induction h with
  | init => rw [abs_init files w c hn]; exact Reach.init
  | step _ hs ih => exact Reach.step ih (sim c ok _ _ hs)

/-- **no schedule of the file-carrying model is infinite** -/
theorem terminatesF (c : Cfg) (ok : F → Bool) (run : Nat → StF F) : ¬ ∀ k, StepF c ok (run k) (run (k + 1)) := by
  intro h
  have key : ∀ k, phi (abs (run k)) + k ≤ phi (abs (run 0)) := by
    intro k
    induction k with
    | zero => simp
    | succ k ih => have := step_decreases c _ _ (sim c ok _ _ (h k)); omega
  have := key (phi (abs (run 0)) + 1)
  omega

/-- **no deadlock**: until the scan returns, some goroutine of the file-carrying model can step -/
theorem no_deadlockF (c : Cfg) (ok : F → Bool) (files : List F) (w : Nat) (hn : c.n = files.length) (hc : CapsOk c)
    (s : StF F) (hr : ReachF c ok files w s) (hnf : s.mainPc ≠ 4) : ∃ s', StepF c ok s s' := by
  have hra := reach_abs c ok files w hn s hr
  have hI := inv_reach c w _ hra
  obtain ⟨t, ht⟩ := no_deadlock c w hc (abs s) hra hnf
  obtain ⟨c1, c2, c3, c4⟩ := hc
  -- a worker that holds a readable file at stage 2 and finds the status channel full: somebody else can move
  have stuck : ∀ (i : Nat) (f : F), s.workers[i]? = some (W.busy .s2 f) → ¬ s.statusQ < c.statusCap → ∃ s', StepF c ok s s' := by
    intro i f hw hfull
    have hpc := get_map_pc _ _ _ hw
    have hncl : s.closed = false := not_closed_of_worker c (abs s) hI i _ hpc (by simp [W.pc, Stage.toNat])
    have hse : s.statusExited = false := by
      cases h : s.statusExited with
      | false => rfl
      | true => have := hI.exitedClosed h; simp [abs, hncl] at this
    have hm := hI.mainLe
    by_cases m0 : s.mainPc = 0
    · cases hu : s.unsent with
      | nil => exact ⟨_, StepF.closeFiles m0 hu⟩
      | cons f' rest =>
          refine ⟨_, StepF.queue m0 hu ?_⟩
          have := hI.files
          simp [abs, hu] at this
          omega
    by_cases m1 : s.mainPc = 1
    · exact ⟨_, StepF.startStatus m1⟩
    have : s.mainPc = 2 ∨ s.mainPc = 3 := by
      have : s.mainPc ≤ 4 := hm
      omega
    exact ⟨_, StepF.drainStatus (by omega) hse (by omega)⟩
  cases ht with
  | queue h1 h2 h3 =>
      cases hu : s.unsent with
      | nil => simp [abs, hu] at h2
      | cons f rest => exact ⟨_, StepF.queue h1 hu h3⟩
  | closeFiles h1 h2 => exact ⟨_, StepF.closeFiles h1 (List.eq_nil_of_length_eq_zero h2)⟩
  | startStatus h1 => exact ⟨_, StepF.startStatus h1⟩
  | startCloser h1 => exact ⟨_, StepF.startCloser h1⟩
  | collect h1 h2 =>
      cases hq : s.resultQ with
      | nil => simp [abs, hq] at h2
      | cons f rest => exact ⟨_, StepF.collect h1 hq⟩
  | finish h1 h2 h3 => exact ⟨_, StepF.finish h1 (List.eq_nil_of_length_eq_zero h2) h3⟩
  | take i h1 h2 =>
      obtain ⟨w', hw, hpc⟩ := of_get_map_pc _ _ _ h1
      have := pc_idle w' hpc; subst this
      cases hq : s.fileQ with
      | nil => simp [abs, hq] at h2
      | cons f rest => exact ⟨_, StepF.take i hw hq⟩
  | exit i h1 h2 h3 =>
      obtain ⟨w', hw, hpc⟩ := of_get_map_pc _ _ _ h1
      have := pc_idle w' hpc; subst this
      exact ⟨_, StepF.exit i hw (List.eq_nil_of_length_eq_zero h2) h3⟩
  | status i pc h1 h2 h3 =>
      obtain ⟨w', hw, hpc⟩ := of_get_map_pc _ _ _ h1
      rcases h2 with rfl | rfl | rfl
      · obtain ⟨f, rfl⟩ := pc_busy w' .s1 hpc
        exact ⟨_, StepF.status1 i hw h3⟩
      · obtain ⟨f, rfl⟩ := pc_busy w' .s2 hpc
        cases hok : ok f with
        | false => exact ⟨_, StepF.fail i hw hok⟩
        | true => exact ⟨_, StepF.status2 i hw hok h3⟩
      · obtain ⟨f, rfl⟩ := pc_busy w' .s3 hpc
        exact ⟨_, StepF.status3 i hw h3⟩
  | fail i h1 =>
      obtain ⟨w', hw, hpc⟩ := of_get_map_pc _ _ _ h1
      obtain ⟨f, rfl⟩ := pc_busy w' .s2 hpc
      cases hok : ok f with
      | false => exact ⟨_, StepF.fail i hw hok⟩
      | true =>
          by_cases hs : s.statusQ < c.statusCap
          · exact ⟨_, StepF.status2 i hw hok hs⟩
          · exact stuck i f hw hs
  | result i h1 h2 =>
      obtain ⟨w', hw, hpc⟩ := of_get_map_pc _ _ _ h1
      obtain ⟨f, rfl⟩ := pc_busy w' .s4 hpc
      exact ⟨_, StepF.result i hw h2⟩
  | progress i h1 h2 =>
      obtain ⟨w', hw, hpc⟩ := of_get_map_pc _ _ _ h1
      obtain ⟨f, rfl⟩ := pc_busy w' .s5 hpc
      exact ⟨_, StepF.progress i hw h2⟩
  | drainStatus h1 h2 h3 => exact ⟨_, StepF.drainStatus h1 h2 h3⟩
  | drainProgress h1 h2 h3 => exact ⟨_, StepF.drainProgress h1 h2 h3⟩
  | statusExit h1 h2 h3 h4 => exact ⟨_, StepF.statusExit h1 h2 h3 h4⟩
  | close h1 h2 h3 => exact ⟨_, StepF.close h1 h2 (by rw [← abs_allExited]; exact h3)⟩

/-! ### every file is in exactly one place -/

variable [DecidableEq F]

/-- the file a worker holds whose outcome (result or failure) has not been recorded yet -/
def heldOf : W F → List F
  | .busy .s5 _ => []
  | .busy _ f => [f]
  | _ => []

def held (l : List (W F)) : List F := l.flatMap heldOf

/-- how often `a` occurs in the system -/
def cnt (a : F) (s : StF F) : Nat :=
  s.unsent.count a + s.fileQ.count a + (held s.workers).count a + s.resultQ.count a + s.collected.count a + s.failed.count a

theorem held_set (a : F) (l : List (W F)) (i : Nat) (w w' : W F) (h : l[i]? = some w) :
    (heldOf w).count a + (held (l.set i w')).count a = (heldOf w').count a + (held l).count a := by
  induction l generalizing i with
  | nil => simp at h
  | cons x xs ih =>
      cases i with
      | zero =>
          simp at h; subst h
          simp [held, List.flatMap_cons, List.count_append]; omega
      | succ j =>
          simp at h
          have := ih j h
          simp only [held, List.set_cons_succ, List.flatMap_cons, List.count_append] at this ⊢
          omega

/-- workers past the point of failure hold readable files only -/
def okW (ok : F → Bool) : W F → Prop
  | .busy .s3 f => ok f = true
  | .busy .s4 f => ok f = true
  | _ => True

structure InvF (ok : F → Bool) (files : List F) (s : StF F) : Prop where
  conserve : ∀ a, cnt a s = files.count a
  failedBad : ∀ f ∈ s.failed, ok f = false
  resultsOk : ∀ f ∈ s.resultQ, ok f = true
  collectedOk : ∀ f ∈ s.collected, ok f = true
  workersOk : ∀ w ∈ s.workers, okW ok w

theorem held_replicate_idle (w : Nat) : held (List.replicate w (W.idle : W F)) = [] := by
  induction w with
  | zero => rfl
  | succ k ih => simpa [held, List.replicate_succ, heldOf] using ih

theorem invF_init (ok : F → Bool) (files : List F) (w : Nat) : InvF ok files (initF files w) := by
  refine ⟨fun a => by simp [cnt, initF, held_replicate_idle], by simp [initF], by simp [initF], by simp [initF], ?_⟩
  intro x hx
  simp only [initF, List.mem_replicate] at hx
  rw [hx.2]; trivial

theorem okW_set (ok : F → Bool) (l : List (W F)) (i : Nat) (w' : W F) (h : ∀ w ∈ l, okW ok w) (hw' : okW ok w') :
    ∀ w ∈ l.set i w', okW ok w := by
  intro w hw
  rcases List.mem_or_eq_of_mem_set hw with h1 | h1
  · exact h w h1
  · rw [h1]; exact hw'

theorem invF_step (c : Cfg) (ok : F → Bool) (files : List F) (s s' : StF F) (hI : InvF ok files s) (h : StepF c ok s s') :
    InvF ok files s' := by
  obtain ⟨hc, hfb, hro, hco, hwo⟩ := hI
  cases h with
  | @queue f rest h1 h2 h3 =>
      refine ⟨fun a => ?_, hfb, hro, hco, hwo⟩
      have := hc a
      simp only [cnt, h2, List.count_cons, List.count_append, List.count_nil] at this ⊢
      omega
  | closeFiles h1 h2 => exact ⟨hc, hfb, hro, hco, hwo⟩
  | startStatus h1 => exact ⟨hc, hfb, hro, hco, hwo⟩
  | startCloser h1 => exact ⟨hc, hfb, hro, hco, hwo⟩
  | @collect f rest h1 h2 =>
      refine ⟨fun a => ?_, hfb, fun x hx => hro x (by simp [h2, hx]), ?_, hwo⟩
      · have := hc a
        simp only [cnt, h2, List.count_cons, List.count_append, List.count_nil] at this ⊢
        omega
      · intro x hx
        rcases List.mem_append.1 hx with hx | hx
        · exact hco x hx
        · simp at hx; subst hx; exact hro x (by simp [h2])
  | finish h1 h2 h3 => exact ⟨hc, hfb, hro, hco, hwo⟩
  | @take f rest i h1 h2 =>
      refine ⟨fun a => ?_, hfb, hro, hco, okW_set ok _ _ _ hwo trivial⟩
      have := hc a
      have hs := held_set a s.workers i _ (.busy .s1 f) h1
      simp only [cnt, h2, heldOf, List.count_cons, List.count_nil] at this hs ⊢
      omega
  | exit i h1 h2 h3 =>
      refine ⟨fun a => ?_, hfb, hro, hco, okW_set ok _ _ _ hwo trivial⟩
      have := hc a
      have hs := held_set a s.workers i _ .exited h1
      simp only [cnt, heldOf, List.count_nil] at this hs ⊢
      omega
  | @status1 f i h1 h2 =>
      refine ⟨fun a => ?_, hfb, hro, hco, okW_set ok _ _ _ hwo trivial⟩
      have := hc a
      have hs := held_set a s.workers i _ (.busy .s2 f) h1
      simp only [cnt, heldOf] at this hs ⊢
      omega
  | @fail f i h1 h2 =>
      refine ⟨fun a => ?_, ?_, hro, hco, okW_set ok _ _ _ hwo trivial⟩
      · have := hc a
        have hs := held_set a s.workers i _ .idle h1
        simp only [cnt, heldOf, List.count_cons, List.count_nil] at this hs ⊢
        omega
      · intro x hx
        rcases List.mem_cons.1 hx with rfl | hx
        · exact h2
        · exact hfb x hx
  | @status2 f i h1 h2 h3 =>
      refine ⟨fun a => ?_, hfb, hro, hco, okW_set ok _ _ _ hwo h2⟩
      have := hc a
      have hs := held_set a s.workers i _ (.busy .s3 f) h1
      simp only [cnt, heldOf] at this hs ⊢
      omega
  | @status3 f i h1 h2 =>
      have hok : ok f = true := hwo _ (List.mem_of_getElem? h1)
      refine ⟨fun a => ?_, hfb, hro, hco, okW_set ok _ _ _ hwo hok⟩
      have := hc a
      have hs := held_set a s.workers i _ (.busy .s4 f) h1
      simp only [cnt, heldOf] at this hs ⊢
      omega
  | @result f i h1 h2 =>
      have hok : ok f = true := hwo _ (List.mem_of_getElem? h1)
      refine ⟨fun a => ?_, hfb, ?_, hco, okW_set ok _ _ _ hwo trivial⟩
      · have := hc a
        have hs := held_set a s.workers i _ (.busy .s5 f) h1
        simp only [cnt, heldOf, List.count_cons, List.count_append, List.count_nil] at this hs ⊢
        omega
      · intro x hx
        rcases List.mem_append.1 hx with hx | hx
        · exact hro x hx
        · simp at hx; subst hx; exact hok
  | @progress f i h1 h2 =>
      refine ⟨fun a => ?_, hfb, hro, hco, okW_set ok _ _ _ hwo trivial⟩
      have := hc a
      have hs := held_set a s.workers i _ .idle h1
      simp only [cnt, heldOf, List.count_nil] at this hs ⊢
      omega
  | drainStatus h1 h2 h3 => exact ⟨hc, hfb, hro, hco, hwo⟩
  | drainProgress h1 h2 h3 => exact ⟨hc, hfb, hro, hco, hwo⟩
  | statusExit h1 h2 h3 h4 => exact ⟨hc, hfb, hro, hco, hwo⟩
  | close h1 h2 h3 => exact ⟨hc, hfb, hro, hco, hwo⟩

theorem invF_reach (c : Cfg) (ok : F → Bool) (files : List F) (w : Nat) (s : StF F) (h : ReachF c ok files w s) :
    InvF ok files s := by
  induction h with
  | init => exact invF_init ok files w
  | step _ hs ih => exact invF_step c ok files _ _ ih hs

theorem held_all_exited (l : List (W F)) (h : l.all (fun w => w.pc == 6) = true) : held l = [] := by
  induction l with
  | nil => rfl
  | cons x xs ih =>
      simp only [List.all_cons, Bool.and_eq_true, beq_iff_eq] at h
      have hx := pc_exited x h.1
      subst hx
      simpa [held, heldOf] using ih h.2

/-- **exactly the readable files are merged, each exactly once — whatever the schedule**: when the scan returns
    (at least one worker), the merged files are a permutation of the walk's files that can be read and parsed,
    and the files given up on are a permutation of the others. -/
theorem returned_files (c : Cfg) (ok : F → Bool) (files : List F) (w : Nat) (hn : c.n = files.length) (hw : 0 < w)
    (s : StF F) (hr : ReachF c ok files w s) (hret : s.mainPc = 4) :
    s.collected.Perm (files.filter ok) ∧ s.failed.Perm (files.filter (fun f => !ok f)) := by
  have hra := reach_abs c ok files w hn s hr
  have hI := invF_reach c ok files w s hr
  have hA := inv_reach c w _ hra
  obtain ⟨hk, _⟩ := returned_closed c w _ hra
  obtain ⟨hcl, hrq⟩ := hk hret
  have hca := (collects_all c w _ hra hret).2 hw
  have hunsent : s.unsent = [] := List.eq_nil_of_length_eq_zero hca.2.1
  have hfileQ : s.fileQ = [] := List.eq_nil_of_length_eq_zero hca.1
  have hresultQ : s.resultQ = [] := List.eq_nil_of_length_eq_zero hrq
  have hheld : held s.workers = [] := by
    apply held_all_exited
    have := hA.closedExited hcl
    rw [abs_allExited] at this
    exact this
  have hcount : ∀ a, s.collected.count a + s.failed.count a = files.count a := by
    intro a
    have := hI.conserve a
    simp only [cnt, hunsent, hfileQ, hresultQ, hheld, List.count_nil] at this
    omega
  constructor
  · rw [List.perm_iff_count]
    intro a
    have h := hcount a
    cases hok : ok a with
    | true =>
        have hf : s.failed.count a = 0 := by
          rw [List.count_eq_zero]
          intro hm
          have := hI.failedBad a hm
          simp [hok] at this
        rw [List.count_filter (by simpa using hok)]
        omega
    | false =>
        have h1 : s.collected.count a = 0 := by
          rw [List.count_eq_zero]
          intro hm
          have := hI.collectedOk a hm
          simp [hok] at this
        have h2 : (files.filter ok).count a = 0 := by
          rw [List.count_eq_zero]
          intro hm
          have := (List.mem_filter.1 hm).2
          simp [hok] at this
        omega
  · rw [List.perm_iff_count]
    intro a
    have h := hcount a
    cases hok : ok a with
    | true =>
        have hf : s.failed.count a = 0 := by
          rw [List.count_eq_zero]
          intro hm
          have := hI.failedBad a hm
          simp [hok] at this
        have h2 : (files.filter (fun f => !ok f)).count a = 0 := by
          rw [List.count_eq_zero]
          intro hm
          have := (List.mem_filter.1 hm).2
          simp [hok] at this
        omega
    | false =>
        have h1 : s.collected.count a = 0 := by
          rw [List.count_eq_zero]
          intro hm
          have := hI.collectedOk a hm
          simp [hok] at this
        rw [List.count_filter (by simp [hok])]
        omega

end Cpf.Scan.PoolF
