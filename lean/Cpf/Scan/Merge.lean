/-
  Model of the merge in graph.Initialize: per-file graphs arrive in some order; for each, every node is
  stored by identity (`codeGraph.Nodes[id] = node`, a later insert with an equal identity wins) and every
  call link is appended.
-/
namespace Cpf.Scan.Merge

variable {Id V E : Type} [DecidableEq Id]

structure Local (Id V E : Type) where
  nodes : List (Id × V)
  edges : List E

structure Graph (Id V E : Type) where
  nodes : List (Id × V) := []       -- association list, newest binding first
  edges : List E := []

def addLocal (g : Graph Id V E) (l : Local Id V E) : Graph Id V E :=
  { nodes := l.nodes.reverse ++ g.nodes, edges := g.edges ++ l.edges }

/-- merge in arrival order -/
def merge (ls : List (Local Id V E)) : Graph Id V E := ls.foldl addLocal {}

/-- `codeGraph.Nodes[id]` -/
def lookup (nodes : List (Id × V)) (i : Id) : Option V := (nodes.find? (fun p => p.1 = i)).map (·.2)

def ids (l : Local Id V E) : List Id := l.nodes.map (·.1)

end Cpf.Scan.Merge
