"""Shared machinery for the checks: building, the harness client, the Lean proof step,
known findings, evidence."""
import fcntl, hashlib, json, os, random, re, shutil, subprocess, sys, tempfile, time

VERIF = os.path.dirname(os.path.dirname(os.path.abspath(__file__)))
REPO = os.environ.get("CPF_REPO", "/repo")
SP = os.path.join(REPO, "sourcecode-parser")
BUILD = os.path.join(VERIF, "build")
LEAN = os.path.join(VERIF, "lean")
REPLAYS = os.path.join(VERIF, "replays")
HARNESS_DIR = os.path.join(VERIF, "harness") if os.environ.get("CPF_REPO", "/repo") == "/repo" else os.path.join(VERIF, "build", "harness-alt")
GOENV = dict(os.environ, GOPROXY="off", GOSUMDB="off", GOTOOLCHAIN="local", CGO_ENABLED="1")
ALLOWED_AXIOMS = {"propext", "Classical.choice", "Quot.sound"}

TRUSTED_BASE = [
    "Lean 4.33.0 kernel (thorough tier re-checks the property modules with leanchecker)",
    "axioms: at most propext, Classical.choice, Quot.sound (audited per theorem with collectAxioms on every run); no sorry/admit/native_decide/bv_decide/own axioms",
    "tools/factgen (go/ast reader that regenerates lean/Cpf/Generated/*.lean from /repo on every run)",
    "the correspondence check (Go harness built from /repo with -tags verif, Lean driver, Python generators and canonicalisers)",
    "modelled, not verified: tree-sitter-java, ANTLR runtime + generated parser, expr-lang, Go stdlib (strings, bufio, filepath.Walk, encoding/json, fmt), go-sarif, cobra, the OS",
    "SHA-256 collision resistance (identities are compared through pre-images)",
]


def log(*a):
    print(*a, file=sys.stderr, flush=True)


def sh(cmd, cwd=None, env=None, timeout=None, check=False, input=None):
    p = subprocess.run(cmd, cwd=cwd, env=env, timeout=timeout, input=input,
                       stdout=subprocess.PIPE, stderr=subprocess.STDOUT, text=True, shell=isinstance(cmd, str))
    if check and p.returncode != 0:
        raise RuntimeError("command failed (%d): %s\n%s" % (p.returncode, cmd, p.stdout[-4000:]))
    return p.returncode, p.stdout


class BuildLock:
    def __enter__(self):
        os.makedirs(BUILD, exist_ok=True)
        self.f = open(os.path.join(BUILD, ".lock"), "w")
        fcntl.flock(self.f, fcntl.LOCK_EX)
        return self

    def __exit__(self, *a):
        fcntl.flock(self.f, fcntl.LOCK_UN)
        self.f.close()


def repo_state():
    """A fingerprint of /repo's working tree (HEAD + uncommitted diff)."""
    _, head = sh(["git", "-C", REPO, "rev-parse", "HEAD"])
    _, diff = sh(["git", "-C", REPO, "diff", "HEAD"])
    _, st = sh(["git", "-C", REPO, "status", "--porcelain"])
    return head.strip(), hashlib.sha256((diff + st).encode()).hexdigest()[:12]


class BuildError(Exception):
    pass


def build_go():
    """Rebuild harness, CLI, gen-script and factgen from /repo's current working tree."""
    with BuildLock():
        t0 = time.time()
        h = os.path.join(VERIF, "harness")
        if REPO != "/repo":
            # exploratory runs against a copy of the repository (CPF_REPO=<dir>; never used by the registered
            # commands): the harness module's `replace` names /repo, so build from a rewritten copy
            h2 = os.path.join(BUILD, "harness-alt")
            shutil.rmtree(h2, ignore_errors=True)
            shutil.copytree(h, h2)
            gm = open(os.path.join(h2, "go.mod")).read().replace("=> /repo/", "=> " + REPO.rstrip("/") + "/")
            open(os.path.join(h2, "go.mod"), "w").write(gm)
            h = h2
        shutil.copy(os.path.join(SP, "go.sum"), os.path.join(h, "go.sum"))
        env = dict(GOENV, GOFLAGS="-mod=mod")
        rc, out = sh(["go", "build", "-tags", "verif", "-o", os.path.join(BUILD, "cpfh"), "."], cwd=h, env=env)
        if rc != 0:
            raise BuildError("harness build failed:\n" + out[-3000:])
        env2 = dict(GOENV)
        env2.pop("GOFLAGS", None)
        rc, out = sh(["go", "build", "-tags", "verif", "-o", os.path.join(BUILD, "pathfinder"), "."], cwd=SP, env=env2)
        if rc != 0:
            raise BuildError("CLI build failed:\n" + out[-3000:])
        rc, out = sh(["go", "build", "-o", os.path.join(BUILD, "gen-script"), "."],
                     cwd=os.path.join(REPO, "pathfinder-rules", "gen-script"), env=env2)
        if rc != 0:
            raise BuildError("gen-script build failed:\n" + out[-3000:])
        rc, out = sh(["go", "build", "-o", os.path.join(BUILD, "factgen"), "."], cwd=os.path.join(VERIF, "tools", "factgen"), env=env2)
        if rc != 0:
            raise BuildError("factgen build failed:\n" + out[-3000:])
        return time.time() - t0


def run_factgen():
    """Regenerate lean/Cpf/Generated from /repo. Returns (ok, message)."""
    with BuildLock():
        gen = os.path.join(LEAN, "Cpf", "Generated")
        tmp = tempfile.mkdtemp(prefix="gen", dir=BUILD)
        try:
            rc, out = sh([os.path.join(BUILD, "factgen"), REPO, tmp])
            if rc != 0:
                return False, out
            rc2, out2 = sh([sys.executable, os.path.join(VERIF, "tools", "g4gen.py"),
                            os.path.join(SP, "antlr", "Query.g4"), os.path.join(tmp, "Grammar.lean")])
            if rc2 != 0:
                return False, out2
            os.makedirs(gen, exist_ok=True)
            # only touch files whose content changed (keeps lake's incremental build quiet)
            for fn in os.listdir(tmp):
                new = open(os.path.join(tmp, fn), "rb").read()
                dst = os.path.join(gen, fn)
                if not os.path.exists(dst) or open(dst, "rb").read() != new:
                    with open(dst, "wb") as f:
                        f.write(new)
            for fn in os.listdir(gen):
                if fn not in os.listdir(tmp):
                    os.remove(os.path.join(gen, fn))
            return True, ""
        finally:
            shutil.rmtree(tmp, ignore_errors=True)


_THM_RE = re.compile(r"^\s*(?:private\s+|protected\s+)?theorem\s+([A-Za-z_][A-Za-z0-9_'.]*)")


def theorems_in(path):
    """(line, name) of every `theorem` in a Lean source file."""
    res = []
    for i, l in enumerate(open(path, encoding="utf-8"), 1):
        m = _THM_RE.match(l)
        if m:
            res.append((i, m.group(1)))
    return res


def forbidden_tokens():
    """grep the Lean sources for constructs that would void the proofs."""
    bad = []
    pat = re.compile(r"\b(sorry|admit|native_decide|bv_decide|implemented_by|unsafe)\b|^\s*axiom\s|maxHeartbeats\s+0\b")
    for root, _, files in os.walk(os.path.join(LEAN, "Cpf")):
        for fn in files:
            if not fn.endswith(".lean") or fn == "AuditTool.lean":
                continue
            p = os.path.join(root, fn)
            incomment = 0
            for i, l in enumerate(open(p, encoding="utf-8"), 1):
                s = l
                # strip block comments (no nesting needed for our files) and line comments
                if incomment:
                    if "-/" in s:
                        s = s.split("-/", 1)[1]
                        incomment = 0
                    else:
                        continue
                while "/-" in s:
                    a, b = s.split("/-", 1)
                    if "-/" in b:
                        s = a + b.split("-/", 1)[1]
                    else:
                        s = a
                        incomment = 1
                s = s.split("--", 1)[0]
                # ignore string literals
                s = re.sub(r'"(?:[^"\\]|\\.)*"', '""', s)
                if pat.search(s):
                    bad.append("%s:%d: %s" % (os.path.relpath(p, LEAN), i, l.strip()))
    return bad


def lean_prove(pid, modules=None, thorough=False):
    """Build the property module(s) against freshly generated tables, audit axioms.
    Returns dict(obligations, discharged, failed=[(theorem, message)], audit=[...], log)."""
    modules = modules or ["Cpf.Props." + pid]
    res = dict(obligations=0, discharged=0, failed=[], theorems=[], log="", checker_cmd="")
    with BuildLock():
        cmd = ["lake", "build"] + modules + ["Cpf.AuditTool"]
        res["checker_cmd"] = "cd /verif/lean && " + " ".join(cmd) + " && lake env lean <audit file: #audit_ns per module>"
        rc, out = sh(cmd, cwd=LEAN, timeout=3000)
        res["log"] = out[-6000:]
        declared = []
        for m in modules:
            path = os.path.join(LEAN, *m.split(".")) + ".lean"
            for ln, name in theorems_in(path):
                declared.append((m, path, ln, name))
        res["obligations"] = len(declared)
        if rc != 0:
            # map error lines to theorems
            failed = {}
            for mm in re.finditer(r"error: ([^\s:]+\.lean):(\d+):(\d+): (.*)", out):
                f, ln, msg = mm.group(1), int(mm.group(2)), mm.group(4)
                cand = [(l, n) for (m, p, l, n) in declared if p.endswith(f) and l <= ln]
                if not cand:
                    # the failing declaration sits in an imported module (a lemma file, another property's module)
                    ip = os.path.join(LEAN, f)
                    if os.path.exists(ip):
                        cand = [(l, n) for (l, n) in theorems_in(ip) if l <= ln]
                if cand:
                    failed.setdefault(cand[-1][1], msg)
                else:
                    failed.setdefault("<%s:%d>" % (f, ln), msg)
            if not failed:
                failed["<build>"] = out[-1500:]
            res["failed"] = sorted(failed.items())
            res["discharged"] = 0
            return res
        # audit
        audit = "import Cpf.AuditTool\n" + "".join("import %s\n" % m for m in modules) + \
                "".join("#audit_ns %s\n" % m for m in modules)
        af = os.path.join(BUILD, "audit_%s_%d.lean" % (pid, os.getpid()))
        with open(af, "w") as f:
            f.write(audit)
        rc, out = sh(["lake", "env", "lean", af], cwd=LEAN, timeout=1200)
        os.remove(af)
        seen = {}
        for mm in re.finditer(r"AUDIT (\S+) :: \[(.*?)\]", out):
            name, axs = mm.group(1), [a.strip() for a in mm.group(2).split(",") if a.strip()]
            seen[name] = axs
        if rc != 0:
            res["failed"].append(("<audit>", out[-1500:]))
        for (m, p, ln, name) in declared:
            full = m + "." + name if not name.startswith("Cpf.") else name
            # theorems may live in a namespace equal to the module name (our convention)
            axs = seen.get(full)
            if axs is None:
                # try suffix match
                cands = [k for k in seen if k.endswith("." + name)]
                axs = seen[cands[0]] if cands else None
            if axs is None:
                res["failed"].append((name, "theorem not found by audit"))
                continue
            extra = [a for a in axs if a not in ALLOWED_AXIOMS]
            if extra:
                res["failed"].append((name, "depends on non-standard axioms: %s" % extra))
                continue
            res["theorems"].append({"name": full, "axioms": axs})
            res["discharged"] += 1
        bad = forbidden_tokens()
        if bad:
            res["failed"].append(("<forbidden-constructs>", "; ".join(bad[:10])))
            res["discharged"] = 0
        if thorough and not res["failed"]:
            for m in modules:
                rc, out = sh(["lake", "env", "leanchecker", m], cwd=LEAN, timeout=3000)
                if rc != 0:
                    res["failed"].append(("<leanchecker %s>" % m, out[-1500:]))
        return res


# ---------------------------------------------------------------- harness client

class Harness:
    """JSON-lines client of build/cpfh. Restarts the process if it dies (log.Fatal, os.Exit, cgo fault)."""

    def __init__(self, env=None, cwd=None, memlimit="3GiB"):
        self.env = dict(os.environ, GOMEMLIMIT=memlimit)
        if env:
            self.env.update(env)
        self.cwd = cwd
        self.p = None
        self.deaths = 0

    def start(self):
        self.p = subprocess.Popen([os.path.join(BUILD, "cpfh")], stdin=subprocess.PIPE, stdout=subprocess.PIPE,
                                  stderr=subprocess.DEVNULL, env=self.env, cwd=self.cwd)

    def call(self, timeout=120, **req):
        if self.p is None or self.p.poll() is not None:
            self.start()
        try:
            self.p.stdin.write((json.dumps(req) + "\n").encode())
            self.p.stdin.flush()
        except BrokenPipeError:
            self.deaths += 1
            self.p = None
            return {"outcome": "died", "rc": None}
        import select
        r, _, _ = select.select([self.p.stdout], [], [], timeout)
        if not r:
            self.p.kill()
            self.p.wait()
            self.p = None
            return {"outcome": "hang"}
        line = self.p.stdout.readline()
        if not line:
            rc = self.p.wait()
            self.p = None
            self.deaths += 1
            return {"outcome": "died", "rc": rc}
        return json.loads(line)

    def close(self):
        if self.p and self.p.poll() is None:
            try:
                self.p.stdin.close()
                self.p.wait(timeout=5)
            except Exception:
                self.p.kill()
        self.p = None


def cli(args, timeout=120, env=None, input=None, cwd=None):
    """Run the real CLI binary built from /repo. Returns (rc, stdout, stderr)."""
    e = dict(os.environ)
    e["HOME"] = os.path.join(BUILD, "home")
    os.makedirs(e["HOME"], exist_ok=True)
    if env:
        e.update(env)
    try:
        p = subprocess.run([os.path.join(BUILD, "pathfinder")] + args, stdout=subprocess.PIPE, stderr=subprocess.PIPE,
                           timeout=timeout, env=e, input=input, cwd=cwd)
        return p.returncode, p.stdout, p.stderr
    except subprocess.TimeoutExpired as ex:
        return -999, ex.stdout or b"", ex.stderr or b""


# ---------------------------------------------------------------- Lean driver client

class Driver:
    """Line-protocol client of the Lean model driver (native binary built by `lake build cpfdriver`)."""

    def __init__(self):
        exe = os.path.join(LEAN, ".lake", "build", "bin", "cpfdriver")
        def limit():
            # a runaway model computation must fail this one check, not take the machine down
            import resource
            resource.setrlimit(resource.RLIMIT_AS, (16 << 30, 16 << 30))
        self.p = subprocess.Popen([exe], stdin=subprocess.PIPE, stdout=subprocess.PIPE, stderr=subprocess.DEVNULL, preexec_fn=limit)

    def call(self, *fields):
        line = "\t".join(esc(f) for f in fields) + "\n"
        self.p.stdin.write(line.encode("utf-8", "surrogateescape"))
        self.p.stdin.flush()
        out = self.p.stdout.readline()
        if not out:
            raise RuntimeError("Lean driver died on: " + line[:300])
        return [unesc(x) for x in out.decode("utf-8", "surrogateescape").rstrip("\n").split("\t")]

    def close(self):
        try:
            self.p.stdin.close()
            self.p.wait(timeout=5)
        except Exception:
            self.p.kill()


def esc(s):
    return s.replace("\\", "\\\\").replace("\t", "\\t").replace("\n", "\\n").replace("\r", "\\r")


def unesc(s):
    out, i = [], 0
    while i < len(s):
        c = s[i]
        if c == "\\" and i + 1 < len(s):
            n = s[i + 1]
            out.append({"t": "\t", "n": "\n", "r": "\r", "\\": "\\"}.get(n, n))
            i += 2
        else:
            out.append(c)
            i += 1
    return "".join(out)


def build_driver():
    with BuildLock():
        rc, out = sh(["lake", "build", "cpfdriver"], cwd=LEAN, timeout=3000)
        if rc != 0:
            raise BuildError("Lean driver build failed:\n" + out[-3000:])


# ---------------------------------------------------------------- findings / evidence

def load_known():
    p = os.path.join(VERIF, "known_findings.json")
    if not os.path.exists(p):
        return {"findings": [], "fixed": []}
    return json.load(open(p))


# files whose functions matter to a property beyond the files its anchors name
EXTRA_FILES = {
    "C01": ["sourcecode-parser/graph/util.go"], "C02": ["sourcecode-parser/graph/query.go", "sourcecode-parser/cmd/query.go"],
    "C04": ["sourcecode-parser/graph/util.go"], "C05": ["sourcecode-parser/model/", "sourcecode-parser/graph/query.go"],
    "C06": ["sourcecode-parser/model/", "sourcecode-parser/graph/query.go", "sourcecode-parser/graph/java/"],
    "C07": ["sourcecode-parser/graph/util.go"], "C08": ["sourcecode-parser/graph/util.go"],
    "C10": ["sourcecode-parser/graph/query.go", "sourcecode-parser/cmd/query.go", "sourcecode-parser/antlr/listener_impl.go"],
    "C12": ["sourcecode-parser/graph/query.go", "sourcecode-parser/antlr/listener_impl.go"],
    "C13": ["sourcecode-parser/graph/query.go", "sourcecode-parser/antlr/listener_impl.go"],
    "C14": ["sourcecode-parser/antlr/listener_impl.go", "sourcecode-parser/cmd/query.go", "sourcecode-parser/graph/query.go"],
    "C15": ["sourcecode-parser/graph/query.go", "sourcecode-parser/cmd/query.go", "sourcecode-parser/model/"],
    "C16": ["sourcecode-parser/graph/query.go", "sourcecode-parser/cmd/query.go", "sourcecode-parser/model/"],
    "C17": ["sourcecode-parser/cmd/query.go", "sourcecode-parser/graph/query.go"],
    "C19": ["sourcecode-parser/graph/construct.go", "sourcecode-parser/graph/query.go", "sourcecode-parser/antlr/listener_impl.go"],
}


def changed_functions(pid):
    """Functions of the files property `pid` is anchored in whose source differs from the tree the hand-written
    models were last validated against (fingerprints.expected.json). Used only to deepen the search."""
    try:
        exp = json.load(open(os.path.join(VERIF, "fingerprints.expected.json")))
        cur = json.load(open(os.path.join(LEAN, "Cpf", "Generated", "fingerprints.json")))
    except Exception:
        return []
    files = list(EXTRA_FILES.get(pid, []))
    try:
        for l in open(os.path.join(VERIF, "properties.jsonl")):
            pr = json.loads(l)
            if pr["id"] == pid:
                files += pr["anchors"]["files"]
    except Exception:
        pass
    out = []
    for k in sorted(set(exp) | set(cur)):
        if ":" not in k or exp.get(k) == cur.get(k):
            continue
        f = k.split(":")[0]
        if any(f == x or (x.endswith("/") and f.startswith(x)) for x in files):
            out.append(k)
    return out


class Run:
    """State of one check run: proof results, counts, violations, evidence."""

    def __init__(self, pid, tier, seed):
        self.pid, self.tier, self.seed = pid, tier, seed
        # depth of the generators: the quick tier deepens to the thorough sizes (without the long extras: native
        # fuzzing, race detector, leanchecker) when a function the property depends on differs from the validated tree
        self.depth = tier
        self.changed = []
        self.t0 = time.time()
        self.rng = random.Random(seed * 1000003 + int(pid[1:]))
        self.known = [k for k in load_known()["findings"] if k["property"] == pid]
        self.known_hit = {}
        self.violations = []
        self.evaluations = 0
        self.nontrivial = set()
        self.samples = []
        self.extra = {}
        self.proof = None
        self.broken = []   # broken proof obligations / correspondences (names)

    def count(self, key=None, n=1):
        self.evaluations += n
        if key is not None:
            self.nontrivial.add(key if isinstance(key, (str, int, tuple)) else json.dumps(key, sort_keys=True))

    def sample(self, s, limit=6):
        if len(self.samples) < limit:
            self.samples.append(s)

    def violation(self, signature, what, replay):
        """Report a concrete violation (signature is matched against known_findings.json)."""
        for k in self.known:
            if k["signature"] == signature:
                if signature not in self.known_hit:
                    self.known_hit[signature] = (k, what, replay)
                return False
        same = sum(1 for v in self.violations if v["signature"] == signature)
        self.suppressed = getattr(self, "suppressed", 0)
        if same >= 3 or len(self.violations) >= 24:
            self.suppressed += 1
            return True
        self.violations.append(dict(signature=signature, what=what, replay=replay, found_input=True))
        return True

    def broken_obligation(self, name, detail):
        self.broken.append((name, detail))

    def finish(self, level_extra=None):
        os.makedirs(REPLAYS, exist_ok=True)
        os.makedirs(os.path.join(VERIF, "evidence"), exist_ok=True)
        lines = []
        for sig, (k, what, replay) in sorted(self.known_hit.items()):
            print("KNOWN-FINDING: property=%s %s [%s]" % (self.pid, k.get("what", what), sig))
        nviol = 0
        for i, v in enumerate(self.violations):
            path = os.path.join(REPLAYS, "%s_%s_%d_%d.json" % (self.pid, self.tier, self.seed, i))
            with open(path, "w") as f:
                json.dump(dict(property=self.pid, tier=self.tier, seed=self.seed, depth=getattr(self, "depth", self.tier), signature=v["signature"], what=v["what"],
                               replay=v["replay"], how_to_replay="./check --replay <this file>  (re-runs the deterministic check with this seed and tier on the current tree and looks for this signature)"),
                          f, indent=1, default=str)
            print("VIOLATION property=%s replay=%s %s" % (self.pid, path, v["what"][:300].replace("\n", " ")))
            nviol += 1
        if self.broken and not self.violations:
            # something no longer checks, and the search found no concrete failing input
            path = os.path.join(REPLAYS, "%s_%s_%d_broken.json" % (self.pid, self.tier, self.seed))
            with open(path, "w") as f:
                json.dump(dict(property=self.pid, tier=self.tier, seed=self.seed, no_longer_checks=[dict(name=n, detail=d) for n, d in self.broken],
                               note="no concrete failing input was found by the search; the property is no longer shown to hold"),
                          f, indent=1, default=str)
            names = ",".join(n for n, _ in self.broken)[:200]
            print("VIOLATION property=%s replay=%s broken=%s no-failing-input-found" % (self.pid, path, names))
            nviol += 1
        pr = self.proof or dict(obligations=0, discharged=0, checker_cmd="", theorems=[], failed=[])
        cov = dict(
            obligations=pr["obligations"], discharged=pr["discharged"], checker_cmd=pr["checker_cmd"] or "n/a",
            trusted_base=TRUSTED_BASE,
            theorems=pr.get("theorems", []), failed_obligations=[list(x) for x in pr.get("failed", [])],
            evaluations=self.evaluations, distinct_nontrivial=len(self.nontrivial),
            samples=self.samples or ["(no differential cases in this run)"],
            known_findings_hit=sorted(self.known_hit.keys()),
            repo_state=list(repo_state()),
        )
        if cov["discharged"] < 1 or cov["obligations"] < 1:
            # nothing was proved in this run (build / factgen / theorem failure): do not present proof-level keys
            cov["obligations_attempted"] = cov.pop("obligations")
            cov["obligations_discharged"] = cov.pop("discharged")
        cov.update(self.extra)
        if level_extra:
            cov.update(level_extra)
        ev = dict(property_id=self.pid, tier=self.tier, seed=self.seed, level="proof", coverage=cov,
                  assumptions=TRUSTED_BASE, wall_s=round(time.time() - self.t0, 2), violations=nviol)
        with open(os.path.join(VERIF, "evidence", self.pid + ".json"), "w") as f:
            json.dump(ev, f, indent=1, default=str)
        return 1 if nviol else 0


def scratch(prefix="cpf"):
    base = os.environ.get("CPF_SCRATCH", "/tmp")
    return tempfile.mkdtemp(prefix=prefix + "-", dir=base)


def run_console(argv, payload, rng=None, chunks=None, timeout=120, env=None, pause=0.01):
    """Drive an interactive process: write `payload` to its stdin (all at once, or in `chunks`-sized pieces with
    small pauses) while its output is read concurrently, so that neither side can block the other for good.
    Returns (output bytes, return code); the return code is None when the deadline passed (the process is killed)."""
    import select, threading
    p = subprocess.Popen(argv, stdin=subprocess.PIPE, stdout=subprocess.PIPE, stderr=subprocess.STDOUT, env=env)
    buf = []

    def reader():
        while True:
            b = p.stdout.read(65536)
            if not b:
                return
            buf.append(b)
    t = threading.Thread(target=reader, daemon=True)
    t.start()
    deadline = time.time() + timeout
    fd = p.stdin.fileno()
    os.set_blocking(fd, False)
    i, hang = 0, False
    while i < len(payload):
        n = len(payload) - i if not chunks else rng.choice(chunks)
        piece = payload[i:i + n]
        while piece:
            if time.time() > deadline:
                hang = True
                break
            _, w, _ = select.select([], [fd], [], 0.5)
            if not w:
                if p.poll() is not None:
                    piece = b""
                    i = len(payload)
                continue
            try:
                k = os.write(fd, piece)
            except BlockingIOError:
                continue
            except (BrokenPipeError, OSError):
                piece = b""
                i = len(payload)
                break
            piece = piece[k:]
            i += k
        if hang:
            break
        if chunks and rng.random() < 0.2:
            time.sleep(pause)
    try:
        p.stdin.close()
    except Exception:
        pass
    if not hang:
        try:
            p.wait(timeout=max(1, deadline - time.time()))
        except subprocess.TimeoutExpired:
            hang = True
    if hang:
        p.kill()
        p.wait()
    t.join(timeout=10)
    return b"".join(buf), (None if hang else p.returncode)
