"""C17 — CI reports conserve per-rule findings and survive a bad rule.

Proof: Cpf.Props.C17 (one JSON entry per rule with its query / metadata / stand-alone result; SARIF results = the
findings of all rules, each with rule id, lower-cased severity, description, file and line; a failing rule keeps
its entry and adds nothing; isolation; report path under GitHub Actions; regenerated key agreement).
Correspondence: the SARIF results predicted by the Lean model from the per-rule stand-alone findings vs the real
report. Oracle: real `pathfinder ci` (json and sarif, GITHUB_ACTIONS set/unset) on generated rulesets — 1..8 rule
files, nested directories, malformed rules at any position — vs real `pathfinder query` per rule."""
import collections, json, os, random, re, shutil
from vlib import common as C, engine as E, querygen as QG, genquery as GQ, genrules as GR
from checks import c18

LEAN_MODULES = ["Cpf.Props.C17"]

BAD = ["FROM method_declaration md SELECT", "FROM method_declaration AS md WHERE SELECT md", "SELECT x", "FROM method_declaration AS md WHERE md.getName() == 'x' SELECT md",
       "FROM method_declaration AS md SELECT md extra tokens"]


def rename_calls(c, old, new):
    if c[0] == "call":
        return ("call", new if c[1] == old else c[1], c[2])
    if c[0] == "atom":
        return c
    return (c[0],) + tuple(rename_calls(k, old, new) for k in c[1:])


def run(run):
    C.build_driver()
    h, d = C.Harness(), C.Driver()
    rng = run.rng
    quick = run.depth == "quick"
    stats = collections.Counter()
    mism = []
    # several entities on one line: a rule has more than one finding at one file and line
    twin = "class Twin { void t(int a) { int u = a; int w = a + 1; emit(u); emit(w); if (a > 1) { emit(a); } if (a > 2) { emit(a); } } void emit(int x) { } }\n"
    proj = E.small_project(rng, h, nfiles=2, extra={"src/Twin.java": twin})
    tmp = C.scratch("c17")
    try:
        kinds = [k for k in QG.KINDS_DEFAULT if proj.by_kind.get(k)]
        for case in range(4 if quick else 40):
            rdir = os.path.join(tmp, "rules%d" % case)
            nrules = rng.randint(1, 8)
            rules = []      # (relative path, text, meta, query or None if malformed)
            heads = []
            # helper predicates whose name and parameter kind several rules of the ruleset share (each with a body of
            # its own), and rules that call such a helper without declaring it
            shared = (rng.choice(kinds), rng.choice(["isTarget", "helper", "p"])) if case % 2 == 1 or rng.random() < 0.5 else None
            if case < 2:
                nrules = max(nrules, 4)
            if case == 1:
                nrules = max(nrules, 7)         # always: three rules (4, 5, 6) around one shared helper name, the last one without a declaration
            for i in range(nrules):
                sub = os.path.join(*[rng.choice(["a", "b", "c"]) for _ in range(rng.randint(1, 2))]) if rng.random() < 0.5 else ""
                rel = os.path.join(sub, "r%02d_%s.cql" % (i, rng.choice(["x", "y", "z"])))
                bad = rng.random() < 0.3
                directed_helper = case == 1 and i in (4, 5, 6)
                if directed_helper:
                    bad = False
                if case < 2 and i < 2:
                    # always: an empty and a blanks-only rule file that come first in their directory (the top directory in
                    # one ruleset, a sub-directory in the other), with rules after them
                    sub = "" if case == 0 else "a"
                    rel = os.path.join(sub, "r%02d_%s.cql" % (i, "x"))
                    text = ["", "   \n\t\n"][i]
                    rules.append((rel, text, {}, None))
                    p = os.path.join(rdir, rel)
                    os.makedirs(os.path.dirname(p), exist_ok=True)
                    open(p, "wb").write(text.encode("utf-8"))
                    continue
                if case < 2 and i == 2:
                    sub, bad = ("" if case == 0 else "a"), False
                    rel = os.path.join(sub, "r%02d_%s.cql" % (i, "y"))
                if bad and rng.random() < 0.35:
                    # a rule file with nothing in it (an empty placeholder, blanks only, a header without a query)
                    text = rng.choice(["", "\n", "   \n\t\n", "/**\n * @id empty/header-only\n */\n"])
                    meta = {"id": "empty/header-only"} if "@id" in text else {}
                    rules.append((rel, text, meta, None))
                elif bad:
                    hl, meta = GR.header(rng, "\n")
                    text = "\n".join(hl + [rng.choice(BAD)]) + "\n"
                    rules.append((rel, text, meta, None))
                else:
                    if case < 2 and i == 3:
                        # always: a rule without WHERE over a kind that has several entities on one line
                        q = QG.random_query(rng, kinds=[["variable_declaration", "method_invocation"][case]], values=proj.values, depth=0, n_preds=0, n_entities=1, where=False)
                    elif shared and (directed_helper or rng.random() < 0.6):
                        q = QG.random_query(rng, kinds=[shared[0]], values=proj.values, depth=1, n_preds=1, n_entities=1)
                        old = q.preds[0].name
                        q.preds[0].name = shared[1]
                        call = ("call", shared[1], (q.from_items[0][1],))
                        rest = rename_calls(q.cond, old, shared[1]) if q.cond is not None else None
                        q.cond = rng.choice([call, QG.mk("not", call)] + ([QG.mk("and", call, rest), QG.mk("or", rest, call)] if rest is not None else []))
                        if (rng.random() < 0.35 and not directed_helper) or (directed_helper and i == 6):
                            q.preds = []            # the helper is used but not declared in this file
                        QG.flatten(q)
                        stats["shared_helper_rules"] += 1
                    else:
                        q = QG.random_query(rng, kinds=kinds, values=proj.values, depth=1, n_preds=rng.choice([0, 0, 1]), n_entities=1)
                    while any("\n" in lx or "\r" in lx for lx in q.lexemes):
                        # a literal that spans lines is the recorded finding of the rule-file readers (C18): not the subject here
                        q = QG.random_query(rng, kinds=kinds, values=proj.values, depth=1, n_preds=rng.choice([0, 0, 1]), n_entities=1)
                    # now and then the header of an earlier rule of the ruleset, copied as it is (only the query differs)
                    forced = GR.header(rng, "\n", note=True) if (case < 2 and i == 3) else None      # always: a note between header and query
                    r = GR.rule_file(rng, q, head=forced if forced else (rng.choice(heads) if heads and rng.random() < 0.35 else None))
                    text, meta = r
                    heads.append(r.head)
                    stats["copied_header_rules"] += int(len(heads) > 1 and r.head[0] in [h_[0] for h_ in heads[:-1]])
                    rules.append((rel, text, meta, q))
                p = os.path.join(rdir, rel)
                os.makedirs(os.path.dirname(p), exist_ok=True)
                open(p, "wb").write(text.encode("utf-8"))
            # not a rule: other extensions
            open(os.path.join(rdir, "README.md"), "w").write("FROM method_declaration AS md SELECT md")
            # the order in which ci sees the rules: filepath.Walk = lexical
            order = sorted(rules, key=lambda r: r[0].split(os.sep))
            # stand-alone answers
            alone = []
            for rel, text, meta, q in order:
                query = h.call(op="rule", text=text)["rule"]["query"]
                # the rule alone: the rule file handed to `query --query-file` (a process of its own)
                rc, so, se = C.cli(["query", "--project", proj.dir, "--query-file", os.path.join(rdir, rel), "--output", "json", "--disable-metrics"])
                raw = c18.last_json(so)
                try:
                    js = json.loads(raw) if raw else None
                except Exception:
                    js = None
                alone.append((query, js))
            run.count(("ruleset", case, tuple(r[0] for r in order)))
            # gha: False = local run; True = GitHub Actions with the workspace somewhere else; "inside" = GitHub Actions
            # with the project checked out beneath the workspace (the usual layout on a runner)
            for gha in (False, True, "inside"):
                ws = os.path.dirname(proj.dir.rstrip("/")) if gha == "inside" else os.path.join(tmp, "ws%d" % case)
                os.makedirs(ws, exist_ok=True)
                env = dict(GITHUB_ACTIONS="true", GITHUB_WORKSPACE=ws) if gha else dict(GITHUB_ACTIONS="", GITHUB_WORKSPACE="")
                for fmt in ("json", "sarif"):
                    name = "report_%d_%s.%s" % (case, ("gha" if gha is True else "ghainside") if gha else "plain", fmt)
                    target = os.path.join(ws, name) if gha else os.path.join(tmp, name)
                    arg = name if gha else target
                    if os.path.exists(target):
                        os.remove(target)
                    if case % 2 == 0:
                        # the report path already holds a (much longer) report of an earlier run
                        with open(target, "w") as f_:
                            json.dump([dict(query="FROM x AS y SELECT y", rule=dict(id="earlier/run-%d" % j, description="left over " * 20), result=dict(output=[["old"]] * 5, result_set=[])) for j in range(300)], f_, indent=1)
                        stats["reports_over_an_earlier_one"] += 1
                    rc, so, se = C.cli(["ci", "--project", proj.dir, "--ruleset", rdir, "--output", fmt, "--output-file", arg, "--disable-metrics"], env=env, cwd=tmp)
                    stats["ci_runs"] += 1
                    if rc != 0 or not os.path.exists(target):
                        where = "beneath the workspace directory" if gha else "at the given path"
                        run.violation("C17:%s-report-missing" % fmt, "`ci --output %s` (rc=%s) wrote no report %s; %d of %d rules are malformed" %
                                      (fmt, rc, where, sum(1 for r in order if r[3] is None), len(order)),
                                      dict(rules={r[0]: r[1] for r in order}, format=fmt, gha=gha, stderr=se[-600:].decode("utf-8", "replace"), stdout=so[-300:].decode("utf-8", "replace")))
                        continue
                    try:
                        rep = json.load(open(target))
                        if gha == "inside":
                            os.remove(target)       # this one sits next to the scratch project, not in our own directory
                    except Exception as ex:
                        run.violation("C17:report-not-json", "the %s report is not well-formed JSON" % fmt, dict(format=fmt, error=str(ex)))
                        continue
                    if fmt == "json":
                        rep = rep or []
                        if len(rep) != len(order):
                            run.violation("C17:json-entry-count", "the JSON report has %d entries for %d rules" % (len(rep), len(order)), dict(rules={r[0]: r[1] for r in order}))
                            continue
                        for (rel, text, meta, q), (query, js), entry in zip(order, alone, rep):
                            ru = entry.get("rule", {})
                            got_meta = dict(id=ru.get("id"), description=ru.get("description"), severity=ru.get("severity"), impact=ru.get("impact"), provider=ru.get("rule_provider"))
                            want_meta = {k: meta.get(k, "") for k in got_meta}
                            if entry.get("query") != query or got_meta != want_meta:
                                run.violation("C17:json-entry-metadata", "entry for %s carries other query/metadata than the rule file" % rel,
                                              dict(rule_file=text, entry_query=entry.get("query"), got=got_meta, want=want_meta))
                            want = c18.E_canon(json.dumps(js)) if js is not None else None
                            got = c18.E_canon(json.dumps(entry.get("result"))) if entry.get("result") is not None else None
                            if got != want:
                                run.violation("C17:json-entry-result", "entry for %s reports other findings than running its query alone (%s vs %s)" %
                                              (rel, None if got is None else len(got), None if want is None else len(want)),
                                              dict(rule_file=text, rules={r[0]: r[1] for r in order}, position=order.index((rel, text, meta, q))))
                    else:
                        runs = rep.get("runs", [])
                        results = runs[0].get("results", []) if runs else []
                        got = [(r.get("ruleId"), r.get("level"), (r.get("message") or {}).get("text"),
                                r["locations"][0]["physicalLocation"]["artifactLocation"]["uri"], r["locations"][0]["physicalLocation"]["region"]["startLine"])
                               for r in results]
                        want = []
                        fields = []
                        for (rel, text, meta, q), (query, js) in zip(order, alone):
                            fields.append(text)
                            if js is None:
                                fields.append("fail")
                                continue
                            rs = js.get("result_set") or []
                            fields += ["ok", str(len(rs))]
                            for e in rs:
                                fields += [e["file"], str(e["line"])]
                                want.append((meta.get("id", ""), meta.get("severity", "").lower(), meta.get("description", ""), e["file"], e["line"]))
                        if collections.Counter(got) != collections.Counter(want):
                            diff = (collections.Counter(got) - collections.Counter(want)) + (collections.Counter(want) - collections.Counter(got))
                            run.violation("C17:sarif-results", "the SARIF report has %d results, the rules' stand-alone findings are %d; e.g. %s" % (len(got), len(want), list(diff)[:2]),
                                          dict(rules={r[0]: r[1] for r in order}, got=got[:5], want=want[:5]))
                        ms = d.call("sarif", *fields)
                        sep = ms.index("--")
                        model_rules = ms[:sep]
                        flat = ms[sep + 1:]
                        model_res = [(flat[i], flat[i + 1], flat[i + 2], flat[i + 3], int(flat[i + 4])) for i in range(0, len(flat) - 4, 5)] if flat != [""] else []
                        real_rules = [r.get("id") for r in (runs[0]["tool"]["driver"].get("rules") or [])] if runs else []
                        # findings of one query come in map-iteration order, which differs between processes: multisets
                        if collections.Counter(model_res) != collections.Counter(got) or model_rules != real_rules:
                            # same multiset but other order is still a model/implementation difference worth knowing
                            mism.append(dict(model=model_res[:3], real=got[:3], model_rules=model_rules, real_rules=real_rules))
            if case < 2:
                run.sample(dict(rules=[r[0] for r in order], malformed=[r[0] for r in order if r[3] is None],
                                findings=[None if js is None else len(js.get("result_set") or []) for _, js in alone]))
    finally:
        proj.close()
        shutil.rmtree(tmp, ignore_errors=True)
        h.close()
        d.close()
    run.extra["histogram"] = dict(stats)
    if mism:
        run.broken_obligation("correspondence:sarif", "the Lean model's SARIF content and the real report differ: %s" % json.dumps(mism[:2])[:1500])
