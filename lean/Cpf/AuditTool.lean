/-
  Audit tool: `#audit_ns Cpf.Props.C19` lists every theorem declared in that namespace together
  with the axioms it depends on. Used by check.py; not part of the model.
-/
import Lean
open Lean Elab Command

elab "#audit_ns " ns:ident : command => do
  let env ← getEnv
  let nsName := ns.getId
  let mut names : Array Name := #[]
  for (n, ci) in env.constants.map₁.toList do
    if nsName.isPrefixOf n && !n.isInternal then
      match ci with
      | .thmInfo _ => names := names.push n
      | _ => pure ()
  for (n, ci) in env.constants.map₂.toList do
    if nsName.isPrefixOf n && !n.isInternal then
      match ci with
      | .thmInfo _ => names := names.push n
      | _ => pure ()
  for n in names.qsort (fun a b => a.toString < b.toString) do
    let axs ← collectAxioms n
    logInfo m!"AUDIT {n} :: {axs.toList}"
