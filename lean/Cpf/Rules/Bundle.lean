/-
  Model of the hosted-ruleset round trip:
    producer  pathfinder-rules/gen-script/main.go   (ReadDir, filepath.Ext == ".cql", json.MarshalIndent of
              {ruleset, files:[{file_name, content}]})
    consumer  cmd/ci.go downloadRuleset              (files[*].content of string type)
    local     cmd/ci.go loadRules                    (Walk, HasSuffix(name, ".cql"), not a directory)
  A flat directory is a list of (name, content) sorted by name (both os.ReadDir and filepath.Walk deliver
  names in lexical order). File names contain no path separator.
-/
import Cpf.Lemmas.JsonRoundtrip

namespace Cpf.Rules.Bundle
open Cpf.Rules.Json

structure File where
  name : List Char
  content : List Char
  deriving Repr, DecidableEq

/-- `filepath.Ext` of a file name without separators: from the last dot -/
def ext (name : List Char) : List Char :=
  if '.' ∈ name then '.' :: (name.reverse.takeWhile (· ≠ '.')).reverse else []

/-- `strings.HasSuffix(name, ".cql")` -/
def hasCqlSuffix (name : List Char) : Bool := name.reverse.take 4 == ['l', 'q', 'c', '.']

/-- what the bundling script writes for a directory: the `.cql` files, names and contents JSON-encoded -/
def produce (dir : List File) : List (List Char × List Char) :=
  (dir.filter (fun f => ext f.name == ['.', 'c', 'q', 'l'])).map (fun f => (escape f.name, escape f.content))

/-- what the loader gets out of the bundle: the decoded `content` of every entry -/
def consume (bundle : List (List Char × List Char)) : List (Option (List Char)) :=
  bundle.map (fun e => unescape e.2)

/-- what loading the same directory from disk yields -/
def loadLocal (dir : List File) : List (List Char) := (dir.filter (fun f => hasCqlSuffix f.name)).map (·.content)

end Cpf.Rules.Bundle
