/-
  Model of cmd/ci.go's aggregation: one entry per rule, in rule order, with the rule's query, metadata and the
  result of running that query alone; the SARIF report has one rule entry per rule and one result per finding.
  A rule whose query fails has no result (`none`): it keeps its entry and contributes no findings.
-/
import Cpf.Rules.RuleFile

namespace Cpf.Rules

structure Finding where
  file : String
  line : Nat
  deriving Repr, DecidableEq

structure Entry where
  rule   : Rule
  result : Option (List Finding)      -- `none`: the query failed to parse / evaluate
  deriving Repr

/-- the JSON report: `for _, rule := range ruleset { … outputResult = append(outputResult, …) }` -/
def ciEntries (run : S → Option (List Finding)) (rules : List S) : List Entry :=
  rules.map (fun text => let r := ciParse text; { rule := r, result := run r.query })

def lowerAscii (s : S) : S := s.map (fun c => if 'A' ≤ c ∧ c ≤ 'Z' then Char.ofNat (c.toNat + 32) else c)

structure SarifResult where
  ruleId  : S
  level   : S
  message : S
  file    : String
  line    : Nat
  deriving Repr, DecidableEq

/-- `generateSarifReport`: results in rule order, findings in result order -/
def sarifResults (es : List Entry) : List SarifResult :=
  es.flatMap (fun e => (e.result.getD []).map (fun f =>
    { ruleId := e.rule.id, level := lowerAscii e.rule.severity, message := e.rule.description, file := f.file, line := f.line }))

/-- the rule entries of the report: one per distinct rule id (go-sarif's AddRule returns the existing entry) -/
def sarifRules (es : List Entry) : List S := (es.map (·.rule.id)).eraseDups

/-- where the report goes: under GitHub Actions beneath the workspace -/
def reportPath (gha : Bool) (workspace file : String) : String := if gha then workspace ++ "/" ++ file else file

end Cpf.Rules
