"""C05 — class, method and variable attributes mirror the source declaration.

Proof: Cpf.Props.C05 (attribute extraction over the tree shapes of the declaration family; Javadoc tag parsing
and visibility extraction as pure string functions).
Correspondence: exact — the Lean attribute model (driver `scan-attrs`) vs the real Node fields on the real tree.
Oracle: the generator's own model of each declaration (what is *written*) vs the attributes the real scanner
extracts, and vs what `SELECT x.getName(), x.getVisibility(), ...` prints through the CLI."""
import collections, json, os, random, shutil
from vlib import querygen as QG
from vlib import common as C, genjava as G, scan as S

LEAN_MODULES = ["Cpf.Props.C05", "Cpf.Lemmas.Fields"]


def norm_list(x):
    return list(x) if x else []


def expected_vs_real(e, n):
    """list of (attribute, expected, got) that differ"""
    diffs = []

    def cmp(attr, want, got):
        if want != got:
            diffs.append((attr, want, got))
    k = e["kind"]
    if k == "class_declaration":
        cmp("name", e["name"], n["name"])
        cmp("visibility", e["visibility"], n["modifier"])
        cmp("superclass", e["superClass"], n["superClass"])
        cmp("interfaces", e["interfaces"], norm_list(n["interfaces"]))
        cmp("annotations", e["annotations"], norm_list(n["annotations"]))
    elif k == "method_declaration":
        cmp("name", e["name"], n["name"])
        cmp("visibility", e["visibility"], n["modifier"])
        cmp("returnType", e["returnType"], n["returnType"])
        cmp("parameterTypes", e["paramTypes"], norm_list(n["argTypes"]))
        cmp("parameterNames", e["paramNames"], norm_list(n["argValues"]))
        cmp("throws", e["throws"], norm_list(n["throws"]))
        cmp("annotations", e["annotations"], norm_list(n["annotations"]))
    elif k == "variable_declaration":
        cmp("name", e["name"], n["name"])
        cmp("visibility", e["visibility"], n["modifier"])
        cmp("dataType", e["dataType"], n["dataType"])
        cmp("initializer", e["value"], n["value"])
        cmp("scope", e["scope"], n["scope"])
    if k in ("class_declaration", "method_declaration") and e.get("javadoc") is not None:
        jd = n.get("javadoc")
        got = [(t["name"], t["text"]) for t in (jd["tags"] if jd else [])]
        cmp("javadoc tags", [tuple(t) for t in e["javadoc"]], got)
        if jd:
            for tag, field in (("author", "author"), ("version", "version")):
                vals = [t[1] for t in e["javadoc"] if t[0] == tag]
                if vals:
                    cmp("javadoc " + tag, vals[-1], jd[field])
    elif k in ("class_declaration", "method_declaration"):
        if n.get("javadoc") is not None and n["javadoc"]["tags"]:
            diffs.append(("javadoc tags", None, n["javadoc"]["tags"]))
    return diffs


DOC_ACCESSORS = [("author", "GetCommentAuthor"), ("version", "GetCommentVersion"), ("since", "GetCommentSince"), ("see", "GetCommentSee"),
                 ("throws", "GetCommentThrows"), ("return", "GetCommentReturn")]


def javadoc_accessors(run, h, ents, real, text, stats):
    """the *queryable* Javadoc attributes: alias.getDoc().GetCommentX() evaluated by the real engine on the scanned
    graph. A single-valued accessor yields the first tag of that name as written (what the accessors document and
    model/javadoc_test.go pins), GetCommentParam all @param texts in source order; an entity without Javadoc yields
    empty values."""
    by_loc = {}
    for e in ents:
        if e["kind"] in ("class_declaration", "method_declaration"):
            by_loc[(e["kind"], e["line"], e["snippet"])] = e
    nodes = {n["id"]: n for n in real["nodes"]}
    for kind in ("class_declaration", "method_declaration"):
        sel = ", ".join("x.getDoc().%s()" % a for _, a in DOC_ACCESSORS) + ", x.getDoc().GetCommentParam()"
        r = h.call(op="query-entities", graph="attrs", q="FROM %s AS x SELECT %s" % (kind, sel), timeout=120)
        if r.get("outcome") != "ok":
            run.violation("C05:javadoc-accessors-abnormal", "selecting the Javadoc accessors of every %s ends with %s" % (kind, r.get("outcome")), dict(source=text, detail=str(r)[:400]))
            continue
        for tup, row in zip(r["tuples"], r["output"]):
            n = nodes.get(tup[0])
            e = by_loc.get((kind, n["line"], n["snippet"])) if n else None
            if e is None:
                continue
            tags = e.get("javadoc") or []
            stats["javadoc_accessor_rows"] += 1
            if len({t[0] for t in tags}) < len(tags):
                stats["javadoc_with_repeated_tag"] += 1
            run.count(("doc", kind, e["line"], len(tags)))
            for j, (tag, acc) in enumerate(DOC_ACCESSORS):
                want = next((t[1] for t in tags if t[0] == tag), "")
                if row[j] != want:
                    run.violation("C05:%s:javadoc-accessor" % kind, "%s at line %d: getDoc().%s() is %r, the first @%s written is %r" % (kind, e["line"], acc, row[j], tag, want),
                                  dict(kind=kind, accessor=acc, written_tags=tags, got=row[j], declaration=e["snippet"][:300], source=text))
            wantp = [t[1] for t in tags if t[0] == "param"]
            if list(row[len(DOC_ACCESSORS)] or []) != wantp:
                run.violation("C05:%s:javadoc-accessor" % kind, "%s at line %d: getDoc().GetCommentParam() is %r, written: %r" % (kind, e["line"], row[len(DOC_ACCESSORS)], wantp),
                              dict(kind=kind, accessor="GetCommentParam", written_tags=tags, got=row[len(DOC_ACCESSORS)], source=text))


def queryable_attributes(run, h, real, text, stats):
    """what a query reads through an alias is the attribute of *that* alias's entity: every string / list accessor of
    the three kinds, selected in one-entity queries and in joins of two and three kinds (each alias at every position
    of the FROM list), against the attribute of the scanned entity"""
    nodes = {n["id"]: n for n in real["nodes"]}
    accs = {k: QG.STRING_ACC[k] + QG.LIST_ACC.get(k, []) for k in ("class_declaration", "method_declaration", "variable_declaration")}
    present = [k for k in accs if any(n["type"] == k for n in nodes.values())]

    def want(n, acc):
        v = n.get(QG.FIELD[acc])
        return norm_list(v) if acc in sum(QG.LIST_ACC.values(), []) else (v or "")
    froms = [[k] for k in present] + [[a, b] for a in present for b in present if a != b]
    if len(present) == 3:
        froms += [list(present), list(reversed(present))]
    for ks in froms:
        size = 1
        for k in ks:
            size *= sum(1 for n in nodes.values() if n["type"] == k)
        if size == 0 or size > 1500:
            continue
        aliases = ["e%d" % i for i in range(len(ks))]
        cols = [(i, acc) for i, k in enumerate(ks) for acc in accs[k]]
        q = "FROM %s SELECT %s" % (", ".join("%s AS %s" % (k, a) for k, a in zip(ks, aliases)), ", ".join("%s.%s()" % (aliases[i], acc) for i, acc in cols))
        r = h.call(op="query-entities", graph="attrs", q=q, timeout=120)
        run.count(("queryable", q, size))
        stats["accessor_queries"] += 1
        if r.get("outcome") != "ok":
            run.violation("C05:accessor-query-abnormal", "selecting the accessors of %s ends with %s" % (ks, r.get("outcome")), dict(source=text, query=q))
            continue
        for tup, row in zip(r["tuples"], r["output"]):
            for (i, acc), got in zip(cols, row):
                n = nodes.get(tup[i])
                if n is None:
                    continue
                w = want(n, acc)
                g_ = norm_list(got) if isinstance(w, list) else got
                stats["accessor_cells"] += 1
                if g_ != w:
                    run.violation("C05:%s:accessor" % ks[i], "in %r the alias %s stands for the %s %r (line %d), but %s.%s() is reported as %r; the entity's attribute is %r" %
                                  (q[:120], aliases[i], ks[i], n["name"], n["line"], aliases[i], acc, got, w),
                                  dict(query=q, kind=ks[i], accessor=acc, got=got, want=w, position=i, source=text))
                    return


def run(run, kinds=("class_declaration", "method_declaration", "variable_declaration"), pid="C05", compare=expected_vs_real):
    C.build_driver()
    h, d = C.Harness(), C.Driver()
    rng = run.rng
    quick = run.depth == "quick"
    stats = collections.Counter()
    mism = []
    try:
        for i in range(15 if quick else 300):
            g = G.Gen(random.Random(rng.random()), G.Opts(unique=True, classes=rng.randint(1, 2), methods=rng.randint(2, 5), fields=rng.randint(1, 4),
                                                          stmts=rng.randint(2, 6), depth=rng.randint(1, 2), eol=rng.choice(["\n", "\n", "\r\n"])))
            text, ents = g.file("K%d_" % i)
            src = text.encode("utf-8")
            file = "gen/F%d.java" % i
            real = S.real_build(h, src, file, graph="attrs")
            if real.get("outcome") != "ok":
                run.violation(pid + ":scan-abnormal", "scan ends with %s" % real.get("outcome"), dict(source=text))
                continue
            if pid == "C05":
                javadoc_accessors(run, h, ents, real, text, stats)
                queryable_attributes(run, h, real, text, stats)
            # correspondence of the attribute model (flat view, entity by entity)
            am = d.call("scan-attrs", file, src.hex(), *S.flat_tree(real["tree"]))
            if am[0] == "ok":
                model_attrs = parse_attrs(am[1:])
                by_id = {n["id"]: n for n in real["nodes"]}
                for pre, fields in last_per_identity(model_attrs):
                    n = by_id.get(S.sha(pre))
                    if n is None:
                        continue
                    rv = flat_view(n)
                    stats["attr_entities"] += 1
                    for key, val in fields.items():
                        if rv.get(key, "<absent>") != val:
                            mism.append(dict(kind=n["type"], line=n["line"], attribute=key, model=val, real=rv.get(key, "<absent>")))
            else:
                mism.append(dict(model_outcome=am[:2]))
            index = collections.defaultdict(list)
            for n in real["nodes"]:
                index[(n["type"], n["line"], n["snippet"])].append(n)
            for e in ents:
                if e["kind"] not in kinds:
                    continue
                cands = index.get((e["kind"], e["line"], e["snippet"]), [])
                run.count((e["kind"], i, e["start"]))
                stats[e["kind"]] += 1
                if not cands:
                    stats["not-represented"] += 1      # C03's business (identity collisions)
                    continue
                diffs = compare(e, cands[0])
                for attr, want, got in diffs:
                    run.violation("%s:%s:%s" % (pid, e["kind"], attr),
                                  "%s at line %d: %s is written as %r but extracted as %r" % (e["kind"], e["line"], attr, want, got),
                                  dict(kind=e["kind"], attribute=attr, written=want, extracted=got, declaration=e["snippet"][:400], source=text))
                if i < 1 and e["kind"] == kinds[1 if len(kinds) > 1 else 0] and len(run.samples) < 3:
                    run.sample(dict(declaration=e["snippet"][:200], expected={k: v for k, v in e.items() if k not in ("snippet", "start", "end", "stmt_spans")}))
        # correspondence only, on shapes the generator does not produce (generics, annotations with arguments, lambdas, …)
        extra = [G.kitchen_sink().encode()]
        for root, _, files in os.walk(os.path.join(C.REPO, "test-src", "android")):
            for f in sorted(files):
                if f.endswith(".java"):
                    extra.append(open(os.path.join(root, f), "rb").read())
        for src in extra[: (8 if quick else len(extra))]:
            file = "real/X.java"
            real = S.real_build(h, src, file)
            if real.get("outcome") != "ok":
                continue
            am = d.call("scan-attrs", file, src.hex(), *S.flat_tree(real["tree"]))
            run.count(("real-file", hash(src)))
            if am[0] != "ok":
                mism.append(dict(model_outcome=am[:2]))
                continue
            by_id = {n["id"]: n for n in real["nodes"]}
            for pre, fields in last_per_identity(parse_attrs(am[1:])):
                n = by_id.get(S.sha(pre))
                if n is None:
                    continue
                rv = flat_view(n)
                stats["attr_entities_real_files"] += 1
                for key, val in fields.items():
                    if rv.get(key, "<absent>") != val:
                        mism.append(dict(kind=n["type"], line=n["line"], attribute=key, model=val, real=rv.get(key, "<absent>")))
    finally:
        h.close()
        d.close()
    run.extra["histogram"] = dict(stats)
    if mism:
        run.broken_obligation("correspondence:attributes", "Lean attribute model and the scanner disagree on %d entities, e.g. %s" % (len(mism), json.dumps(mism[:2])[:1500]))


def parse_attrs(fields):
    out, i = [], 0
    while i < len(fields):
        pre = bytes.fromhex(fields[i]); k = int(fields[i + 1]); i += 2
        d = {}
        for _ in range(k):
            key, val = fields[i], fields[i + 1]
            i += 2
            if val == "n":
                d[key] = None
            elif val.startswith("s:"):
                d[key] = bytes.fromhex(val[2:]).decode("utf-8", "replace")
            else:
                body = val[2:]
                d[key] = [bytes.fromhex(x).decode("utf-8", "replace") for x in body.split(",")] if body != "" else []
        out.append((pre, d))
    return out


def last_per_identity(attrs):
    """entities are stored by identity: of several occurrences with one identity the last one is kept"""
    d = {}
    for pre, fields in attrs:
        d[pre] = fields
    return list(d.items())


def flat_view(n):
    """the real node's attributes under the model's flat keys"""
    v = dict(name=n["name"], modifier=n["modifier"], returnType=n["returnType"], argTypes=norm_list(n["argTypes"]), argValues=norm_list(n["argValues"]),
             superClass=n["superClass"], interfaces=norm_list(n["interfaces"]), dataType=n["dataType"], scope=n["scope"], value=n["value"],
             throws=norm_list(n["throws"]), annotations=norm_list(n["annotations"]))
    v["hasAccess"] = "true" if n.get("hasAccess") else "false"
    jd = n.get("javadoc")
    if jd is None:
        v["tags"] = None
    else:
        v["tags.name"] = [t["name"] for t in jd["tags"]]
        v["tags.text"] = [t["text"] for t in jd["tags"]]
        v["tags.type"] = [t["type"] for t in jd["tags"]]
    for key in ("binary", "if", "while", "do", "for", "break", "continue", "yield", "assert", "return"):
        if n.get(key) is not None:
            for k2, val in n[key].items():
                v[key + "." + k2] = val
    if n.get("block") is not None:
        v["block.stmts"] = norm_list(n["block"]["stmts"])
    if n.get("classInst") is not None:
        v["classInst.name"] = n["classInst"]["name"]
        v["classInst.args.type"] = [a["type"] for a in n["classInst"]["args"]]
        v["classInst.args.text"] = [a["text"] for a in n["classInst"]["args"]]
    return v


def attr_view(n):
    """the attributes of a real node in the model's vocabulary"""
    v = dict(name=n["name"], modifier=n["modifier"], returnType=n["returnType"], argTypes=norm_list(n["argTypes"]), argValues=norm_list(n["argValues"]),
             superClass=n["superClass"], interfaces=norm_list(n["interfaces"]), dataType=n["dataType"], scope=n["scope"], value=n["value"],
             throws=norm_list(n["throws"]), annotations=norm_list(n["annotations"]))
    if n.get("javadoc") is not None:
        v["tags"] = [[t["name"], t["text"], t["type"]] for t in n["javadoc"]["tags"]]
    for key in ("binary", "classInst", "if", "while", "do", "for", "break", "continue", "yield", "assert", "return", "block"):
        if n.get(key) is not None:
            v[key] = n[key]
    return v
