/-
  Generic EBNF grammars, regular-expression lexer rules, tokens, parse trees;
  a maximal-munch lexer (Brzozowski derivatives) and a list-of-successes recogniser with fuel.
  The grammar and the lexer rules themselves are *generated* from Query.g4 on every run
  (Cpf/Generated/Grammar.lean); everything here is generic in them. Core Lean only.
-/
namespace Cpf.Query

/-- Right-hand sides of parser rules (binary `seq`/`alt` keep the type non-nested).
    `x?` is `alt x eps`, `x+` is `seq x (star x)`. -/
inductive Rhs where
  | eps
  | tok (k : String)
  | nt (n : String)
  | seq (a b : Rhs)
  | alt (a b : Rhs)
  | star (a : Rhs)
  deriving Repr, DecidableEq, Inhabited

/-- Regular expressions of lexer rules. -/
inductive Re where
  | empty
  | eps
  | chr (c : Char)
  | set (rs : List (Char × Char))
  | nset (rs : List (Char × Char))
  | any
  | seq (a b : Re)
  | alt (a b : Re)
  | star (a : Re)
  deriving Repr, Inhabited

structure LexRule where
  kind : String
  re   : Re
  skip : Bool
  deriving Repr

structure Token where
  kind : String
  text : String
  deriving Repr, DecidableEq, Inhabited

/-! ### Lexer -/

def inRanges (c : Char) (rs : List (Char × Char)) : Bool :=
  rs.any (fun r => r.1 ≤ c && c ≤ r.2)

namespace Re

def nullable : Re → Bool
  | empty => false
  | eps => true
  | chr _ => false
  | set _ => false
  | nset _ => false
  | any => false
  | seq a b => a.nullable && b.nullable
  | alt a b => a.nullable || b.nullable
  | star _ => true

/-- the language is empty -/
def dead : Re → Bool
  | empty => true
  | seq a b => a.dead || b.dead
  | alt a b => a.dead && b.dead
  | _ => false

def mkSeq (a b : Re) : Re :=
  match a, b with
  | empty, _ => empty
  | _, empty => empty
  | eps, b => b
  | a, b => seq a b

def mkAlt (a b : Re) : Re :=
  match a, b with
  | empty, b => b
  | a, empty => a
  | a, b => alt a b

/-- Brzozowski derivative. -/
def deriv (c : Char) : Re → Re
  | empty => empty
  | eps => empty
  | chr d => if c = d then eps else empty
  | set rs => if inRanges c rs then eps else empty
  | nset rs => if inRanges c rs then empty else eps
  | any => eps
  | seq a b =>
      if a.nullable then mkAlt (mkSeq (a.deriv c) b) (b.deriv c) else mkSeq (a.deriv c) b
  | alt a b => mkAlt (a.deriv c) (b.deriv c)
  | star a => mkSeq (a.deriv c) (star a)

/-- `scan r cs pos best` walks `cs` while the derivative is live.
    Returns (length of the longest matching prefix, number of characters consumed while live). -/
def scan : Re → List Char → Nat → Option Nat → Option Nat × Nat
  | r, [], pos, best => (if r.nullable then some pos else best, pos)
  | r, c :: cs, pos, best =>
      let best' := if r.nullable then some pos else best
      let r' := r.deriv c
      if r'.dead then (best', pos) else scan r' cs (pos + 1) best'

end Re

/-- Result of trying every rule at the head of the input: the winning rule (longest match,
    earliest rule on ties) and the number of characters the combined automaton stayed live. -/
def bestRule : List LexRule → List Char → Option (LexRule × Nat) → Nat → Option (LexRule × Nat) × Nat
  | [], _, acc, live => (acc, live)
  | r :: rs, cs, acc, live =>
      let (m, l) := r.re.scan cs 0 none
      let live' := if l > live then l else live
      let acc' :=
        match m, acc with
        | some n, none => if n > 0 then some (r, n) else none
        | some n, some (r0, n0) => if n > n0 then some (r, n) else some (r0, n0)
        | none, a => a
      bestRule rs cs acc' live'

/-- Maximal-munch lexer. Returns the tokens (skipped rules dropped) and the number of lexer errors.
    On an error the characters the automaton consumed while live, plus one, are dropped (ANTLR's recovery). -/
def lexAux (rules : List LexRule) : Nat → List Char → List Token → Nat → List Token × Nat
  | 0, _, acc, errs => (acc.reverse, errs)
  | _, [], acc, errs => (acc.reverse, errs)
  | fuel + 1, cs, acc, errs =>
      match bestRule rules cs none 0 with
      | (some (r, n), _) =>
          let acc' := if r.skip then acc else { kind := r.kind, text := String.ofList (cs.take n) } :: acc
          lexAux rules fuel (cs.drop n) acc' errs
      | (none, live) => lexAux rules fuel (cs.drop (live + 1)) acc (errs + 1)

def lex (rules : List LexRule) (cs : List Char) : List Token × Nat :=
  lexAux rules (cs.length + 1) cs [] 0

/-! ### Parser -/

inductive PT where
  | leaf (t : Token)
  | node (rule : String) (children : List PT)
  deriving Repr, Inhabited

abbrev Grammar := List (String × Rhs)

def lookup (g : Grammar) (n : String) : Option Rhs :=
  (g.find? (fun p => p.1 == n)).map (·.2)

/-- List-of-successes recogniser producing parse forests; alternatives in rule order, loops greedy first.
    The fuel bounds the nesting depth of non-terminal expansions and loop iterations. -/
def parse (g : Grammar) : Nat → Rhs → List Token → List (List PT × List Token)
  | _, .eps, ts => [([], ts)]
  | _, .tok k, ts =>
      match ts with
      | t :: r => if t.kind = k then [([PT.leaf t], r)] else []
      | [] => []
  | 0, .nt _, _ => []
  | f + 1, .nt n, ts =>
      match lookup g n with
      | none => []
      | some rhs => (parse g f rhs ts).map (fun p => ([PT.node n p.1], p.2))
  | f, .seq a b, ts =>
      (parse g f a ts).flatMap (fun p => (parse g f b p.2).map (fun q => (p.1 ++ q.1, q.2)))
  | f, .alt a b, ts => parse g f a ts ++ parse g f b ts
  | 0, .star _, ts => [([], ts)]
  | f + 1, .star a, ts =>
      ((parse g (f + 1) a ts).flatMap (fun p =>
          (parse g f (.star a) p.2).map (fun q => (p.1 ++ q.1, q.2)))) ++ [([], ts)]
termination_by f r => (f, r)

/-- keep, for every remaining input, the first result that leaves it (ANTLR, too, commits to the first
    alternative): what follows a result depends on its remaining input only, so later results with the same
    remaining input can neither add an accepted sentence nor come first -/
def dedupAux (seen : List (List Token)) : List (List PT × List Token) → List (List PT × List Token)
  | [] => []
  | p :: ps => if seen.contains p.2 then dedupAux seen ps else p :: dedupAux (p.2 :: seen) ps

def dedupRest (l : List (List PT × List Token)) : List (List PT × List Token) := dedupAux [] l

/-- `parse` with `dedupRest` applied to every intermediate result list. The query grammar is ambiguous
    (`f ( )` inside a method chain is a method invocation and a predicate invocation), so `parse` returns a number
    of forests that is exponential in the number of calls; `parseD` returns at most one per remaining input.
    `Cpf.Lemmas.Dedup`: every result of `parseD` is a result of `parse`, and every remaining input `parse` reaches
    `parseD` reaches. -/
def parseD (g : Grammar) : Nat → Rhs → List Token → List (List PT × List Token)
  | _, .eps, ts => [([], ts)]
  | _, .tok k, ts =>
      match ts with
      | t :: r => if t.kind = k then [([PT.leaf t], r)] else []
      | [] => []
  | 0, .nt _, _ => []
  | f + 1, .nt n, ts =>
      match lookup g n with
      | none => []
      | some rhs => dedupRest ((parseD g f rhs ts).map (fun p => ([PT.node n p.1], p.2)))
  | f, .seq a b, ts =>
      dedupRest ((parseD g f a ts).flatMap (fun p => (parseD g f b p.2).map (fun q => (p.1 ++ q.1, q.2))))
  | f, .alt a b, ts => dedupRest (parseD g f a ts ++ parseD g f b ts)
  | 0, .star _, ts => [([], ts)]
  | f + 1, .star a, ts =>
      dedupRest (((parseD g (f + 1) a ts).flatMap (fun p =>
          (parseD g f (.star a) p.2).map (fun q => (p.1 ++ q.1, q.2)))) ++ [([], ts)])
termination_by f r => (f, r)

/-- All complete parses of `ts` from non-terminal `start` (one per remaining input: see `parseD`). -/
def parsesOf (g : Grammar) (fuel : Nat) (start : String) (ts : List Token) : List PT :=
  (parseD g fuel (.nt start) ts).filterMap (fun p =>
    match p.1, p.2 with
    | [t], [] => some t
    | _, _ => none)

def accepts (g : Grammar) (fuel : Nat) (start : String) (ts : List Token) : Bool :=
  (parseD g fuel (.nt start) ts).any (fun p => p.2.isEmpty)

/-- The fuel the driver uses for a token list. -/
def fuelFor (ts : List Token) : Nat := 24 * (ts.length + 2)

/-! ### Parse-tree helpers -/

mutual
def PT.text : PT → String
  | .leaf t => t.text
  | .node _ cs => PT.textList cs
def PT.textList : List PT → String
  | [] => ""
  | c :: cs => c.text ++ PT.textList cs
end

mutual
def PT.tokens : PT → List Token
  | .leaf t => [t]
  | .node _ cs => PT.tokensList cs
def PT.tokensList : List PT → List Token
  | [] => []
  | c :: cs => c.tokens ++ PT.tokensList cs
end

def PT.rule : PT → String
  | .leaf _ => ""
  | .node r _ => r

def PT.children : PT → List PT
  | .leaf _ => []
  | .node _ cs => cs

def PT.isRule (r : String) : PT → Bool
  | .leaf _ => false
  | .node r' _ => r' == r

def PT.isTok (k : String) : PT → Bool
  | .leaf t => t.kind == k
  | .node _ _ => false

/-- first child that is a node of rule `r` -/
def PT.child? (p : PT) (r : String) : Option PT := p.children.find? (PT.isRule r)

def PT.childrenOf (p : PT) (r : String) : List PT := p.children.filter (PT.isRule r)

end Cpf.Query
