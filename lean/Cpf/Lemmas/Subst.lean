/-
  Lemmas on the identifier-aware rewriting of graph/query.go (model: Cpf.Query.Subst).

  * the scanner partitions the text: identifiers, numbers, string literals and single characters, nothing lost
    (`spanIdent_append`, `spanDigits_append`, `strBody_append`);
  * `idents s`: the identifiers the rewriter is called on (outside string literals, maximal), with the
    "follows a dot" flag;
  * a rewrite that keeps every identifier of `s` keeps `s` (`rewriteAux_keep`): expansion and renaming change the
    text only at identifiers they are about.
-/
import Cpf.Query.Subst

namespace Cpf.Lemmas.Subst
open Cpf.Query

theorem spanIdent_append : ∀ cs : List Char, (spanIdent cs).1 ++ (spanIdent cs).2 = cs
  | [] => by simp [spanIdent]
  | c :: cs => by
      unfold spanIdent
      split
      · simp only [List.cons_append]; rw [spanIdent_append cs]
      · simp

theorem spanDigits_append : ∀ cs : List Char, (spanDigits cs).1 ++ (spanDigits cs).2 = cs
  | [] => by simp [spanDigits]
  | c :: cs => by
      unfold spanDigits
      split
      · simp only [List.cons_append]; rw [spanDigits_append cs]
      · simp

theorem strBody_append : ∀ cs : List Char, (strBody cs).1 ++ (strBody cs).2 = cs
  | [] => by simp [strBody]
  | [c] => by
      by_cases h : c = '"'
      · subst h; simp [strBody]
      · by_cases h2 : c = '\\'
        · subst h2; simp [strBody]
        · unfold strBody; split <;> simp_all [strBody]
  | c :: d :: r => by
      by_cases h : c = '"'
      · subst h; simp [strBody]
      · by_cases h2 : c = '\\'
        · subst h2
          simp only [strBody, List.cons_append]
          rw [strBody_append r]
        · have : strBody (c :: d :: r) = (c :: (strBody (d :: r)).1, (strBody (d :: r)).2) := by
            conv => lhs; unfold strBody
            split <;> simp_all
          rw [this]
          simp only [List.cons_append]
          rw [strBody_append (d :: r)]

theorem spanIdent_snd_length (cs : List Char) : (spanIdent cs).2.length ≤ cs.length := by
  have := congrArg List.length (spanIdent_append cs)
  simp only [List.length_append] at this
  omega

theorem spanDigits_snd_length (cs : List Char) : (spanDigits cs).2.length ≤ cs.length := by
  have := congrArg List.length (spanDigits_append cs)
  simp only [List.length_append] at this
  omega

theorem strBody_snd_length (cs : List Char) : (strBody cs).2.length ≤ cs.length := by
  have := congrArg List.length (strBody_append cs)
  simp only [List.length_append] at this
  omega

/-- the identifiers the rewriter is called on, each with its "follows a dot" flag and the text after it
    (same walk as `rewriteAux`, with a rewrite that changes nothing) -/
def identsAux : Nat → Bool → List Char → List (List Char × Bool × List Char)
  | 0, _, _ => []
  | _, _, [] => []
  | fuel + 1, member, c :: cs =>
      if c == '"' then identsAux fuel false (strBody cs).2
      else if isLetter c then (c :: (spanIdent cs).1, member, (spanIdent cs).2) :: identsAux fuel false (spanIdent cs).2
      else if isDigit c then identsAux fuel false (spanDigits cs).2
      else identsAux fuel (c == '.') cs

def idents (s : List Char) : List (List Char × Bool × List Char) := identsAux (s.length + 1) false s

/-- **the rewriter changes the text only at identifiers it replaces**: a rewrite that keeps every identifier
    occurrence of `s` (it returns the identifier and consumes nothing) returns `s` -/
theorem rewriteAux_keep (rw : Rewrite) : ∀ (fuel : Nat) (member : Bool) (s : List Char), s.length < fuel →
    (∀ x ∈ identsAux fuel member s, rw x.1 x.2.1 x.2.2 = (x.1, 0)) → rewriteAux rw fuel member s = s
  | 0, _, _, h, _ => by omega
  | fuel + 1, member, [], _, _ => by simp [rewriteAux]
  | fuel + 1, member, c :: cs, hlen, hk => by
      simp only [List.length_cons] at hlen
      unfold rewriteAux
      unfold identsAux at hk
      by_cases hq : (c == '"') = true
      · simp only [hq, if_true] at hk ⊢
        have hl := strBody_snd_length cs
        rw [rewriteAux_keep rw fuel false (strBody cs).2 (by omega) hk]
        simp only [List.cons_append]
        rw [strBody_append]
        have : c = '"' := by simpa using hq
        rw [this]
      · simp only [hq, Bool.false_eq_true, if_false] at hk ⊢
        by_cases hl : isLetter c = true
        · simp only [hl, if_true] at hk ⊢
          have hlen2 := spanIdent_snd_length cs
          have h1 := hk (c :: (spanIdent cs).1, member, (spanIdent cs).2) (by simp)
          simp only at h1
          rw [h1]
          simp only [List.drop_zero]
          rw [rewriteAux_keep rw fuel false (spanIdent cs).2 (by omega) (fun x hx => hk x (by simp [hx]))]
          simp only [List.cons_append]
          rw [spanIdent_append]
        · simp only [hl, Bool.false_eq_true, if_false] at hk ⊢
          by_cases hd : isDigit c = true
          · simp only [hd, if_true] at hk ⊢
            have hlen2 := spanDigits_snd_length cs
            rw [rewriteAux_keep rw fuel false (spanDigits cs).2 (by omega) hk]
            simp only [List.cons_append]
            rw [spanDigits_append]
          · simp only [hd, Bool.false_eq_true, if_false] at hk ⊢
            rw [rewriteAux_keep rw fuel (c == '.') cs (by omega) hk]

/-- a call of a predicate is expanded only where the predicate's name stands (not after a dot, followed by the
    argument list): a condition in which that does not occur is left as it is -/
theorem replaceCall_untouched (s name args body : List Char)
    (h : ∀ x ∈ idents s, ¬ (x.1 = name ∧ x.2.1 = false ∧ Go.Str.hasPrefix x.2.2 args = true)) :
    replaceCall s name args body = s := by
  unfold replaceCall rewriteIdentifiers
  apply rewriteAux_keep _ _ _ _ (by omega)
  intro x hx
  have := h x hx
  by_cases h1 : x.1 = name
  · by_cases h2 : x.2.1 = false
    · by_cases h3 : Go.Str.hasPrefix x.2.2 args = true
      · exact absurd ⟨h1, h2, h3⟩ this
      · simp [h3]
    · simp [h2]
  · simp [h1]

/-- renaming touches only identifiers that are keys of the renaming and do not follow a dot -/
theorem renameIdentifiers_untouched (s : List Char) (ren : List (List Char × List Char))
    (h : ∀ x ∈ idents s, x.2.1 = true ∨ renLookup ren x.1 = none) : renameIdentifiers s ren = s := by
  unfold renameIdentifiers rewriteIdentifiers
  apply rewriteAux_keep _ _ _ _ (by omega)
  intro x hx
  rcases h x hx with h1 | h1
  · cases hr : renLookup ren x.1 <;> simp [h1]
  · simp [h1]

/-! ### the rewriter at a position inside the text -/

/-- fuel beyond the length of the text is not used -/
theorem rewriteAux_fuel (rw : Rewrite) : ∀ (f1 f2 : Nat) (member : Bool) (s : List Char),
    s.length < f1 → s.length < f2 → rewriteAux rw f1 member s = rewriteAux rw f2 member s
  | 0, _, _, _, h, _ => by omega
  | _ + 1, 0, _, _, _, h => by omega
  | f1 + 1, f2 + 1, member, [], _, _ => by simp [rewriteAux]
  | f1 + 1, f2 + 1, member, c :: cs, h1, h2 => by
      simp only [List.length_cons] at h1 h2
      unfold rewriteAux
      by_cases hq : (c == '"') = true
      · simp only [hq, if_true]
        have := strBody_snd_length cs
        rw [rewriteAux_fuel rw f1 f2 false _ (by omega) (by omega)]
      · simp only [hq, Bool.false_eq_true, if_false]
        by_cases hl : isLetter c = true
        · simp only [hl, if_true]
          have := spanIdent_snd_length cs
          have hd : ∀ k, (List.drop k (spanIdent cs).2).length ≤ cs.length := fun k => by
            simp only [List.length_drop]; omega
          rw [rewriteAux_fuel rw f1 f2 false _ (by have := hd (rw (c :: (spanIdent cs).1) member (spanIdent cs).2).2; omega)
                (by have := hd (rw (c :: (spanIdent cs).1) member (spanIdent cs).2).2; omega)]
        · simp only [hl, Bool.false_eq_true, if_false]
          by_cases hd : isDigit c = true
          · simp only [hd, if_true]
            have := spanDigits_snd_length cs
            rw [rewriteAux_fuel rw f1 f2 false _ (by omega) (by omega)]
          · simp only [hd, Bool.false_eq_true, if_false]
            rw [rewriteAux_fuel rw f1 f2 _ cs (by omega) (by omega)]

theorem rewriteAux_cons (rw : Rewrite) (fuel : Nat) (member : Bool) (c : Char) (cs : List Char) :
    rewriteAux rw (fuel + 1) member (c :: cs) =
      if c == '"' then '"' :: (strBody cs).1 ++ rewriteAux rw fuel false (strBody cs).2
      else if isLetter c then
        (rw (c :: (spanIdent cs).1) member (spanIdent cs).2).1 ++
          rewriteAux rw fuel false ((spanIdent cs).2.drop (rw (c :: (spanIdent cs).1) member (spanIdent cs).2).2)
      else if isDigit c then c :: (spanDigits cs).1 ++ rewriteAux rw fuel false (spanDigits cs).2
      else c :: rewriteAux rw fuel (c == '.') cs := by
  conv => lhs; unfold rewriteAux

/-- the rewriter with just enough fuel -/
def rwS (rw : Rewrite) (member : Bool) (s : List Char) : List Char := rewriteAux rw (s.length + 1) member s

/-- `Reach rw m s p m' r`: started on `s` (flag `m`), the rewriter arrives at the text `r` (flag `m'`) at the start
    of a token, having read `p` and kept every identifier in it. -/
inductive Reach (rw : Rewrite) : Bool → List Char → List Char → Bool → List Char → Prop
  | refl (m : Bool) (s : List Char) : Reach rw m s [] m s
  | str (m : Bool) (cs : List Char) {p : List Char} {m' : Bool} {r : List Char} :
      Reach rw false (strBody cs).2 p m' r → Reach rw m ('"' :: cs) ('"' :: (strBody cs).1 ++ p) m' r
  | ident (m : Bool) (c : Char) (cs : List Char) {p : List Char} {m' : Bool} {r : List Char} :
      isLetter c = true → rw (c :: (spanIdent cs).1) m (spanIdent cs).2 = (c :: (spanIdent cs).1, 0) →
      Reach rw false (spanIdent cs).2 p m' r → Reach rw m (c :: cs) (c :: (spanIdent cs).1 ++ p) m' r
  | num (m : Bool) (c : Char) (cs : List Char) {p : List Char} {m' : Bool} {r : List Char} :
      isLetter c = false → isDigit c = true →
      Reach rw false (spanDigits cs).2 p m' r → Reach rw m (c :: cs) (c :: (spanDigits cs).1 ++ p) m' r
  | chr (m : Bool) (c : Char) (cs : List Char) {p : List Char} {m' : Bool} {r : List Char} :
      (c == '"') = false → isLetter c = false → isDigit c = false →
      Reach rw (c == '.') cs p m' r → Reach rw m (c :: cs) (c :: p) m' r

theorem isLetter_not_quote {c : Char} (h : isLetter c = true) : (c == '"') = false := by
  cases hq : (c == '"') with
  | false => rfl
  | true => rw [beq_iff_eq] at hq; subst hq; simp [isLetter] at h

theorem isDigit_not_quote {c : Char} (h : isDigit c = true) : (c == '"') = false := by
  cases hq : (c == '"') with
  | false => rfl
  | true => rw [beq_iff_eq] at hq; subst hq; simp [isDigit] at h

/-- up to the place reached the text is kept, and the rewriter goes on from there as if started there -/
theorem reach_rewrite (rw : Rewrite) {m : Bool} {s p : List Char} {m' : Bool} {r : List Char} (h : Reach rw m s p m' r) :
    s = p ++ r ∧ rwS rw m s = p ++ rwS rw m' r := by
  induction h with
  | refl m s => simp
  | str m cs _ ih =>
      refine ⟨?_, ?_⟩
      · simp only [List.cons_append, List.append_assoc]; rw [← ih.1, strBody_append]
      · unfold rwS
        rw [show ('"' :: cs).length + 1 = (cs.length + 1) + 1 from rfl]
        rw [rewriteAux_cons]
        simp only [beq_self_eq_true, if_true]
        have := strBody_snd_length cs
        rw [rewriteAux_fuel rw (cs.length + 1) ((strBody cs).2.length + 1) false _ (by omega) (by omega)]
        have := ih.2; unfold rwS at this; rw [this]
        simp
  | ident m c cs hl hk _ ih =>
      refine ⟨?_, ?_⟩
      · simp only [List.cons_append, List.append_assoc]; rw [← ih.1, spanIdent_append]
      · unfold rwS
        rw [show (c :: cs).length + 1 = (cs.length + 1) + 1 from rfl]
        rw [rewriteAux_cons]
        simp only [isLetter_not_quote hl, Bool.false_eq_true, if_false, hl, if_true, hk, List.drop_zero]
        have := spanIdent_snd_length cs
        rw [rewriteAux_fuel rw (cs.length + 1) ((spanIdent cs).2.length + 1) false _ (by omega) (by omega)]
        have := ih.2; unfold rwS at this; rw [this]
        simp
  | num m c cs hl hd _ ih =>
      refine ⟨?_, ?_⟩
      · simp only [List.cons_append, List.append_assoc]; rw [← ih.1, spanDigits_append]
      · unfold rwS
        rw [show (c :: cs).length + 1 = (cs.length + 1) + 1 from rfl]
        rw [rewriteAux_cons]
        simp only [isDigit_not_quote hd, Bool.false_eq_true, if_false, hl, hd, if_true]
        have := spanDigits_snd_length cs
        rw [rewriteAux_fuel rw (cs.length + 1) ((spanDigits cs).2.length + 1) false _ (by omega) (by omega)]
        have := ih.2; unfold rwS at this; rw [this]
        simp
  | chr m c cs hq hl hd _ ih =>
      refine ⟨?_, ?_⟩
      · simp only [List.cons_append]; rw [← ih.1]
      · unfold rwS
        rw [show (c :: cs).length + 1 = (cs.length + 1) + 1 from rfl]
        rw [rewriteAux_cons]
        simp only [hq, Bool.false_eq_true, if_false, hl, hd]
        have := ih.2; unfold rwS at this; rw [this]
        simp

/-! ### a call is replaced where it stands -/

def IdentChars (s : List Char) : Prop := ∀ c ∈ s, (isLetter c || isDigit c) = true

theorem spanIdent_stop (s : List Char) (hs : IdentChars s) (c : Char) (r : List Char)
    (hc : (isLetter c || isDigit c) = false) : spanIdent (s ++ c :: r) = (s, c :: r) := by
  induction s with
  | nil => simp [spanIdent, hc]
  | cons x xs ih =>
      have hx : (isLetter x || isDigit x) = true := hs x (by simp)
      have hxs : IdentChars xs := fun c hc => hs c (by simp [hc])
      simp [spanIdent, hx, ih hxs]

theorem hasPrefix_append_self (a b : List Char) : Go.Str.hasPrefix (a ++ b) a = true := by
  induction a with
  | nil => cases b <;> simp [Go.Str.hasPrefix]
  | cons x xs ih => simp [Go.Str.hasPrefix, ih]

/-- the rewrite function of `replaceCall` -/
def callRw (name args body : List Char) : Rewrite := fun ident member rest =>
  if ident == name && !member && Go.Str.hasPrefix rest args then (body, args.length) else (ident, 0)

theorem replaceCall_eq (s name args body : List Char) : replaceCall s name args body = rwS (callRw name args body) false s := rfl

/-- **C13 (call in context)**: where the rewriter arrives at a call `name(args)` at the start of a token (not after a
    dot), having kept what it read before, and the text after the call contains no further call, the result is the
    text before, the replacement, and the text after — nothing else is touched. -/
theorem replaceCall_in_context (c : Char) (tl a post p s body : List Char)
    (hc : isLetter c = true) (htl : IdentChars tl)
    (hreach : Reach (callRw (c :: tl) ('(' :: a) body) false s p false (c :: tl ++ '(' :: a ++ post))
    (hpost : ∀ x ∈ idents post, ¬ (x.1 = c :: tl ∧ x.2.1 = false ∧ Go.Str.hasPrefix x.2.2 ('(' :: a) = true)) :
    replaceCall s (c :: tl) ('(' :: a) body = p ++ body ++ post := by
  rw [replaceCall_eq, (reach_rewrite _ hreach).2]
  have hspan : spanIdent (tl ++ '(' :: (a ++ post)) = (tl, '(' :: (a ++ post)) :=
    spanIdent_stop tl htl '(' (a ++ post) (by decide)
  have hpre : Go.Str.hasPrefix ('(' :: (a ++ post)) ('(' :: a) = true := by
    simpa using hasPrefix_append_self ('(' :: a) post
  have hstep : rwS (callRw (c :: tl) ('(' :: a) body) false (c :: tl ++ '(' :: a ++ post)
      = body ++ rwS (callRw (c :: tl) ('(' :: a) body) false post := by
    unfold rwS
    rw [show (c :: tl ++ '(' :: a ++ post) = c :: (tl ++ '(' :: (a ++ post)) by simp]
    rw [show (c :: (tl ++ '(' :: (a ++ post))).length + 1 = ((tl ++ '(' :: (a ++ post)).length + 1) + 1 from rfl,
        rewriteAux_cons]
    simp only [isLetter_not_quote hc, Bool.false_eq_true, if_false, hc, if_true, hspan]
    have hcall : callRw (c :: tl) ('(' :: a) body (c :: tl) false ('(' :: (a ++ post)) = (body, ('(' :: a).length) := by
      simp [callRw, hpre]
    rw [hcall]
    have hdrop : List.drop ('(' :: a).length ('(' :: (a ++ post)) = post := by simp
    simp only [hdrop]
    rw [rewriteAux_fuel _ ((tl ++ '(' :: (a ++ post)).length + 1) (post.length + 1) false post (by simp; omega) (by omega)]
  rw [hstep]
  have hkeep : rwS (callRw (c :: tl) ('(' :: a) body) false post = post := by
    unfold rwS
    apply rewriteAux_keep _ _ _ _ (by omega)
    intro x hx
    have := hpost x hx
    unfold callRw
    by_cases h1 : x.1 = c :: tl
    · by_cases h2 : x.2.1 = false
      · by_cases h3 : Go.Str.hasPrefix x.2.2 ('(' :: a) = true
        · exact absurd ⟨h1, h2, h3⟩ this
        · simp [h3]
      · simp [h2]
    · simp [h1]
  rw [hkeep]
  simp

/-! ### renaming, token by token -/

/-- what the rewriter sees: string literals, identifiers (with the "follows a dot" flag), numbers, single characters -/
inductive Tok where
  | str (t : List Char)
  | ident (i : List Char) (member : Bool)
  | num (t : List Char)
  | chr (c : Char)
  deriving Repr, DecidableEq

def Tok.text : Tok → List Char
  | .str t => t
  | .ident i _ => i
  | .num t => t
  | .chr c => [c]

/-- the walk of `rewriteAux`, returning the tokens -/
def toksAux : Nat → Bool → List Char → List Tok
  | 0, _, _ => []
  | _, _, [] => []
  | fuel + 1, member, c :: cs =>
      if c == '"' then .str ('"' :: (strBody cs).1) :: toksAux fuel false (strBody cs).2
      else if isLetter c then .ident (c :: (spanIdent cs).1) member :: toksAux fuel false (spanIdent cs).2
      else if isDigit c then .num (c :: (spanDigits cs).1) :: toksAux fuel false (spanDigits cs).2
      else .chr c :: toksAux fuel (c == '.') cs

def toks (s : List Char) : List Tok := toksAux (s.length + 1) false s

/-- the tokens are the text, cut up: nothing lost, nothing added -/
theorem toksAux_flatten : ∀ (fuel : Nat) (member : Bool) (s : List Char), s.length < fuel →
    (toksAux fuel member s).flatMap Tok.text = s
  | 0, _, _, h => by omega
  | fuel + 1, member, [], _ => by simp [toksAux]
  | fuel + 1, member, c :: cs, hlen => by
      simp only [List.length_cons] at hlen
      unfold toksAux
      by_cases hq : (c == '"') = true
      · have := strBody_snd_length cs
        simp only [hq, if_true, List.flatMap_cons, Tok.text]
        rw [toksAux_flatten fuel false _ (by omega)]
        have hc : c = '"' := by simpa using hq
        simp only [List.cons_append]; rw [strBody_append, hc]
      · simp only [hq, Bool.false_eq_true, if_false]
        by_cases hl : isLetter c = true
        · have := spanIdent_snd_length cs
          simp only [hl, if_true, List.flatMap_cons, Tok.text]
          rw [toksAux_flatten fuel false _ (by omega)]
          simp only [List.cons_append]; rw [spanIdent_append]
        · simp only [hl, Bool.false_eq_true, if_false]
          by_cases hd : isDigit c = true
          · have := spanDigits_snd_length cs
            simp only [hd, if_true, List.flatMap_cons, Tok.text]
            rw [toksAux_flatten fuel false _ (by omega)]
            simp only [List.cons_append]; rw [spanDigits_append]
          · simp only [hd, Bool.false_eq_true, if_false, List.flatMap_cons, Tok.text]
            rw [toksAux_flatten fuel _ cs (by omega)]
            simp

theorem toks_flatten (s : List Char) : (toks s).flatMap Tok.text = s :=
  toksAux_flatten _ _ _ (by omega)

/-- mapping the identifier tokens, keeping the others -/
def mapTok (f : List Char → Bool → List Char) : Tok → List Char
  | .ident i m => f i m
  | t => t.text

@[simp] theorem mapTok_str (f : List Char → Bool → List Char) (t : List Char) : mapTok f (.str t) = t := rfl
@[simp] theorem mapTok_ident (f : List Char → Bool → List Char) (i : List Char) (m : Bool) : mapTok f (.ident i m) = f i m := rfl
@[simp] theorem mapTok_num (f : List Char → Bool → List Char) (t : List Char) : mapTok f (.num t) = t := rfl
@[simp] theorem mapTok_chr (f : List Char → Bool → List Char) (c : Char) : mapTok f (.chr c) = [c] := rfl

/-- a rewrite that looks at the identifier and its flag only, and consumes nothing, acts token by token -/
theorem rewriteAux_tokenwise (rw : Rewrite) (f : List Char → Bool → List Char) (hrw : ∀ i m r, rw i m r = (f i m, 0)) :
    ∀ (fuel : Nat) (member : Bool) (s : List Char),
    rewriteAux rw fuel member s = (toksAux fuel member s).flatMap (mapTok f)
  | 0, _, _ => by simp [rewriteAux, toksAux]
  | fuel + 1, member, [] => by simp [rewriteAux, toksAux]
  | fuel + 1, member, c :: cs => by
      rw [rewriteAux_cons]
      unfold toksAux
      by_cases hq : (c == '"') = true
      · simp only [hq, if_true, List.flatMap_cons, mapTok_str]
        rw [rewriteAux_tokenwise rw f hrw fuel false]
      · simp only [hq, Bool.false_eq_true, if_false]
        by_cases hl : isLetter c = true
        · simp only [hl, if_true, List.flatMap_cons, hrw, List.drop_zero, mapTok_ident]
          rw [rewriteAux_tokenwise rw f hrw fuel false]
        · simp only [hl, Bool.false_eq_true, if_false]
          by_cases hd : isDigit c = true
          · simp only [hd, if_true, List.flatMap_cons, mapTok_num]
            rw [rewriteAux_tokenwise rw f hrw fuel false]
          · simp only [hd, Bool.false_eq_true, if_false, List.flatMap_cons, mapTok_chr]
            rw [rewriteAux_tokenwise rw f hrw fuel _ cs]
            simp

/-- what renaming does to one token: an identifier that is a formal and does not follow a dot becomes its actual;
    everything else — other identifiers, member names, string literals, numbers, punctuation — stays -/
def renTok (ren : List (List Char × List Char)) : Tok → List Char
  | .ident i false => (renLookup ren i).getD i
  | t => t.text

/-- **renaming is simultaneous and token-wise**: every token is mapped on its own (`renTok`); a replacement is never
    looked at again, string literals and member names are never entered -/
theorem renameIdentifiers_tokenwise (s : List Char) (ren : List (List Char × List Char)) :
    renameIdentifiers s ren = (toks s).flatMap (renTok ren) := by
  unfold renameIdentifiers rewriteIdentifiers toks
  rw [rewriteAux_tokenwise _ (fun i m => match renLookup ren i with | some r => if m then i else r | none => i)
        (by intro i m r; cases renLookup ren i <;> simp; split <;> rfl)]
  congr 1
  funext t
  cases t with
  | ident i m =>
      cases m <;> cases hr : renLookup ren i <;> simp [renTok, hr, Tok.text]
  | _ => simp [renTok, mapTok]

end Cpf.Lemmas.Subst
