/-
  C03 — every entity occurrence in every .java file is represented exactly once.

  Model: Cpf.Scan.Build (traverse / emitAt / dedup), driven by the regenerated table `nodeLits`; tied to the
  real buildGraphFromAST by the exact correspondence of checks/c03.py (same entities, same identities —
  SHA-256 of the model's pre-image equals the real ID —, same call links, on the real tree-sitter tree).

  * `C03_visit`: the traversal emits, for every node of the tree in visiting order and nothing else, what
    `emitAt` yields for that node (no child skipped, none visited twice), for every tree.
  * `C03_stmt_ids_injective` + `C03_stmt_formats`: the ten statement kinds use the identity format
    `<prefix><row>_<col>_<file>` (checked on the regenerated table), which is injective in (row, column,
    file): two occurrences of such a kind never share an identity.
  * `C03_dedup_id`: when all identities are distinct, storing by identity loses nothing.
  * The other kinds' identities are not position-complete (`C03_not_position_complete` lists them from the
    regenerated table): variables (name+file), classes (name+file), comments (content+file), object
    creations (class+row+file), the 17 binary kinds (kind+content+file). Two occurrences that agree on those
    components collapse within a file — recorded findings C03:same-file-collision:<kind>
    (the suite's own expectation of 83 entities in TestBuildGraphFromAST depends on two such collapses).
-/
import Cpf.Lemmas.Ids

namespace Cpf.Props.C03
open Cpf.Scan Cpf.Go Cpf.Facts Cpf.Generated

/-- what the traversal adds for a forest: the concatenated emissions of all nodes in visiting order -/
inductive Emits (src file : Bytes) : List T → List Ent → Prop
  | nil : Emits src file [] []
  | cons {n : T} {ns : List T} {es rest : List Ent} :
      emitAt n src file = .ok es → Emits src file ns rest → Emits src file (n :: ns) (es ++ rest)

theorem Emits.append {src file : Bytes} {a b : List T} {ea eb : List Ent}
    (ha : Emits src file a ea) (hb : Emits src file b eb) : Emits src file (a ++ b) (ea ++ eb) := by
  induction ha with
  | nil => simpa using hb
  | cons h _ ih => simpa [List.append_assoc] using Emits.cons h ih

mutual
theorem traverse_emits (src file : Bytes) : ∀ (t : T) (ctx : Option Ent) (st st' : St),
    traverse src file t ctx st = .ok st' → ∃ es, Emits src file (T.preorder t) es ∧ st'.ents = st.ents ++ es
  | .mk ty f b e r c nm cs, ctx, st, st', h => by
      simp only [traverse] at h
      split at h
      · rename_i es hes
        obtain ⟨es2, h2, h3⟩ := traverseList_emits src file cs _ _ st' h
        refine ⟨es ++ es2, ?_, ?_⟩
        · simp only [T.preorder]
          exact Emits.cons hes h2
        · simp [h3, List.append_assoc]
      · simp at h
      · simp at h
theorem traverseList_emits (src file : Bytes) : ∀ (ts : List T) (ctx : Option Ent) (st st' : St),
    traverseList src file ts ctx st = .ok st' → ∃ es, Emits src file (T.preorderList ts) es ∧ st'.ents = st.ents ++ es
  | [], _, st, st', h => by
      simp only [traverseList] at h
      cases h
      exact ⟨[], Emits.nil, by simp⟩
  | t :: ts, ctx, st, st', h => by
      simp only [traverseList] at h
      split at h
      · rename_i st1 h1
        obtain ⟨e1, he1, hs1⟩ := traverse_emits src file t ctx st st1 h1
        obtain ⟨e2, he2, hs2⟩ := traverseList_emits src file ts ctx st1 st' h
        refine ⟨e1 ++ e2, ?_, ?_⟩
        · simp only [T.preorderList]; exact he1.append he2
        · simp [hs2, hs1, List.append_assoc]
      · simp at h
      · simp at h
end

/-- **C03 (visit)**: scanning a file inserts exactly the emissions of all its syntax nodes, each once, in order. -/
theorem C03_visit (t : T) (src file : Bytes) (st : St) (h : buildGraph t src file = .ok st) :
    Emits src file (T.preorder t) st.ents := by
  obtain ⟨es, he, hs⟩ := traverse_emits src file t none {} st h
  simp at hs
  rw [hs]; exact he

/-- every emitted entity has a kind the source assigns to that syntax type, and the node's own location -/
theorem C03_emitted_kind (n : T) (src file : Bytes) (es : List Ent) (h : emitAt n src file = .ok es) :
    ∀ e ∈ es, e.sb = n.sb ∧ e.eb = n.eb ∧ e.line = n.sr + 1 ∧ ∃ l ∈ nodeLits, l.kind = e.kind ∧ l.tsTypes.contains n.ty = true := by
  unfold emitAt at h
  split at h
  · simp at h
  · intro e he
    -- the list of outcomes is `.ok` element-wise
    have key : ∀ (ls : List NodeLit) (out : List Ent),
        seqOutcome (ls.map (fun l =>
          (preimage l n src file).mapOk (fun p => ({ kind := l.kind, ty := n.ty, sb := n.sb, eb := n.eb, line := n.sr + 1, pre := p } : Ent)))) = .ok out →
        ∀ e ∈ out, e.sb = n.sb ∧ e.eb = n.eb ∧ e.line = n.sr + 1 ∧ ∃ l ∈ ls, l.kind = e.kind := by
      intro ls
      induction ls with
      | nil => intro out ho e he; simp [seqOutcome] at ho; subst ho; simp at he
      | cons l ls ih =>
          intro out ho e he
          simp only [List.map_cons, seqOutcome] at ho
          split at ho
          · rename_i a ha
            split at ho
            · rename_i as has
              simp at ho; subst ho
              rcases List.mem_cons.1 he with rfl | hm
              · obtain ⟨p, _, hp⟩ := Outcome.mapOk_eq_ok ha
                subst hp
                exact ⟨rfl, rfl, rfl, l, by simp, rfl⟩
              · obtain ⟨h1, h2, h3, l', hl', hk⟩ := ih as has e hm
                exact ⟨h1, h2, h3, l', by simp [hl'], hk⟩
            · simp at ho
            · simp at ho
          · simp at ho
          · simp at ho
    obtain ⟨h1, h2, h3, l, hl, hk⟩ := key _ es h e he
    refine ⟨h1, h2, h3, l, ?_, hk, ?_⟩
    · exact (List.mem_filter.1 (List.mem_filter.1 hl).1).1
    · have := (List.mem_filter.1 (List.mem_filter.1 hl).1).2
      simp only [Bool.and_eq_true] at this
      exact this.1

/-! ### identities -/

/-- the statement format `<prefix><row>_<col>_<file>` -/
def isStmtFmt : List IdAtom → Bool
  | [.lit _, .row, .lit "_", .col, .lit "_", .file] => true
  | _ => false

def stmtKinds : List String :=
  ["BlockStmt", "ReturnStmt", "AssertStmt", "YieldStmt", "BreakStmt", "ContinueStmt", "IfStmt", "WhileStmt", "DoStmt", "ForStmt"]

/-- Regenerated fact: every literal of a statement kind uses the statement format. -/
theorem C03_stmt_formats : ∀ l ∈ nodeLits, stmtKinds.contains l.kind = true → isStmtFmt l.idFmt = true := by
  decide

theorem preimage_stmt (l : NodeLit) (p : String) (h : l.idFmt = [.lit p, .row, .lit "_", .col, .lit "_", .file])
    (n : T) (src file : Bytes) :
    preimage l n src file = .ok (str p ++ decB (n.sr + 1) ++ [95] ++ decB (n.sc + 1) ++ [95] ++ file) := by
  have h95 : str "_" = [95] := by decide
  simp [preimage, h, seqOutcome, atomBytes, atomFlat, h95, Outcome.mapOk]

/-- **C03 (identity of statements)**: two occurrences of a statement kind have the same identity only if they
    start at the same row and column of the same file — distinct occurrences are never merged. -/
theorem C03_stmt_ids_injective (l : NodeLit) (hl : isStmtFmt l.idFmt = true) (n n' : T) (src src' file file' : Bytes)
    (q q' : Bytes) (hq : preimage l n src file = .ok q) (hq' : preimage l n' src' file' = .ok q') (heq : q = q') :
    n.sr = n'.sr ∧ n.sc = n'.sc ∧ file = file' := by
  unfold isStmtFmt at hl
  split at hl
  · rename_i p hfmt
    rw [preimage_stmt l p hfmt] at hq hq'
    simp only [Outcome.ok.injEq] at hq hq'
    subst hq hq'
    obtain ⟨h1, h2, h3⟩ := stmt_format_injective _ _ _ _ _ _ _ heq
    exact ⟨by omega, by omega, h3⟩
  · simp at hl

/-- storing by identity keeps everything when identities are pairwise distinct -/
theorem C03_dedup_id (es : List Ent) (h : (es.map (·.pre)).Nodup) : dedup es = es := by
  induction es with
  | nil => rfl
  | cons e rest ih =>
      simp only [List.map_cons, List.nodup_cons] at h
      have : rest.any (fun x => x.pre == e.pre) = false := by
        rw [List.any_eq_false]
        intro x hx hxe
        exact h.1 (List.mem_map.2 ⟨x, hx, by simpa using hxe⟩)
      simp [dedup, this, ih h.2]

/-- the kinds whose identity has no start position (row *and* column) — the recorded findings -/
def positionComplete (f : List IdAtom) : Bool :=
  f.any (fun a => match a with | .row => true | _ => false) && f.any (fun a => match a with | .col => true | _ => false) &&
  f.any (fun a => match a with | .file => true | _ => false)

def notPositionComplete : List String :=
  ((nodeLits.filter (fun l => !positionComplete l.idFmt)).map (·.kind)).eraseDups

theorem C03_not_position_complete :
    notPositionComplete =
      ["add_expression", "sub_expression", "mul_expression", "div_expression", "comp_expression", "rem_expression",
       "right_shift_expression", "left_shift_expression", "ne_expression", "eq_expression", "bitwise_and_expression",
       "and_expression", "or_expression", "bitwise_or_expression", "bitwise_right_shift_expression",
       "bitwise_xor_expression", "binary_expression", "class_declaration", "block_comment", "variable_declaration",
       "ClassInstanceExpr"] := by
  decide

/-- every identity is scoped to the file (needed by C07 / C08) -/
theorem C03_ids_mention_file : ∀ l ∈ nodeLits, l.idFmt.any (fun a => match a with | .file => true | _ => false) = true := by
  decide

private def wT : T :=
  T.mk "program" "" 0 10 0 0 true
    [T.mk "local_variable_declaration" "" 0 5 0 0 true
       [T.mk "integral_type" "type" 0 3 0 0 true [], T.mk "variable_declarator" "declarator" 3 4 0 3 true [T.mk "identifier" "name" 3 4 0 3 true []]],
     T.mk "local_variable_declaration" "" 5 10 0 5 true
       [T.mk "integral_type" "type" 5 8 0 5 true [], T.mk "variable_declarator" "declarator" 8 9 0 8 true [T.mk "identifier" "name" 8 9 0 8 true []]]]

/-- the full statement fails for those kinds: two different occurrences (`int y; int y;`), one identity -/
theorem C03_full_fails_for_variables :
    ∃ (t : T) (src file : Bytes) (st : St), buildGraph t src file = .ok st ∧ (dedup st.ents).length < st.ents.length := by
  have h : (match buildGraph wT (str "inty;inty;") (str "A.java") with
            | .ok st => decide ((dedup st.ents).length < st.ents.length)
            | _ => false) = true := by decide
  cases hb : buildGraph wT (str "inty;inty;") (str "A.java") with
  | ok st => rw [hb] at h; exact ⟨wT, _, _, st, hb, by simpa using h⟩
  | diag m => rw [hb] at h; simp at h
  | panic m => rw [hb] at h; simp at h

end Cpf.Props.C03
