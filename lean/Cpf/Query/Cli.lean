/-
  Model of cmd/query.go's processQuery up to the point where the engine is called:
  text → ParseQuery → predicate expansion → the condition the evaluator sees.
-/
import Cpf.Query.Cond
import Cpf.Generated.Grammar

namespace Cpf.Query
open Cpf.Go Cpf.Generated

structure Prepared where
  pq       : ParsedQuery
  expanded : String
  cond     : Option Cond
  atoms    : List String
  deriving Repr

/-- the condition seen by the evaluator for an expression text; `none` when the text does not
    re-parse as an `expression` (then the evaluator's compiler is on its own: treated as one atom) -/
def condOfText (s : String) : Cond × List String :=
  match lex lexRules s.toList with
  | (ts, 0) =>
      match (parsesOf grammar (fuelFor ts) "expression" ts).head? with
      | some tree =>
          match toCond tree [] with
          | some r => r
          | none => (.atom 0, [s])
      | none => (.atom 0, [s])
  | _ => (.atom 0, [s])

/-- from the tokens of the query on: everything after lexing -/
def prepareTokens (ts : List Token) : Outcome Prepared :=
  match parseQueryTokens grammar startRule ts with
  | .ok pq =>
      let expanded := String.ofList (replacePredicateVariables pq)
      if expanded == "" then
        .ok { pq := pq, expanded := expanded, cond := none, atoms := [] }
      else
        let (c, atoms) := condOfText expanded
        .ok { pq := pq, expanded := expanded, cond := some c, atoms := atoms }
  | .diag m => .diag m
  | .panic m => .panic m

def prepare (cs : List Char) : Outcome Prepared :=
  match lex lexRules cs with
  | (ts, 0) => prepareTokens ts
  | (_, _ + 1) => .diag "token recognition error"

end Cpf.Query
