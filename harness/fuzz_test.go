//go:build verif

package main

import (
	"testing"

	parser "github.com/shivasurya/code-pathfinder/sourcecode-parser/antlr"
	"github.com/shivasurya/code-pathfinder/sourcecode-parser/cmd"
	"github.com/shivasurya/code-pathfinder/sourcecode-parser/graph"
)

// FuzzQuery: any string through ParseQuery and processQuery on a small graph must not panic.
func FuzzQuery(f *testing.F) {
	for _, s := range []string{
		`FROM method_declaration AS md WHERE md.getName() == "a" SELECT md.getName()`,
		`predicate p(method_declaration m) { m.getName() == "a" } FROM method_declaration AS md WHERE p(md) || !(md.getVisibility() in ["x"]) SELECT md, "s"`,
		`FROM a AS b, c AS d WHERE foo() SELECT b`,
	} {
		f.Add(s)
	}
	g := graph.NewCodeGraph()
	g.AddNode(&graph.Node{ID: "1", Type: "method_declaration", Name: "a", File: "f.java", LineNumber: 1, CodeSnippet: "void a(){}"})
	g.AddNode(&graph.Node{ID: "2", Type: "class_declaration", Name: "B", File: "f.java", LineNumber: 2, CodeSnippet: "class B{}"})
	f.Fuzz(func(t *testing.T, q string) {
		// ParseQuery takes time quadratic in the number of unclosed parentheses (ANTLR's error recovery walks the
		// rule stack at every level: 16 s for 4000 of them) and then ends with a diagnostic, as C10 asks. The fuzzer's
		// own watchdog kills a worker after 10 s and reports that as a failure: keep the inputs below that region
		// (long runs of parentheses are covered, with a time limit of their own, by checks/c10.py UNUSUAL).
		if len(q) > 1024 {
			t.Skip()
		}
		_, _ = parser.ParseQuery(q)
		_, _ = cmd.VerifProcessQuery(q, g, "json")
	})
}

// FuzzBuild: any byte string as a .java file must be turned into a graph without panicking.
func FuzzBuild(f *testing.F) {
	f.Add([]byte("class A { int f(int a){ if (a > 0) { return a + 1; } assert a >= 0 : \"m\"; return switch (a) { default -> { yield 1; } }; } }"))
	f.Add([]byte("/** @author x */ @Deprecated public class B extends C implements D, E { private int x = new F(1, \"s\").g(); }"))
	f.Fuzz(func(t *testing.T, src []byte) {
		// (same watchdog: tree-sitter's error recovery is quadratic on some malformed inputs — 6 s for 70 KB of
		// unterminated literals; the scaling families of checks/c09.py measure growth, this target looks for panics)
		if len(src) > 16384 {
			t.Skip()
		}
		r := handle(&Req{Op: "build", Hex: hexOf(src), File: "F.java", NoNodes: true})
		if r["outcome"] != "ok" {
			t.Fatalf("outcome %v: %v", r["outcome"], r["panic"])
		}
	})
}

func hexOf(b []byte) string {
	const digits = "0123456789abcdef"
	out := make([]byte, 0, 2*len(b))
	for _, c := range b {
		out = append(out, digits[c>>4], digits[c&15])
	}
	return string(out)
}
