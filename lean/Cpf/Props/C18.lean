/-
  C18 — a rule file means the same query and metadata on every path.

  Model: Cpf.Rules.RuleFile (cmd.ParseQuery / ParseCommentLine for `ci`; ExtractQueryFromFile for `scan` and
  `query --query-file`). For **all** header lines and **all** query lines:
  * `C18_ci_query` / `C18_file_query`: once a line starts the query (its trimmed text begins with `predicate` or
    `FROM`) the extracted text is exactly the query's lines, each followed by one blank, trimmed — header lines
    contribute nothing. Both readers therefore yield the same text for the same lines (`C18_readers_agree`);
    what differs between "lines joined by blanks" and the file is only white space outside tokens, as long as
    no token spans a line (the excluded point — a multi-line string literal — is the recorded finding
    C18:newline-in-string-literal).
  * `C18_split_join`: splitting a value at blanks and joining it again is the identity — multiple blanks inside a
    header value survive; `C18_comment_line`: `@key value…` yields (key, value).
  * `C18_meta_id` …: a header line sets exactly its own field.
  That equal texts modulo layout are equal token sequences is C14's lexer tie (model vs ANTLR on random layouts).
-/
import Cpf.Generated.Tables
import Cpf.Rules.RuleFile

namespace Cpf.Props.C18
open Cpf.Rules Cpf.Go.Str

def queryText (q : List S) : S := (q.map (fun l => l ++ [' '])).flatten

theorem foldl_header (hdr : List S) (st : PState) (h : ∀ l ∈ hdr, startsQuery l = false)
    (hf : st.findLine = false) :
    (hdr.foldl stepLine st).findLine = false ∧ (hdr.foldl stepLine st).query = st.query := by
  induction hdr generalizing st with
  | nil => exact ⟨hf, rfl⟩
  | cons l ls ih =>
      simp only [List.foldl_cons]
      have hl := h l (by simp)
      have hstep : (stepLine st l).findLine = false ∧ (stepLine st l).query = st.query := by
        unfold stepLine
        by_cases hc : startsComment l = true
        · simp [hc, hf]
        · simp only [hc, hl, hf, Bool.false_eq_true, ↓reduceIte]
          split
          · exact ⟨by simpa using hf, rfl⟩
          · split
            · exact ⟨by simpa using hf, rfl⟩
            · exact ⟨hf, rfl⟩
      obtain ⟨h1, h2⟩ := ih (stepLine st l) (fun x hx => h x (by simp [hx])) hstep.1
      exact ⟨h1, by rw [h2, hstep.2]⟩

theorem foldl_query (q : List S) (st : PState) (hf : st.findLine = true) (hc : ∀ l ∈ q, startsComment l = false) :
    (q.foldl stepLine st).query = st.query ++ queryText q := by
  induction q generalizing st with
  | nil => simp [queryText]
  | cons l ls ih =>
      simp only [List.foldl_cons]
      have hl := hc l (by simp)
      have hstep : (stepLine st l).findLine = true ∧ (stepLine st l).query = st.query ++ l ++ [' '] := by
        unfold stepLine
        simp only [hl, Bool.false_eq_true, ↓reduceIte, hf]
        split <;> exact ⟨by simp [*], rfl⟩
      rw [ih (stepLine st l) hstep.1 (fun x hx => hc x (by simp [hx])), hstep.2]
      simp [queryText, List.append_assoc]

theorem stepLine_start (st : PState) (l : S) (hc : startsComment l = false) (hq : startsQuery l = true) :
    (stepLine st l).findLine = true ∧ (stepLine st l).query = st.query ++ l ++ [' '] := by
  unfold stepLine
  simp [hc, hq]

/-- the lines of the text, as `ci` sees them -/
def ciParseLines (lines : List S) : S := trimSpace ((lines.foldl stepLine {}).query)

/-- **C18 (ci reader)**: header lines contribute nothing; the query is its lines joined by blanks. -/
theorem C18_ci_query (hdr : List S) (l0 : S) (rest : List S)
    (hh : ∀ l ∈ hdr, startsQuery l = false) (h0 : startsQuery l0 = true)
    (hc : ∀ l ∈ l0 :: rest, startsComment l = false) :
    ciParseLines (hdr ++ l0 :: rest) = trimSpace (queryText (l0 :: rest)) := by
  unfold ciParseLines
  rw [List.foldl_append]
  obtain ⟨h1, h2⟩ := foldl_header hdr {} hh rfl
  simp only [List.foldl_cons]
  have hl0 := hc l0 (by simp)
  have hstep := stepLine_start (hdr.foldl stepLine {}) l0 hl0 h0
  have h2' : (List.foldl stepLine {} hdr).query = [] := h2
  rw [h2', List.nil_append] at hstep
  rw [foldl_query rest _ hstep.1 (fun x hx => hc x (by simp [hx])), hstep.2]
  simp [queryText, List.append_assoc]

theorem foldl_extract_header (hdr : List S) (h : ∀ l ∈ hdr, startsQuery l = false) :
    hdr.foldl stepExtract (false, []) = (false, []) := by
  induction hdr with
  | nil => rfl
  | cons l ls ih =>
      simp only [List.foldl_cons]
      have : stepExtract (false, []) l = (false, []) := by simp [stepExtract, h l (by simp)]
      rw [this]
      exact ih (fun x hx => h x (by simp [hx]))

theorem foldl_extract_query (q : List S) (acc : S) :
    q.foldl stepExtract (true, acc) = (true, acc ++ queryText q) := by
  induction q generalizing acc with
  | nil => simp [queryText]
  | cons l ls ih =>
      simp only [List.foldl_cons]
      have : stepExtract (true, acc) l = (true, acc ++ l ++ [' ']) := by
        unfold stepExtract; split <;> rfl
      rw [this, ih]
      simp [queryText, List.append_assoc]

def extractLines (lines : List S) : S := trimSpace ((lines.foldl stepExtract (false, [])).2)

/-- **C18 (file reader)** -/
theorem C18_file_query (hdr : List S) (l0 : S) (rest : List S)
    (hh : ∀ l ∈ hdr, startsQuery l = false) (h0 : startsQuery l0 = true) :
    extractLines (hdr ++ l0 :: rest) = trimSpace (queryText (l0 :: rest)) := by
  unfold extractLines
  rw [List.foldl_append, foldl_extract_header hdr hh]
  simp only [List.foldl_cons]
  have : stepExtract (false, []) l0 = (true, l0 ++ [' ']) := by simp [stepExtract, h0]
  rw [this, foldl_extract_query]
  simp [queryText, List.append_assoc]

/-- **C18 (paths agree)**: on the same lines both readers return the same query text. -/
theorem C18_readers_agree (hdr : List S) (l0 : S) (rest : List S)
    (hh : ∀ l ∈ hdr, startsQuery l = false) (h0 : startsQuery l0 = true)
    (hc : ∀ l ∈ l0 :: rest, startsComment l = false) :
    ciParseLines (hdr ++ l0 :: rest) = extractLines (hdr ++ l0 :: rest) := by
  rw [C18_ci_query hdr l0 rest hh h0 hc, C18_file_query hdr l0 rest hh h0]

/-! ### header values -/

theorem splitChar_ne_nil (c : Char) (s : S) : splitChar c s ≠ [] := by
  cases s with
  | nil => simp [splitChar]
  | cons x xs =>
      simp only [splitChar]
      split
      · simp
      · split <;> simp

/-- splitting at a character and joining with it again is the identity (blanks inside a value survive) -/
theorem C18_split_join (c : Char) (s : S) : join [c] (splitChar c s) = s := by
  induction s with
  | nil => simp [splitChar, join]
  | cons x xs ih =>
      simp only [splitChar]
      by_cases hx : (x == c) = true
      · simp only [hx, ↓reduceIte]
        have hxc : x = c := by simpa using hx
        cases hs : splitChar c xs with
        | nil => exact absurd hs (splitChar_ne_nil c xs)
        | cons w ws =>
            rw [hs] at ih
            simp only [join, List.nil_append, List.cons_append, List.singleton_append]
            rw [ih, hxc]
      · simp only [hx, Bool.false_eq_true, ↓reduceIte]
        cases hs : splitChar c xs with
        | nil => exact absurd hs (splitChar_ne_nil c xs)
        | cons w ws =>
            rw [hs] at ih
            cases ws with
            | nil => simp only [join] at ih ⊢; rw [ih]
            | cons w2 ws2 => simp only [join, List.cons_append] at ih ⊢; rw [ih]

theorem splitChar_key (k v : S) (hk : ∀ c ∈ k, c ≠ ' ') :
    splitChar ' ' (k ++ ' ' :: v) = k :: splitChar ' ' v := by
  induction k with
  | nil => simp [splitChar]
  | cons x xs ih =>
      have hx : (x == ' ') = false := by simpa using hk x (by simp)
      simp only [List.cons_append, splitChar, hx, Bool.false_eq_true, ↓reduceIte]
      rw [ih (fun c hc => hk c (by simp [hc]))]

/-- **C18 (comment line)**: a trimmed header line `@key value` yields the key and the whole value. -/
theorem C18_comment_line (k v : S) (hk : ∀ c ∈ k, c ≠ ' ')
    (htrim : trimSpace (trimPrefix (trimSpace (k ++ ' ' :: v)) (lit "*")) = k ++ ' ' :: v) :
    parseCommentLine (k ++ ' ' :: v) = (k, v) := by
  unfold parseCommentLine
  simp only [htrim]
  rw [splitChar_key k v hk]
  cases hs : splitChar ' ' v with
  | nil => exact absurd hs (splitChar_ne_nil ' ' v)
  | cons w ws =>
      simp only
      rw [← hs, C18_split_join]

/-- a header line sets its own field and no other -/
theorem C18_meta_fields (r : Rule) (v : S) :
    (setKey r (lit "@id") v).id = v ∧ (setKey r (lit "@description") v).description = v ∧
    (setKey r (lit "@problem.severity") v).severity = v ∧ (setKey r (lit "@security-severity") v).impact = v ∧
    (setKey r (lit "@ruleprovider") v).provider = v ∧
    (setKey r (lit "@name") v) = r ∧ (setKey r (lit "@kind") v) = r ∧ (setKey r (lit "@tags") v) = r := by
  refine ⟨?_, ?_, ?_, ?_, ?_, ?_, ?_, ?_⟩ <;> simp [setKey, lit] <;> decide

/- Non-vacuity / end-to-end example: the shape of the shipped rules, CRLF, wrapped query. -/
set_option maxRecDepth 65536 in
example :
    ciParse (lit "/**\r\n * @name X\r\n * @id java/x\r\n * @description Use  of x && y\r\n * @problem.severity warning\r\n */\r\n\r\nFROM a AS b\r\n  WHERE b.c() == \"q\"\r\nSELECT b\r\n")
      = { id := lit "java/x", description := lit "Use  of x && y", severity := lit "warning",
          query := lit "FROM a AS b\r   WHERE b.c() == \"q\"\r SELECT b" } ∧
    extractQuery (lit "/**\r\n * @id java/x\r\n */\r\nFROM a AS b\r\n  WHERE b.c() == \"q\"\r\nSELECT b\r\n")
      = lit "FROM a AS b   WHERE b.c() == \"q\" SELECT b" := by
  decide

/-! ### the joined lines as a function of the characters -/

/-- line feeds become blanks, everything else stays -/
def nl2sp (s : S) : S := s.map (fun c => if c == '\n' then ' ' else c)

/-- what a reader joins (`line + " "` over the lines of a text) is the text with every line feed turned into a
    blank, and one blank more at the end: no character is dropped, doubled or moved, whatever the number and the
    length of the lines -/
theorem C18_joined_lines (text : S) : queryText (splitChar '\n' text) = nl2sp text ++ [' '] := by
  induction text with
  | nil => rfl
  | cons c cs ih =>
    unfold splitChar
    by_cases h : (c == '\n') = true
    · simp only [h, if_true]
      simp only [queryText, List.map_cons, List.flatten_cons, List.nil_append] at ih ⊢
      rw [ih]
      have hc : c = '\n' := by simpa using h
      subst hc
      simp [nl2sp]
    · have h' : (c == '\n') = false := by simpa using h
      simp only [h', Bool.false_eq_true, if_false]
      cases hs : splitChar '\n' cs with
      | nil => exact absurd hs (splitChar_ne_nil '\n' cs)
      | cons w ws =>
        rw [hs] at ih
        simp only [queryText, List.map_cons, List.flatten_cons] at ih ⊢
        simp only [List.cons_append, nl2sp, List.map_cons, h', Bool.false_eq_true, if_false]
        simpa [nl2sp] using ih

/-- **C18 (ci reader, a file that is all query)**: the text handed to the query parser is the file's text with its
    line feeds turned into blanks, trimmed. (What that does to the *tokens* is C14's question: white space between
    tokens may change freely — `C14_lex_layout` — and a token that spans lines is the recorded finding.) -/
theorem C18_ci_query_chars (text : S) (l0 : S) (rest : List S) (hs : splitChar '\n' text = l0 :: rest)
    (h0 : startsQuery l0 = true) (hc : ∀ l ∈ l0 :: rest, startsComment l = false) :
    ciParseLines (splitChar '\n' text) = trimSpace (nl2sp text ++ [' ']) := by
  have h := C18_ci_query [] l0 rest (by simp) h0 hc
  rw [List.nil_append] at h
  rw [hs, h, ← hs, C18_joined_lines]

/-- Non-vacuity: a wrapped query with a CR LF line end and an empty line. -/
example : queryText (splitChar '\n' "FROM a AS b\r\n\nSELECT b".toList) = "FROM a AS b\r  SELECT b ".toList := by decide

/-- Regenerated: the string operations and the decisions of the three functions the reader models mirror
    (`cmd.ParseQuery`, `cmd.ParseCommentLine`, `cmd.ExtractQueryFromFile`), in source order. The hand-written models
    in `Cpf.Rules.RuleFile` are read off exactly these: split on "\n" (ci) / bufio.Scanner (file), a line starts the
    query when its trimmed text has the prefix `predicate` or `FROM`, every query line is appended with one blank,
    the result is trimmed; a header line is trimmed, loses one leading `*`, is trimmed again and split on blanks. -/
theorem C18_reader_shapes :
    Cpf.Generated.ruleReaderCiDecisions =
      ["if:strings.HasPrefix(strings.TrimSpace(line), \"/*\")", "has-else", "if:strings.HasPrefix(strings.TrimSpace(line), \"predicate\") || strings.HasPrefix(strings.TrimSpace(line), \"FROM\")", "has-else", "if:findLineFound", "has-else", "if:commentLineFound", "has-else", "if:strings.HasPrefix(strings.TrimSpace(line), \"*/\")", "return:rule"] ∧
    Cpf.Generated.ruleReaderCiCalls =
      ["call:strings.Split(query, \"\\n\")", "call:strings.HasPrefix(strings.TrimSpace(line), \"/*\")", "call:strings.TrimSpace(line)", "call:strings.HasPrefix(strings.TrimSpace(line), \"predicate\")", "call:strings.TrimSpace(line)", "call:strings.HasPrefix(strings.TrimSpace(line), \"FROM\")", "call:strings.TrimSpace(line)", "call:strings.HasPrefix(strings.TrimSpace(line), \"*/\")", "call:strings.TrimSpace(line)", "call:strings.TrimSpace(query)"] ∧
    Cpf.Generated.ruleCommentLineDecisions =
      ["if:len(parts) > 1", "return:parts[0],strings.Join(parts[1:], \" \")", "return:\"\",\"\""] ∧
    Cpf.Generated.ruleCommentLineCalls =
      ["call:strings.TrimSpace(line)", "call:strings.TrimPrefix(comment, \"*\")", "call:strings.TrimSpace(comment)", "call:strings.Split(comment, \" \")", "call:strings.Join(parts[1:], \" \")"] ∧
    Cpf.Generated.ruleReaderFileDecisions =
      ["if:err != nil", "return:\"\",err", "if:err != nil", "if:strings.HasPrefix(strings.TrimSpace(line), \"predicate\") || strings.HasPrefix(strings.TrimSpace(line), \"FROM\")", "has-else", "if:findLineFound", "if:err != nil", "return:\"\",err", "return:query,nil"] ∧
    Cpf.Generated.ruleReaderFileCalls =
      ["call:bufio.NewScanner(queryFileContent)", "call:strings.HasPrefix(strings.TrimSpace(line), \"predicate\")", "call:strings.TrimSpace(line)", "call:strings.HasPrefix(strings.TrimSpace(line), \"FROM\")", "call:strings.TrimSpace(line)", "call:strings.TrimSpace(query)"] := by decide

end Cpf.Props.C18
