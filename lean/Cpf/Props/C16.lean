/-
  C16 — queries on a loaded project do not interfere with one another; the console answers every
  submitted line, in order, as a stand-alone run would.

  * the console as a function of a *chunked* input stream (Cpf.Query.Console): for **every** way stdin
    delivers the bytes, the transcript is the stand-alone answers of the complete lines up to `:quit`;
    the pre-fix behaviour (a new buffered reader per prompt) is modelled too and refuted by a witness;
  * regenerated facts: the reader is created outside the prompt loop; no `Env` accessor assigns through
    `env.Node` (the graph is read-only during evaluation);
  * history independence of a sequence of queries on one graph follows from that read-only-ness.
-/
import Cpf.Lemmas.Console
import Cpf.Query.Engine
import Cpf.Generated.Tables

namespace Cpf.Props.C16
open Cpf.Query Cpf.Query.Console Cpf.Generated

/-- **C16 (console)**: for all chunkings of the input, every complete line before `:quit` is answered, in
    order, with the answer of a stand-alone evaluation of that line. -/
theorem C16_console (answer : List Char → String) (chunks : List (List Char)) :
    console answer (chunks.flatten.length + 1) ⟨[], chunks⟩ = spec answer chunks.flatten := by
  rw [console_flat]
  simp [spec]

/-- Consequently the transcript does not depend on how the bytes arrive. -/
theorem C16_console_chunking (answer : List Char → String) (c₁ c₂ : List (List Char))
    (h : c₁.flatten = c₂.flatten) :
    console answer (c₁.flatten.length + 1) ⟨[], c₁⟩ = console answer (c₂.flatten.length + 1) ⟨[], c₂⟩ := by
  rw [C16_console, C16_console, h]

/-- The code before the `fix:` created a reader per prompt: whatever that reader had buffered beyond the
    line it returned was lost. -/
def consoleFresh (answer : List Char → String) : Nat → List (List Char) → List String
  | 0, _ => []
  | fuel + 1, chunks =>
      match readLine ⟨[], chunks⟩ with
      | none => []
      | some (l, r') => if isQuit l then [] else answer l :: consoleFresh answer fuel r'.chunks

/-- … and that loses queries as soon as one chunk holds two lines (piped stdin). -/
theorem C16_console_fresh_reader_fails :
    ∃ chunks : List (List Char),
      consoleFresh String.ofList (chunks.flatten.length + 1) chunks ≠ spec String.ofList chunks.flatten :=
  ⟨["a\nb\n".toList], by decide⟩

/-- Regenerated fact: the console creates its reader once, before the prompt loop. -/
theorem C16_reader_outside_loop : consoleReadersCreatedInLoop = 0 ∧ consoleReadersCreatedOutsideLoop = 1 := by
  decide

/-- Regenerated fact: no accessor of the evaluation environment writes through `env.Node`. -/
theorem C16_env_read_only : envMethodsMutatingNode = [] := by decide

/-- every package-level variable of the packages a query runs through (cmd, graph, graph/java, model and the hand-written
    listener; regenerated): the cobra commands, two version strings and the verbose flags. No cache, memo table, pool or
    counter lives between two queries of one process; what a query computes it computes from its own text and the graph. -/
theorem C16_package_state : packageLevelVars =
    ["cmd/ci.go:ciCmd &cobra.Command", "cmd/query.go:queryCmd &cobra.Command", "cmd/root.go:rootCmd &cobra.Command",
     "cmd/root.go:verboseFlag bool", "cmd/scan.go:scanCmd &cobra.Command", "cmd/version.go:GitCommit literal:STRING",
     "cmd/version.go:Version literal:STRING", "cmd/version.go:versionCmd &cobra.Command", "graph/util.go:verboseFlag bool"] := by decide

/-! ### history independence -/

/-- One query against the loaded graph: evaluation receives the graph and returns it untouched. -/
def step (ρ : Nat → Tuple → Res) (g : List Node) (q : EQuery) : List Node × List Tuple :=
  (g, queryEntities ρ g q)

def runAll (ρ : Nat → Tuple → Res) (g : List Node) : List EQuery → List Node × List (List Tuple)
  | [] => (g, [])
  | q :: qs =>
      let (g1, a) := step ρ g q
      let (g2, as) := runAll ρ g1 qs
      (g2, a :: as)

theorem C16_pure (ρ) (g : List Node) (q : EQuery) : (step ρ g q).1 = g := rfl

/-- **C16 (history)**: in any sequence of queries (valid or not, repeated or not), each answer is the one a
    stand-alone evaluation gives. -/
theorem C16_history (ρ) (g : List Node) (qs : List EQuery) :
    (runAll ρ g qs).2 = qs.map (fun q => queryEntities ρ g q) ∧ (runAll ρ g qs).1 = g := by
  induction qs with
  | nil => simp [runAll]
  | cons q qs ih => simp [runAll, step, ih]

/-- Non-vacuity of the console theorem: three lines arriving as ["FROM a", " AS b SELECT b\nx", "\n:quit\nzzz\n"]. -/
example :
    console String.ofList 100 ⟨[], ["q1".toList, " more\nq".toList, "2\n:quit\nq3\n".toList]⟩
      = ["q1 more\n", "q2\n"] := by decide

end Cpf.Props.C16
