"""Engine-level correspondence and oracle shared by C01, C02, C12, C13, C14.

For one query text on one scanned graph:
  real    : parser.ParseQuery + graph.QueryEntities in the harness  -> list of ID tuples
  atoms   : every atomic condition the *model* says the evaluator sees is evaluated by the real
            expr-lang environment on every candidate combination ('t','f','n','e','c','p')
  model   : the Lean driver's `engine` op (lexer, recogniser, listener, predicate expansion, condition
            structure, cartesian product, filter) with those atom tables
  oracle  : the generator's own AST evaluated directly (three-valued, short-circuit), predicates
            inlined by the generator -- independent of both the model and the implementation's expansion
"""
import itertools, json, os, random, shutil
from vlib import common as C, genjava as G, querygen as QG, genquery as GQ


class Project:
    """A scanned Java project kept alive in a harness."""

    def __init__(self, h, files, name="g", root=None):
        self.h = h
        self.dir = root or C.scratch("proj")
        self.name = name
        for rel, text in files.items():
            p = os.path.join(self.dir, rel)
            os.makedirs(os.path.dirname(p), exist_ok=True)
            with open(p, "wb") as f:
                f.write(text if isinstance(text, bytes) else text.encode("utf-8"))
        self.rescan()

    def rescan(self):
        r = self.h.call(op="scan", dir=self.dir, graph=self.name, timeout=300)
        if r.get("outcome") != "ok":
            raise RuntimeError("scan failed: %r" % (r,))
        self.nodes = r["nodes"]
        self.edges = r["edges"]
        self.by_id = {n["id"]: n for n in self.nodes}
        self.by_kind = {}
        for n in self.nodes:
            self.by_kind.setdefault(n["type"], []).append(n)
        self.num = {n["id"]: i + 1 for i, n in enumerate(self.nodes)}
        self.values = QG.value_pool(self.nodes)

    def close(self):
        shutil.rmtree(self.dir, ignore_errors=True)


def small_project(rng, h, nfiles=2, opts=None, extra=None):
    files = {}
    for i in range(nfiles):
        o = opts or G.Opts(unique=True, classes=1, methods=rng.randint(2, 4), fields=rng.randint(1, 3), stmts=rng.randint(2, 4), depth=1)
        g = G.Gen(random.Random(rng.random()), o)
        files["src/F%d.java" % i] = g.file("K%d_" % i)[0]
    if extra:
        files.update(extra)
    return Project(h, files)


def product(sets):
    """same shape as the Go fold: the last set varies slowest (order is irrelevant for comparison)"""
    res = [[]]
    for s in sets:
        res = [sub + [item] for item in s for sub in res]
    return res


def spec_eval(cond, atom_val):
    """Three-valued, left-to-right, short-circuit evaluation of a generator AST.
    atom_val(text) -> 't' | 'f' | other (failure)."""
    k = cond[0]
    if k == "atom":
        v = atom_val("".join(t for _, t in cond[1]))
        return v if v in ("t", "f") else "e"
    if k == "paren":
        return spec_eval(cond[1], atom_val)
    if k == "not":
        v = spec_eval(cond[1], atom_val)
        return {"t": "f", "f": "t"}.get(v, "e")
    if k in ("and", "or"):
        a = spec_eval(cond[1], atom_val)
        if a == "e":
            return "e"
        if k == "and":
            return "f" if a == "f" else spec_eval(cond[2], atom_val)
        return "t" if a == "t" else spec_eval(cond[2], atom_val)
    raise ValueError(cond)


def inline_calls(cond, preds, alias_kinds=None):
    """the generator's own capture-free, simultaneous inlining of predicate calls (the C13 spec). A call resolves
    to the declaration with that name whose parameter kinds are the kinds of the argument aliases (overloads)."""
    k = cond[0]
    if k == "call":
        cands = [x for x in preds if x.name == cond[1] and len(x.params) == len(cond[2])]
        if alias_kinds is not None:
            exact = [x for x in cands if [t for t, _ in x.params] == [alias_kinds.get(a) for a in cond[2]]]
            cands = exact or cands
        p = cands[0] if cands else [x for x in preds if x.name == cond[1]][0]
        ren = dict((formal, actual) for (_, formal), actual in zip(p.params, cond[2]))
        return ("paren", rename(inline_calls(p.body, preds, None), ren))
    if k == "atom":
        return cond
    return tuple([k] + [inline_calls(c, preds, alias_kinds) for c in cond[1:]])


def alias_kinds(q):
    return {a: k for k, a in q.from_items}


def rename(cond, ren):
    k = cond[0]
    if k == "atom":
        toks = list(cond[1])
        out = []
        for i, (kind, text) in enumerate(toks):
            if kind == "IDENTIFIER" and text in ren and not (i > 0 and toks[i - 1][1] == "."):
                out.append((kind, ren[text]))
            else:
                out.append((kind, text))
        return ("atom", tuple(out))
    if k == "call":
        return ("call", cond[1], tuple(ren.get(a, a) for a in cond[2]))
    return tuple([k] + [rename(c, ren) for c in cond[1:]])


def atoms_of(cond, acc):
    k = cond[0]
    if k == "atom":
        t = "".join(x for _, x in cond[1])
        if t not in acc:
            acc.append(t)
    elif k != "call":
        for c in cond[1:]:
            atoms_of(c, acc)
    return acc


MAX_TUPLES = 1500


def engine_case(proj, d, text, q=None):
    """Runs one query. Returns dict(real, model, oracle, info); each a sorted list of ID tuples or None."""
    h = proj.h
    out = dict(real=None, model=None, oracle=None, skipped=None, info={})
    rr = h.call(op="query-entities", graph=proj.name, q=text, timeout=300)
    out["real_outcome"] = rr.get("outcome")
    if rr.get("outcome") == "ok":
        out["real"] = sorted(tuple(t) for t in rr["tuples"])
        out["output"] = rr.get("output")
    else:
        out["info"]["real_err"] = rr.get("err") or rr.get("panic")
        if rr.get("outcome") == "died":
            proj.rescan()
    m = d.call("cond", text)
    out["model_outcome"] = m[0]
    if m[0] != "ok":
        return out
    expanded, formula, natoms = m[1], m[2], int(m[3])
    atoms = m[4:4 + natoms]
    out["info"].update(expanded=expanded, formula=formula, atoms=atoms)
    pr = h.call(op="parse", q=text)
    if pr.get("outcome") != "ok":
        return out
    kinds = [e for e, _ in pr["from"]]
    sets = [[n["id"] for n in proj.by_kind.get(k, [])] for k in kinds]
    size = 1
    for s in sets:
        size *= len(s)
    if size > MAX_TUPLES:
        out["skipped"] = "product too large (%d)" % size
        return out
    tuples = product(sets)
    out["info"]["candidates"] = len(tuples)
    want = list(atoms) + ([expanded] if expanded else [])
    spec_atoms = []
    if q is not None and q.cond is not None:
        inl = inline_calls(q.cond, q.preds, alias_kinds(q))
        spec_atoms = atoms_of(inl, [])
        for a in spec_atoms:
            if a not in want:
                want.append(a)
    tables = {}
    if want:
        er = h.call(op="eval-atoms", graph=proj.name, q=text, strs=want, results=tuples, timeout=300)
        if er.get("outcome") != "ok":
            out["info"]["eval_err"] = er
            return out
        for a, row in zip(want, er["tables"]):
            tables[a] = row
    compiles = "1"
    if expanded and "c" in tables.get(expanded, ""):
        compiles = "0"
    out["info"]["compiles"] = compiles
    out["info"]["atom_hist"] = {a: {c: tables[a].count(c) for c in set(tables[a])} for a in atoms}
    key = lambda tp: ".".join(str(proj.num[i]) for i in tp)
    nodes = ",".join("%d:%s" % (proj.num[n["id"]], n["type"]) for n in proj.nodes)
    tabs = []
    for a in atoms:
        row = tables[a]
        tabs.append(",".join("%s=%s" % (key(tp), row[i] if row[i] in "tf" else "e") for i, tp in enumerate(tuples)))
    mr = d.call("engine", text, nodes, compiles, *tabs)
    if mr[0] == "ok":
        rev = {v: k for k, v in proj.num.items()}
        out["model"] = sorted(tuple(rev[int(x)] for x in t.split(".")) for t in mr[1:] if t != "")
        if mr[1:] == [""] or (len(mr) == 2 and mr[1] == ""):
            # one empty tuple (FROM list empty) cannot happen for parsed queries
            out["model"] = []
    # oracle
    if q is not None:
        if q.cond is None:
            out["oracle"] = sorted(tuple(t) for t in tuples)
        else:
            inl = inline_calls(q.cond, q.preds, alias_kinds(q))
            if any("c" in tables[a] or "n" in tables[a] or "p" in tables[a] for a in spec_atoms):
                out["oracle"] = None
                out["info"]["oracle_skipped"] = "an atom of the generated condition does not compile to a boolean"
            else:
                res = []
                for i, tp in enumerate(tuples):
                    if spec_eval(inl, lambda a: tables[a][i]) == "t":
                        res.append(tuple(tp))
                out["oracle"] = sorted(res)
                out["info"]["spec_atoms"] = spec_atoms
                out["info"]["nonconstant_atoms"] = sum(1 for a in spec_atoms if len(set(tables[a])) > 1)
    return out


def describe(proj, tuples, limit=5):
    res = []
    for t in list(tuples)[:limit]:
        res.append([dict(kind=proj.by_id[i]["type"], name=proj.by_id[i]["name"], file=os.path.relpath(proj.by_id[i]["file"], proj.dir),
                         line=proj.by_id[i]["line"]) for i in t])
    return res


def java_files(proj):
    out = {}
    for root, _, files in os.walk(proj.dir):
        for f in files:
            p = os.path.join(root, f)
            try:
                out[os.path.relpath(p, proj.dir)] = open(p, encoding="utf-8", errors="replace").read()
            except Exception:
                pass
    return out
