"""C09 — any file content can be scanned without crashing, hanging or stalling.

Proof: Cpf.Props.C09 (no panic for every tree whose nodes have the children the visitor dereferences —
`allShapeOk`; the declaration x invocation pass costs at most (K*size)^2; regenerated facts on where that
pass runs). `allShapeOk` is re-validated here on every real tree (the model reports `panic` otherwise).
Correspondence: outcome + exact operation count (hook counter vs the model's passOps) on the same tree.
Oracle: the real buildGraphFromAST under recover with a time limit on token mutations, random bytes,
truncations, invalid UTF-8, deep nesting; location guarantee on whatever is yielded; operation counts and
CPU time on the scaling family k methods x c calls at sizes n, 3n, 9n. Thorough: Go native fuzzing."""
import collections, json, os, random, re, resource, shutil, subprocess, sys, time
sys.setrecursionlimit(20000)
from vlib import common as C, genjava as G, scan as S, mutjava as M
from checks import c04

LEAN_MODULES = ["Cpf.Props.C09"]


def family(k, c):
    ms = []
    for i in range(k):
        calls = "".join("    m%d(%d);\n" % ((i + j) % k, j) for j in range(c))
        ms.append("  void m%d(int a) {\n%s  }\n" % (i, calls))
    return ("class S {\n" + "".join(ms) + "}\n").encode()


def family_classes(m):
    """m classes (top level and nested), one method and one call each: the number of declarations grows with the file"""
    out = []
    for i in range(m):
        if i % 3 == 2:
            out.append("class C%d { void m%d() { h%d(); } class N%d { void n%d() { m%d(); } } }\n" % (i, i, i, i, i, i))
        else:
            out.append("class C%d { void m%d() { h%d(); } }\n" % (i, i, i))
    return ("package demo;\n" + "".join(out)).encode()


def run(run):
    C.build_driver()
    h, d = C.Harness(), C.Driver()
    rng = run.rng
    quick = run.depth == "quick"
    stats = collections.Counter()
    mism = []
    try:
        base = [G.kitchen_sink().encode()]
        for i in range(4):
            g = G.Gen(random.Random(rng.random()), G.Opts(unique=False, classes=2, methods=3, stmts=5, depth=2))
            base.append(g.file("K")[0].encode("utf-8"))
        for root, _, files in os.walk(os.path.join(C.REPO, "test-src", "android")):
            for f in sorted(files)[:3]:
                if f.endswith(".java"):
                    base.append(open(os.path.join(root, f), "rb").read())
        inputs = [("seed", b) for b in base]
        for i in range(250 if quick else 6000):
            inputs.append(("mutated", M.mutate(rng, rng.choice(base))))
        for i in range(60 if quick else 1500):
            inputs.append(("random-bytes", M.random_bytes(rng, rng.randint(0, 400))))
        for b in base[:3]:
            for cut in (1, len(b) // 3, len(b) // 2, len(b) - 1):
                inputs.append(("truncated", b[:cut]))
        # minimised past disagreement (model joined call-name identifiers with "." even after an empty MISSING identifier)
        inputs += [("missing-identifier", b"class A { void f(){ x = .<T>z(a); y = .z(b).<U>w(); } }"),
                   ("missing-identifier", bytes.fromhex("7c2d2b3bff223e7d637a7b2b227a7c3cc36161227b623c260a282c633d2e293d2f622728632d222f202e3c78ff2a2e2b26ff002e780a7a28a97d7bff616229292d27"))]
        # Javadoc stress: tag lines made of fragments of inline tags, braces, comment delimiters, wrapped over lines
        frags = ["{@link", "{@", "}", "{", "@param", "@return", "@", "*", "/", "<b>", "\\", "\"", "  ", "\t", "{@code x", "#m(", ")", "[", "]", "-->", "&", "{@link Foo}", "x",
                 "{@literal", "}}", "{{", "@see", "java.util.*", "https://x/", "é", "\u00a0", "{@value #K"]
        for i in range(30 if quick else 600):
            parts = ["class J%d {\n" % i]
            for j in range(4):
                lines = ["  /**", "   * " + " ".join(rng.choice(frags) for _ in range(rng.randint(0, 4)))]
                for _ in range(rng.randint(1, 5)):
                    lead = rng.choice(["   * ", "   *", "   ", " * ", "*"])
                    tag = rng.choice(["@param p", "@return", "@see", "@throws E", "@author", "@version", "@since", "@x", "@"])
                    lines.append(lead + tag + " " + " ".join(rng.choice(frags) for _ in range(rng.randint(0, 5))))
                    if rng.random() < 0.4:
                        lines.append("   *     " + " ".join(rng.choice(frags) for _ in range(rng.randint(1, 3))))
                lines.append("   */")
                parts.append("\n".join(lines) + "\n  " + rng.choice(["void m%d(int p) { }" % j, "int f%d = 1;" % j, "class N%d { }" % j, "@Deprecated void d%d() { }" % j]) + "\n")
            parts.append("}\n")
            inputs.append(("javadoc-stress", "".join(parts).encode("utf-8")))
        # comments stacked above declarations: Javadoc, plain block comments and line comments in every order and number
        cm = ["/** doc %d */", "/* note %d */", "// line %d", "/** @param p x\n   * @return y %d */", "/* */", "/**/", "/***/", "@Deprecated"]
        for i in range(12 if quick else 200):
            parts = ["class S%d {\n" % i]
            for j in range(5):
                for _ in range(rng.randint(0, 5)):
                    c = rng.choice(cm)
                    parts.append("  " + (c % rng.randint(0, 99) if "%d" in c else c) + "\n")
                parts.append("  " + rng.choice(["public int m%d(int p) { return p; }" % j, "int f%d = %d;" % (j, j), "static class N%d { }" % j, "void v%d() { }" % j, "S%d() { }" % i]) + "\n")
            parts.append("}\n")
            inputs.append(("stacked-comments", "".join(parts).encode("utf-8")))
        inputs.append(("stacked-comments", b"class L {\n  /** doc */\n  /* note */\n  public int answer() { return 42; }\n  /* a */ /* b */ /** c */ /* d */\n  void w() { }\n}\n"))
        # a local declaration followed, in the same block, by deeply nested code in trailing positions
        for dd in (10, 16, 24):
            inputs.append(("local-then-deep", ("class A { int f(int a){ return a; } void m(boolean c){ int unused = 0; int r = " + "f(" * dd + "1" + ")" * dd + "; } }").encode()))
            inputs.append(("local-then-deep", ("class A { void m(boolean c){ int unused = 0; " + "if (c) { " * dd + "c = !c;" + " }" * dd + " } }").encode()))
            inputs.append(("local-then-deep", ("class A { void m(int a){ int unused = 0; int r = " + "(a + " * dd + "1" + ")" * dd + "; } }").encode()))
        inputs += [("empty", b""), ("nul", b"\x00" * 50), ("invalid-utf8", b"\xff\xfe class \xc3( { int x = \xe9 + ; }"),
                   ("deep-parens", b"class A { int f(){ return " + b"(" * 2000 + b"1" + b")" * 2000 + b"; } }"),
                   ("deep-blocks", b"class A { void f(){ " + b"{" * 1500 + b"}" * 1500 + b" } }"),
                   ("deep-binary", b"class A { int f(){ return " + b"1 + " * 1500 + b"1; } }"),
                   # calls far down a fluent chain, where no method encloses them: a field initialiser, a static block, a constructor
                   ("deep-fluent-field", b"class T { static final Object TABLE = Reg.builder()" + b"".join(b".put(\"k%d\", %d)" % (j, j) for j in range(3000)) + b".build(); }"),
                   ("deep-fluent-static", b"class T { static Object t; static { t = Reg.builder()" + b"".join(b".put(\"k%d\", %d)" % (j, j) for j in range(2500)) + b".build(); } }"),
                   ("deep-fluent-ctor", b"class T { Object t; T() { t = Reg.builder()" + b"".join(b".add(%d)" % j for j in range(2500)) + b".build(); } }"),
                   ("only-operators", b"+ - * / % == != < > <= >= && || & | ^ << >> >>>"),
                   ("half-statements", b"class A { void f(){ if ( while ( do for ( break continue yield assert return new ; } }"),
                   ("formal-params", b"class A { void f(int, , final x, int... y, @A int z) {} void g( {} }"),
                   ("yield-assert", b"class A { int f(int a){ assert ; yield ; assert : \"x\"; return switch (a) { default -> { yield } }; } }")]
        for label, src in inputs:
            file = "dir/X.java"
            t0 = time.time()
            deep = label.startswith("deep-")
            if deep:
                # the tree dump of a 2000-deep nesting is not worth shipping: outcome and counts only
                real = h.call(op="build", hex=src.hex(), file=file, nonodes=True, timeout=120)
            else:
                real = S.real_build(h, src, file, timeout=120)
            oc = real.get("outcome")
            stats[label + ":" + str(oc)] += 1
            run.count((label, hash(src)))
            if oc != "ok":
                run.violation("C09:scan-" + str(oc), "building the graph ends with %s on a %s input of %d bytes: %s" % (oc, label, len(src), (real.get("panic") or "")[:200]),
                              dict(label=label, source_hex=src.hex()[:20000], panic=real.get("panic"), stack=real.get("stack")))
                continue
            if deep:
                continue
            c04.check_entities(run, src, file, real["nodes"], stats, label)
            if len(src) < 60000:
                model = S.model_build(d, src, file, real["tree"])
                if model.get("outcome") == "panic":
                    run.broken_obligation("hypothesis:allShapeOk", "a real tree violates the shape hypothesis of C09_total_partial (%s) although the scan did not crash: %s input %r" %
                                          (model.get("msg"), label, src[:200]))
                mm, st = S.compare(real, model, src, file)
                if mm:
                    mism.append(dict(label=label, first=mm[:2], source=src[:200].decode("utf-8", "replace")))
        # ---- the same contents as files of a project (the scan of a directory goes through the worker pool, its
        #      status lines and the merge): any mix of contents, blank and empty files included, ends normally
        blanks = [("blank", b""), ("blank", b"   \n\t\n"), ("blank", b"\n"), ("blank", b"\r\n\r\n "), ("blank", b"\xef\xbb\xbf"), ("blank", b"// nothing else\n")]
        pool_inputs = [x for x in inputs if not x[0].startswith("deep-") and len(x[1]) < 20000]
        for pj in range(3 if quick else 25):
            root = C.scratch("c09proj")
            try:
                chosen = blanks[:rng.randint(1, len(blanks))] + [rng.choice(pool_inputs) for _ in range(rng.randint(3, 14))] + [("seed", base[0])]
                rng.shuffle(chosen)
                good = 0
                for i, (label, src) in enumerate(chosen):
                    sub = os.path.join(root, rng.choice(["", "a", "a/b", "z"]))
                    os.makedirs(sub, exist_ok=True)
                    open(os.path.join(sub, "%s%02d.java" % (rng.choice(["AAA_", "M", "zz"]), i)), "wb").write(src)
                    good += label == "seed"
                r = h.call(op="scan", dir=root, graph="p9", nonodes=True, timeout=180)
                run.count(("project", pj, len(chosen)))
                stats["project_scans"] += 1
                if r.get("outcome") != "ok":
                    run.violation("C09:project-scan-" + str(r.get("outcome")), "scanning a directory of %d files (%s) ends with %s: %s" %
                                  (len(chosen), ", ".join(sorted({l for l, _ in chosen})), r.get("outcome"), (r.get("panic") or "")[:200]),
                                  dict(files=[dict(label=l, source_hex=b.hex()[:4000]) for l, b in chosen], panic=r.get("panic"), stack=r.get("stack")))
                    if r.get("outcome") in ("died", "hang"):
                        h = C.Harness()
                    continue
                cl = h.call(op="query-entities", graph="p9", q="FROM class_declaration AS c SELECT c.getName()", timeout=60)
                if cl.get("outcome") == "ok" and len(cl["tuples"]) < good:
                    run.violation("C09:project-scan-lost-files", "a directory with %d well-formed files among %d yields only %d classes" % (good, len(chosen), len(cl["tuples"])),
                                  dict(files=[dict(label=l, source_hex=b.hex()[:4000]) for l, b in chosen]))
            finally:
                shutil.rmtree(root, ignore_errors=True)
        # ---- contents that keep the parser busy for seconds (tens of thousands of unterminated literals, one such file per
        #      worker), then ordinary files: the scan ends normally and the ordinary files are all there
        root = C.scratch("c09slow")
        try:
            nslow = 5
            try:
                nslow = max(1, int(json.load(open(os.path.join(C.LEAN, "Cpf", "Generated", "tables.json"))).get("poolNumWorkers", "5")))
            except Exception:
                pass
            for i in range(nslow):
                open(os.path.join(root, "A%d.java" % i), "wb").write(b'"abc\n' * 14000)
            nsmall = 12
            for i in range(nsmall):
                open(os.path.join(root, "Small%02d.java" % i), "w").write(
                    "package demo;\n\npublic class Small%02d {\n    private int total = %d;\n\n    int helper(int amount) {\n        total = total + amount;\n        return total;\n    }\n}\n" % (i, i))
            r = h.call(op="scan", dir=root, graph="p9s", nonodes=True, timeout=900)
            run.count(("slow-project", nslow, nsmall))
            stats["slow_project_scans"] += 1
            if r.get("outcome") != "ok":
                run.violation("C09:project-scan-" + str(r.get("outcome")), "scanning %d files of 14000 unterminated literals each and %d small well-formed files ends with %s: %s" %
                              (nslow, nsmall, r.get("outcome"), (r.get("panic") or "")[:200]),
                              dict(generator="checks/c09.py slow project", slow_files=nslow, small_files=nsmall, panic=r.get("panic"), stack=r.get("stack")))
                if r.get("outcome") in ("died", "hang"):
                    h = C.Harness()
            else:
                cl = h.call(op="query-entities", graph="p9s", q="FROM method_declaration AS m SELECT m.getName()", timeout=60)
                if cl.get("outcome") == "ok" and len(cl["tuples"]) != nsmall:
                    run.violation("C09:project-scan-lost-files", "a directory with %d well-formed files behind %d slow ones yields %d of their %d methods" % (nsmall, nslow, len(cl["tuples"]), nsmall),
                                  dict(generator="checks/c09.py slow project", slow_files=nslow, small_files=nsmall))
        finally:
            shutil.rmtree(root, ignore_errors=True)
        run.sample(dict(label="mutated", source=inputs[len(base) + 1][1][:300].decode("utf-8", "replace")))
        # ---- scaling family: operation counts (exact relation) and growth
        sizes = [(6, 4), (18, 4), (54, 4)] if quick else [(10, 4), (30, 4), (90, 4), (270, 4)]
        sizes += [(20, -1), (60, -1), (180, -1)] if quick else [(30, -1), (90, -1), (270, -1), (810, -1)]
        rows = []
        for k, c in sizes:
            src = family(k, c) if c >= 0 else family_classes(k)
            real = h.call(op="build", hex=src.hex(), file="S.java", nonodes=True, timeout=600)
            if real.get("outcome") != "ok":
                run.violation("C09:scan-" + str(real.get("outcome")), "scaling family k=%d ends with %s" % (k, real.get("outcome")), dict(k=k, c=c))
                continue
            full = S.real_build(h, src, "S.java")
            model = S.model_build(d, src, "S.java", full["tree"])
            rows.append(dict(k=k, c=c, family="methods-x-calls" if c >= 0 else "many-classes", bytes=len(src), tree=real["treeSize"], nodes=real["n"], ops=real["ops"], model_ops=model.get("ops"), ms=real["ms"]))
            run.count(("family", k, c))
            if model.get("ops") != real["ops"]:
                mism.append(dict(label="family", k=k, hook_ops=real["ops"], model_ops=model.get("ops")))
            bound = (35 * real["treeSize"]) ** 2
            if real["ops"] > real["treeSize"] ** 2:
                run.violation("C09:superquadratic-work", "the declaration x invocation pass makes %d iterations on a tree of %d nodes (more than size^2)" % (real["ops"], real["treeSize"]),
                              dict(k=k, c=c, ops=real["ops"], tree=real["treeSize"]))
        for a, b in zip(rows, rows[1:]):
            if (a["c"] < 0) != (b["c"] < 0):
                continue
            ratio = b["ops"] / max(1, a["ops"])
            size_ratio = b["tree"] / a["tree"]
            if ratio > 1.3 * size_ratio ** 2:
                run.violation("C09:superquadratic-growth", "work grows by x%.1f when the file grows by x%.1f (k=%d -> %d)" % (ratio, size_ratio, a["k"], b["k"]),
                              dict(rows=rows))
        run.extra["scaling_family"] = rows
        # CPU time of the CLI child on the largest member (supporting evidence)
        big = C.scratch("c09big")
        try:
            k = 120 if quick else 400
            open(os.path.join(big, "S.java"), "wb").write(family(k, 4))
            t0 = time.time()
            rc, so, se = C.cli(["query", "--project", big, "--query", "FROM class_declaration AS c SELECT c.getName()", "--output", "json", "--disable-metrics"], timeout=120)
            dt = time.time() - t0
            run.extra["cli_seconds_k%d" % k] = round(dt, 2)
            if rc == -999:
                run.violation("C09:scan-stalls", "scanning one file of %d bytes (k=%d methods x 4 calls) did not finish in 120 s" % (len(family(k, 4)), k), dict(k=k))
        finally:
            shutil.rmtree(big, ignore_errors=True)
        if run.tier == "thorough":
            fz = C.HARNESS_DIR
            env = dict(C.GOENV, GOFLAGS="-mod=mod")
            rc, out = C.sh(["go", "test", "-tags", "verif", "-run", "^$", "-fuzz", "FuzzBuild", "-fuzztime", "180s", "."], cwd=fz, env=env, timeout=1200)
            run.extra["fuzz_tail"] = out[-600:]
            if rc != 0 and ("panic" in out or "FAIL" in out):
                run.violation("C09:fuzz-crash", "native fuzzing found a crashing file content", dict(output=out[-3000:]))
    finally:
        h.close()
        d.close()
    run.extra["histogram"] = dict(stats)
    if mism:
        run.broken_obligation("correspondence:scan-model", "model vs implementation: %s" % json.dumps(mism[:3])[:1500])
