/-
  C15 — output rows line up with results, identically in every output mode.

  Model: Cpf.Query.Output. For all result lists, all SELECT lists (any length), all evaluators:
  one row per combination, one cell per SELECT item in SELECT order, each cell evaluated on *that*
  combination; text mode and JSON mode list the same locations in the same order; text mode's line
  numbers are `line + i`. The side condition "every item type is one the switch knows" is what the
  listener guarantees (three alternatives of `select_expression`); it is re-validated on every run.
  JSON string escaping (arbitrary snippet text survives) is Cpf.Props.C20.json_roundtrip.
-/
import Cpf.Query.Output
import Cpf.Generated.Tables
import Cpf.Lemmas.JsonDoc

namespace Cpf.Props.C15
open Cpf.Query

def KnownTypes (items : List SelectOut) : Prop :=
  ∀ it ∈ items, it.ty = "string" ∨ it.ty = "method_chain" ∨ it.ty = "variable"

theorem itemCells_length (t : Tuple) (it : SelectOut)
    (h : it.ty = "string" ∨ it.ty = "method_chain" ∨ it.ty = "variable") : (itemCells t it).length = 1 := by
  unfold itemCells
  rcases h with h | h | h <;> simp [h]

theorem flatMap_itemCells_length (t : Tuple) (items : List SelectOut) (h : KnownTypes items) :
    (items.flatMap (itemCells t)).length = items.length := by
  induction items with
  | nil => rfl
  | cons it rest ih =>
      simp only [List.flatMap_cons, List.length_append, List.length_cons]
      rw [itemCells_length t it (h it (by simp)), ih (fun x hx => h x (by simp [hx]))]
      omega

/-- **C15 (rows)**: exactly one row per reported combination, one value per SELECT item. -/
theorem C15_rows (tuples : List Tuple) (items : List SelectOut) (h : KnownTypes items) :
    (generateOutput tuples items).length = tuples.length ∧
    ∀ row ∈ generateOutput tuples items, row.length = items.length := by
  refine ⟨by simp [generateOutput], ?_⟩
  intro row hrow
  simp only [generateOutput, List.mem_map] at hrow
  obtain ⟨t, _, rfl⟩ := hrow
  exact flatMap_itemCells_length t items h

theorem flatMap_itemCells_get (t : Tuple) (items : List SelectOut) (h : KnownTypes items) (j : Nat) (hj : j < items.length) :
    (items.flatMap (itemCells t))[j]? = (itemCells t items[j]).head? := by
  induction items generalizing j with
  | nil => simp at hj
  | cons it rest ih =>
      have h1 := itemCells_length t it (h it (by simp))
      simp only [List.flatMap_cons]
      match hc : itemCells t it, h1 with
      | [c], _ =>
        cases j with
        | zero => simp [hc]
        | succ k =>
            simp only [List.singleton_append, List.getElem?_cons_succ, List.getElem_cons_succ]
            exact ih (fun x hx => h x (by simp [hx])) k (by simpa using hj)

/-- **C15 (cells)**: row `i`, column `j` is SELECT item `j` evaluated on combination `i`'s own entities
    (a literal verbatim without its delimiters, a chain as written, a bare alias as `alias.toString()`). -/
theorem C15_cell (tuples : List Tuple) (items : List SelectOut) (h : KnownTypes items)
    (i j : Nat) (hi : i < tuples.length) (hj : j < items.length) :
    ((generateOutput tuples items)[i]?.bind (·[j]?)) = (itemCells tuples[i] items[j]).head? := by
  simp only [generateOutput, List.getElem?_map, List.getElem?_eq_getElem hi, Option.map_some, Option.bind_some]
  exact flatMap_itemCells_get tuples[i] items h j hj

/-- **C15 (modes)**: text mode and JSON mode describe the same locations, in the same order. -/
theorem C15_modes (loc : Node → Loc) (tuples : List Tuple) (rows : List (List Cell))
    (hlen : rows.length = tuples.length) :
    (textBlocks loc tuples rows).map (·.1) = jsonResultSet loc tuples := by
  unfold textBlocks jsonResultSet
  induction tuples generalizing rows with
  | nil => simp
  | cons t ts ih =>
      cases rows with
      | nil => simp at hlen
      | cons r rs =>
          simp only [List.zip_cons_cons, List.flatMap_cons, List.map_append, List.map_map]
          rw [ih rs (by simpa using hlen)]
          simp [Function.comp_def]

/-- every text block of combination `i` shows row `i` -/
theorem C15_text_row (loc : Node → Loc) (tuples : List Tuple) (rows : List (List Cell)) (b : Loc × List Cell)
    (hb : b ∈ textBlocks loc tuples rows) : ∃ p ∈ tuples.zip rows, b.2 = p.2 ∧ ∃ n ∈ p.1, b.1 = loc n := by
  simp only [textBlocks, List.mem_flatMap, List.mem_map] at hb
  obtain ⟨p, hp, n, hn, rfl⟩ := hb
  exact ⟨p, hp, rfl, n, hn, rfl⟩

/-- **C15/C04 (text mode numbering)**: the i-th printed snippet line carries number `line + i`. -/
theorem C15_numbered (line : Nat) (ls : List String) (i : Nat) (hi : i < ls.length) :
    (numberedLines line ls)[i]? = some (line + i, ls[i]) := by
  simp [numberedLines, List.getElem?_zip_eq_some, hi]

theorem stripQuotes_quoted (s : List Char) (h : ∀ c ∈ s, c ≠ '"' ∨ True) :
    stripQuotes ('"' :: s ++ ['"']) = s := by
  simp [stripQuotes]

/-! ### the JSON report is one well-formed document -/

section json
open Cpf.Rules.JsonDoc

/-- the document `processQuery` marshals in JSON mode: `{"output": rows, "result_set": [{"code","file","line"}…]}`
    (encoding/json writes the keys of a Go map in sorted order) -/
def reportDoc (rows : List (List JV)) (ents : List (List Char × List Char × List Char)) : JV :=
  .obj [("output".toList, .arr (rows.map JV.arr)),
        ("result_set".toList, .arr (ents.map (fun e => JV.obj [("code".toList, .str e.1), ("file".toList, .str e.2.1), ("line".toList, .num e.2.2)])))]

/-- **C15 (JSON mode)**: every JSON document — any nesting of arrays and objects, any string content (quotes,
    backslashes, control characters, `<`, `>`, `&`, U+2028, non-BMP characters, written-out escapes) — is read
    back from its compact encoding exactly: the output is one well-formed document that preserves the text. The
    encoder is compared byte for byte with the CLI's JSON output on every run (checks/c15.py). -/
theorem C15_json_document (v : JV) (hw : wf v = true) : decode (enc v) = some v := decode_enc v hw

/-- in particular the report of a query, for every list of rows and every list of reported entities -/
theorem C15_json_report (rows : List (List JV)) (ents : List (List Char × List Char × List Char))
    (hw : wf (reportDoc rows ents) = true) : decode (enc (reportDoc rows ents)) = some (reportDoc rows ents) :=
  decode_enc _ hw

/-- Non-vacuity: a snippet with quotes, a backslash, a written-out unicode escape, `<&>` and a line break. -/
example :
    let d := reportDoc [[.str "m".toList, .arr [.str "@A".toList]]] [("String s = \"a\\u003c<&>\n\";".toList, "src/F.java".toList, "12".toList)]
    wf d = true ∧ decode (enc d) = some d := by
  refine ⟨by decide, ?_⟩
  exact decode_enc _ (by decide)

end json

/-- Regenerated: `--output-file` is opened with `os.Create` (create or truncate), the whole result string is written
    to it once, and it is closed — so the file holds exactly what the chosen mode prints, whatever it held before. -/
theorem C15_output_file :
    Cpf.Generated.outputFileUses = ["os.Create(outputFile)", "file.Close()", "file.WriteString(result)"] := by decide

/-- Non-vacuity: two combinations, three items of the three kinds. -/
example :
    let n1 : Node := ⟨1, "m"⟩
    let n2 : Node := ⟨2, "m"⟩
    generateOutput [[n1], [n2]] [⟨"\"say \\\"hi\\\"\"", "string"⟩, ⟨"x.getName()", "method_chain"⟩, ⟨"x", "variable"⟩]
      = [[.lit "say \\\"hi\\\"", .val "x.getName()" [n1], .val "x.toString()" [n1]],
         [.lit "say \\\"hi\\\"", .val "x.getName()" [n2], .val "x.toString()" [n2]]] := by
  decide

end Cpf.Props.C15
