"""Generator of rule files (.cql): a metadata comment header followed by a query, with arbitrary field order
and subset, single-line values, LF/CRLF, wrapping at token boundaries, indentation."""
import random
from vlib import querygen as QG

FIELDS = ["name", "description", "kind", "id", "problem.severity", "security-severity", "precision", "tags", "ruleprovider"]
META = {"id": "id", "description": "description", "problem.severity": "severity", "security-severity": "impact", "ruleprovider": "provider"}


def value(rng, key):
    if key == "id":
        return rng.choice(["java/", "android/", "x-", "*", "**/"]) + rng.choice(["Rule", "weak.hash", "a_b", "R2D2"]) + str(rng.randint(0, 99)) + rng.choice(["", "", "", "/*", "*", "/**", ".*"])
    if key == "problem.severity":
        return rng.choice(["warning", "WARNING", "Error", "error", "note", "CRITICAL"])
    if key == "security-severity":
        return "%d.%d" % (rng.randint(0, 9), rng.randint(0, 9))
    if key == "ruleprovider":
        return rng.choice(["java", "android", "acme corp"])
    words = ["Use", "of", "x", "&&", "||", "detected.", "64-bit", "FROM", "SELECT", "WHERE", "predicate", "(a,b)", "\"quoted\"", "it's", "<b>", "ünï", "a=b", "@at", "*star", "100%", "back\\slash", "semi;colon",
             "javax.crypto.*", "*", "**", "glob/**", "star*", "*both*", "@", "a*b", "/*x", "tab\tinside"]
    n = rng.randint(1, 8)
    ws = [rng.choice(words) for _ in range(n)]
    sep = rng.choice([" ", " ", "  "])
    return sep.join(ws)


def header(rng, eol, subset=None, note=None):
    keys = list(FIELDS)
    rng.shuffle(keys)
    if subset is None:
        keys = keys[: rng.randint(0, len(keys))]
    meta = {}
    lines = ["/**"]
    indent = rng.choice([" ", "", "  ", "\t"])
    for k in keys:
        v = value(rng, k)
        lines.append("%s* @%s %s" % (indent, k, v))
        if k in META:
            meta[META[k]] = v
        if rng.random() < 0.15:
            lines.append("%s* external/cwe/cwe-%d" % (indent, rng.randint(1, 999)))
    lines.append(indent + "*/")
    if (rng.random() < 0.2) if note is None else note:
        # a one-line comment between the header and the query (a review note); the header's values are '*/'-free and
        # its closing line stands alone, as the property says
        lines.append(rng.choice(["/* reviewed */", "/* TODO tighten */", "/** see above */", "/* FROM here on the query */"]))
    return lines, meta


def wrap_query(rng, q, eol):
    """lay the query's tokens out over several lines; never break next to the ' in ' token (known finding C14)"""
    lines, cur = [], rng.choice(["", "  ", "\t"])
    for i, (lx, kd) in enumerate(zip(q.lexemes, q.kinds)):
        cur += lx
        last = i + 1 == len(q.lexemes)
        nk = q.kinds[i + 1] if not last else None
        if last:
            break
        if kd == "' in '" or nk == "' in '":
            continue
        if rng.random() < 0.25:
            lines.append(cur + rng.choice(["", " ", "  "]))
            cur = rng.choice(["", "    ", "\t", "  "])
        else:
            cur += " "
    lines.append(cur)
    return lines


def rule_file(rng, q, eol=None, blank_lines=True, head=None):
    """head: (header lines, metadata) of another rule file to reuse (a copy-pasted header) instead of a fresh one"""
    eol = eol or rng.choice(["\n", "\r\n"])
    hl, meta = head if head is not None else header(rng, eol)
    hl, meta = list(hl), dict(meta)
    ql = wrap_query(rng, q, eol)
    parts = hl + ([""] if blank_lines and rng.random() < 0.6 else []) + ql
    if rng.random() < 0.25:
        # mixed line endings (a file edited on two platforms, or a header pasted in): every line its own ending
        text = "".join(p + rng.choice(["\n", "\r\n"]) for p in parts[:-1]) + parts[-1] + (rng.choice(["\n", "\r\n"]) if rng.random() < 0.7 else "")
        return Rule(text, meta, hl)
    text = eol.join(parts) + (eol if rng.random() < 0.7 else "")
    return Rule(text, meta, hl)


class Rule(tuple):
    """(text, meta) with the header lines kept aside, so that another file can be given the same header"""
    def __new__(cls, text, meta, hl):
        o = tuple.__new__(cls, (text, meta))
        o.head = (hl, meta)
        return o
