#!/bin/bash
# Builds the framework from files on disk only (offline).
set -e
cd "$(dirname "$(readlink -f "$0")")"
HERE="$PWD"
export GOPROXY=off GOSUMDB=off GOTOOLCHAIN=local
mkdir -p build evidence replays
python3 - <<'PY'
import sys
sys.path.insert(0, '.')
from vlib import common as C
C.build_go()
ok, msg = C.run_factgen()
if not ok:
    print("factgen failed:", msg); sys.exit(1)
PY
cd "$HERE/lean"
lake build Cpf Cpf.AuditTool cpfdriver 2>&1 | tail -5
