/-
  C04 — reported file, line and snippet always denote real source text.

  * regenerated facts (`C04_fields`): every `&Node{}` literal of the visitor sets
      LineNumber = node.StartPoint().Row + 1, CodeSnippet = node.Content(sourceCode), File = file;
  * model (`C04_entity_location`): hence every entity carries its own node's byte range and start row + 1;
  * bytes (`C04_line_of_offset`, `C04_snippet_in_file`, `C04_ith_line`): for *any* byte string (malformed
    Java, invalid UTF-8, tabs, CRLF — bytes are bytes), if the node's start row is the number of newlines
    before its start byte (tree-sitter's contract, re-validated on every dumped tree of every run), then the
    snippet is the file's text from that offset, and the text after the i-th newline of the snippet lies on
    file line `LineNumber + i`.
  Text mode's numbering (`line + i` for the i-th `\n`-separated piece) is Cpf.Props.C15.C15_numbered.
-/
import Cpf.Props.C03

namespace Cpf.Props.C04
open Cpf.Scan Cpf.Go Cpf.Facts Cpf.Generated

/-- Regenerated fact about every literal of the visitor. -/
theorem C04_fields : ∀ l ∈ nodeLits,
    l.line = "node.StartPoint().Row + 1" ∧ l.snippet = "node.Content(sourceCode)" ∧ l.file = "file" := by
  decide

/-- Every entity of a scan has the byte range and the 1-based start row of a syntax node of the file. -/
theorem C04_entity_location (n : T) (src file : Bytes) (es : List Ent) (h : emitAt n src file = .ok es) :
    ∀ e ∈ es, e.sb = n.sb ∧ e.eb = n.eb ∧ e.line = n.sr + 1 := by
  intro e he
  obtain ⟨h1, h2, h3, _⟩ := Cpf.Props.C03.C03_emitted_kind n src file es h e he
  exact ⟨h1, h2, h3⟩

def countNL (b : Bytes) : Nat := (b.filter (· == 10)).length

theorem countNL_append (a b : Bytes) : countNL (a ++ b) = countNL a + countNL b := by
  simp [countNL, List.filter_append]

/-- the snippet `src[sb:eb]` is the file's text at that offset: `src = before ++ snippet ++ after` -/
theorem C04_snippet_in_file (src : Bytes) (sb eb : Nat) (h1 : sb ≤ eb) (h2 : eb ≤ src.length) :
    src = src.take sb ++ ((src.drop sb).take (eb - sb)) ++ src.drop eb := by
  have : src.drop eb = (src.drop sb).drop (eb - sb) := by
    rw [List.drop_drop]; congr 1; omega
  rw [this, List.append_assoc, List.take_append_drop, List.take_append_drop]

/-- the byte at offset `sb + k` of the file lies on line `(newlines before sb) + 1 + (newlines in snippet[:k])` -/
theorem C04_line_of_offset (src : Bytes) (sb k : Nat) :
    countNL (src.take (sb + k)) = countNL (src.take sb) + countNL ((src.drop sb).take k) := by
  rw [← countNL_append]
  congr 1
  rw [List.take_add]

/-- **C04**: with `line = countNL (src.take sb) + 1` (the reported 1-based line), the part of the snippet
    after its i-th newline starts on file line `line + i`. -/
theorem C04_ith_line (src : Bytes) (sb eb line k i : Nat)
    (hline : line = countNL (src.take sb) + 1)
    (hk : k ≤ eb - sb)
    (hi : countNL (((src.drop sb).take (eb - sb)).take k) = i) :
    countNL (src.take (sb + k)) + 1 = line + i := by
  rw [C04_line_of_offset, hline]
  have : ((src.drop sb).take (eb - sb)).take k = (src.drop sb).take k := by
    rw [List.take_take]; congr 1; omega
  rw [this] at hi
  omega

/-- Non-vacuity: a CRLF file with a tab and an invalid UTF-8 byte; the snippet starts on line 2. -/
example :
    let src : Bytes := [97, 13, 10, 9, 0xff, 98, 13, 10, 99]     -- "a\r\n\t\xffb\r\nc"
    countNL (src.take 3) + 1 = 2 ∧ (src.drop 3).take 5 = [9, 0xff, 98, 13, 10] ∧
    countNL (src.take (3 + 5)) + 1 = 2 + 1 := by decide

end Cpf.Props.C04
