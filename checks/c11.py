"""C11 — queries are accepted iff grammatical, and parsed structure is faithful.

Proof (Cpf.Props.C11): the generic recogniser `parse` is sound and complete w.r.t. the inductive
derivation relation of *whatever grammar Query.g4 currently contains* (regenerated each run).
Correspondence: real parser.ParseQuery vs the Lean model (`accept`, `parse`) on every sentence up to
N tokens over a reduced alphabet and on single-token edits, plus structure comparison.
Oracle (search): an independent Earley recogniser in Python over the same grammar file."""
import itertools, os, random
from vlib import common as C, genquery as Q


def flat_parse(r):
    """flatten harness `parse` response in the driver's field order"""
    if r.get("outcome") != "ok":
        return [r.get("outcome")]
    f = ["ok", str(len(r["from"]))]
    for e, a in r["from"]:
        f += [e, a]
    f.append(str(len(r["select"])))
    for t, x in r["select"]:
        f += [t, x]
    f.append(str(len(r["preds"])))
    for p in r["preds"]:
        f += [p["name"], str(len(p["params"]))]
        for t, n in p["params"]:
            f += [t, n]
        f.append(p["body"])
    f.append(str(len(r["invocations"])))
    for p in r["invocations"]:
        f += [p["name"], str(len(p["args"]))]
        for t, n in p["args"]:
            f += [t, n]
        m = p["matched"]
        f += [m["name"], str(len(m["params"]))]
        for t, n in m["params"]:
            f += [t, n]
        f.append(m["body"])
    f.append(str(len(r["conditions"] or [])))
    f += (r["conditions"] or [])
    f.append(r["expression"])
    return f


def edits(sent, alphabet, rng, limit):
    out = set()
    n = len(sent)
    for i in range(n):
        out.add(sent[:i] + sent[i + 1:])
        for a in alphabet:
            if a != sent[i]:
                out.add(sent[:i] + (a,) + sent[i + 1:])
    for i in range(n + 1):
        for a in alphabet:
            out.add(sent[:i] + (a,) + sent[i:])
    out = sorted(out)
    if limit and len(out) > limit:
        out = rng.sample(out, limit)
    return out


def run(run):
    g = Q.Grammar(os.path.join(C.SP, "antlr", "Query.g4"))
    C.build_driver()
    h, d = C.Harness(), C.Driver()
    rng = run.rng
    N = 10 if run.depth == "quick" else 12
    sents = g.enumerate(N, Q.reduce_default)
    alphabet = sorted({k for s in sents for k in s} | {"'LIKE'", "'in'", "'['", "']'", "'}'", "NUMBER", "'-'", "' in '"})
    per = 60 if run.depth == "quick" else 120
    cases = {}
    for s in sents:
        cases[s] = True
        for e in edits(s, alphabet, rng, per):
            cases.setdefault(e, None)
    items = list(cases.keys())
    run.extra["exhaustive_sentences_upto_tokens"] = N
    run.extra["sentences"] = len(sents)
    run.extra["single_token_edits"] = len(items) - len(sents)
    texts = [Q.render_kinds(k) for k in items]
    # --- real parser
    real = ""
    B = 2000
    for i in range(0, len(texts), B):
        r = h.call(op="accept-batch", qs=texts[i:i + B], timeout=300)
        if r.get("outcome") != "ok":
            run.broken_obligation("correspondence:accept", "harness failed: %s" % r)
            return
        real += r["res"]
    n_acc = n_rej = 0
    mism_model = []
    for k, t, rr in zip(items, texts, real):
        m = d.call("accept", t)[0]
        ea = g.is_sentence(t)
        run.count(k)
        if rr == 'a':
            n_acc += 1
        else:
            n_rej += 1
        if rr == 'p':
            run.violation("C11:parser-panic", "ParseQuery panicked on %r" % t, dict(query=t))
            continue
        # oracle: accepted iff grammatical
        if (rr == 'a') != ea:
            run.violation("C11:accept-mismatch:" + ("accepts-ungrammatical" if rr == 'a' else "rejects-grammatical"),
                          "ParseQuery %s %r but the grammar says %s" % ("accepts" if rr == 'a' else "rejects", t, "sentence" if ea else "not a sentence"),
                          dict(query=t, kinds=list(k), real=rr, earley=ea, model=m))
        if (m == "accept") != (rr == 'a'):
            mism_model.append((t, m, rr))
    run.extra["accepted"], run.extra["rejected"] = n_acc, n_rej
    if mism_model:
        run.broken_obligation("correspondence:accept", "Lean model and ParseQuery disagree on %d inputs, e.g. %r" % (len(mism_model), mism_model[:3]))
    # --- characters that look like white space but are not the grammar's WS (form feed, vertical tab, NEL, NBSP,
    #     line/paragraph separators, zero-width space), and other layouts of the word `in`: the independent lexer +
    #     Earley recogniser decides, ParseQuery and the model must agree
    odd_ws = ["\f", "\v", "\u0085", "\u00a0", "\u2028", "\u2029", "\u200b", "\u3000", "\x1c", "  ", " \t", "\r"]
    sample = [k for k in items if len(k) >= 3]
    rng.shuffle(sample)
    odd_cases = []
    for k in sample[: (400 if run.depth == "quick" else 4000)]:
        lex = [Q.kind_text(x) for x in k]
        parts = []
        for i, lx in enumerate(lex):
            parts.append(lx)
            if i + 1 < len(lex) and k[i] != "' in '" and k[i + 1] != "' in '":
                parts.append(rng.choice(odd_ws) if rng.random() < 0.3 else " ")
        odd_cases.append("".join(parts))
    for k in sample[: (150 if run.depth == "quick" else 1500)]:
        if "' in '" in k:
            lex = [Q.kind_text(x) for x in k]
            j = list(k).index("' in '")
            lex[j] = rng.choice(["  in ", " in  ", "\tin ", " in\t", "\nin\n", " in\n", "  in  "])
            odd_cases.append(Q.render_kinds(k, lex))
    omism = []
    for i in range(0, len(odd_cases), B):
        chunk = odd_cases[i:i + B]
        r = h.call(op="accept-batch", qs=chunk, timeout=300)
        if r.get("outcome") != "ok":
            run.broken_obligation("correspondence:accept", "harness failed: %s" % r)
            break
        for t, rr in zip(chunk, r["res"]):
            ea = g.is_sentence(t)
            m = d.call("accept", t)[0]
            run.count(("odd-ws", t))
            if rr == 'p':
                run.violation("C11:parser-panic", "ParseQuery panicked on %r" % t, dict(query=t))
            elif (rr == 'a') != ea:
                run.violation("C11:accept-mismatch:" + ("accepts-ungrammatical" if rr == 'a' else "rejects-grammatical"),
                              "ParseQuery %s %r but the grammar says %s" % ("accepts" if rr == 'a' else "rejects", t, "sentence" if ea else "not a sentence"),
                              dict(query=t, real=rr, earley=ea, model=m))
            if (m == "accept") != (rr == 'a'):
                omism.append((t, m, rr))
    run.extra["odd_whitespace_cases"] = len(odd_cases)
    if omism:
        run.broken_obligation("correspondence:accept", "Lean model and ParseQuery disagree on %d odd-white-space inputs, e.g. %r" % (len(omism), omism[:3]))
    # --- structure: random longer sentences with real identifiers and layouts
    from vlib import querygen as QG
    nq = 300 if run.depth == "quick" else 3000
    smism = []
    stats_rep = [0]
    for i in range(nq):
        q = QG.random_query(rng, structure_only=True, n_entities=rng.choice([1, 1, 2, 3, 4]))
        if len(q.from_items) >= 2 and rng.random() < 0.4:
            # the grammar does not ask for distinct aliases or kinds: the same alias (or kind) written twice is two items
            j = rng.randrange(1, len(q.from_items))
            k0, a0 = q.from_items[0]
            q.from_items[j] = rng.choice([(q.from_items[j][0], a0), (k0, q.from_items[j][1]), (k0, a0)])
            QG.flatten(q)
            stats_rep[0] += 1
        text = Q.layout(q.lexemes, q.kinds, rng)
        rr = h.call(op="parse", q=text)
        mm = d.call("parse", text)
        run.count(("structure", tuple(q.lexemes)))
        fr = flat_parse(rr)
        if i < 3:
            run.sample(dict(query=text, real=fr[:12]))
        if rr.get("outcome") == "panic":
            run.violation("C11:parser-panic", "ParseQuery panicked on %r" % text, dict(query=text, panic=rr.get("panic")))
            continue
        # oracle: the recovered structure is what was written
        if rr.get("outcome") != "ok":
            run.violation("C11:rejects-grammatical", "ParseQuery rejects the generated valid query %r: %s" % (text, rr.get("err")), dict(query=text))
            continue
        exp_from = [[e, a] for e, a in q.from_items]
        exp_sel = [[t, x] for t, x in q.select_items]
        exp_preds = [dict(name=p.name, params=[[t, n] for t, n in p.params], body=p.body_text) for p in q.preds]
        got_preds = [dict(name=p["name"], params=p["params"], body=p["body"]) for p in rr["preds"]]
        if rr["from"] != exp_from or rr["select"] != exp_sel or got_preds != exp_preds:
            run.violation("C11:structure-mismatch", "parsed structure differs from what is written in %r" % text,
                          dict(query=text, expected=dict(frm=exp_from, select=exp_sel, preds=exp_preds),
                               got=dict(frm=rr["from"], select=rr["select"], preds=got_preds)))
        if mm != fr:
            smism.append((text, mm[:10], fr[:10]))
    if smism:
        run.broken_obligation("correspondence:parse-structure", "Lean listener model and ParseQuery disagree on %d queries, e.g. %r" % (len(smism), smism[:2]))
    h.close(); d.close()
