/-
  Layout lemmas for the lexer rules of Query.g4 (the regenerated table `Cpf.Generated.lexRules`).

  The rules fall into four classes (checked by `decide` on the regenerated table, `rules_classified`):
    A  rules whose expression accepts no white-space character and nothing that begins with `"` (keywords, operators,
       numbers, identifiers);
    B  the two string-literal rules (white space is ordinary inside a literal);
    C  the skipped white-space rule;
    D  the ` in ` token, which carries its own blanks.
  For B the automaton of derivatives is written out (start, inside, after a backslash, done).
-/
import Cpf.Lemmas.LexLayout
import Cpf.Generated.Grammar

set_option linter.unusedSimpArgs false

namespace Cpf.Lemmas.LexLayoutQ
open Cpf.Query Cpf.Query.Re Cpf.Generated Cpf.Lemmas.LexLayout

deriving instance DecidableEq for Re
deriving instance DecidableEq for LexRule

theorem char_between (a c : Char) : (decide (a ≤ c) && decide (c ≤ a)) = (c == a) := by
  by_cases h : c = a
  · subst h; simp
  · have : (c == a) = false := by simpa using h
    rw [this]
    by_cases h1 : a ≤ c
    · have : ¬ c ≤ a := fun h2 => h (Char.le_antisymm h2 h1)
      simp [this]
    · simp [h1]

/-! ### the expressions of the table -/

def QS : List (Char × Char) := [('"', '"'), ('\\', '\\')]
def X : Re := .alt (.nset QS) (.seq (.chr '\\') .any)
def S0 : Re := .seq (.chr '"') (.seq (.star X) (.chr '"'))
def S1 : Re := .seq (.star X) (.chr '"')
def S2 : Re := .seq (.seq .any (.star X)) (.chr '"')
def X' : Re := .alt (.nset QS) (.alt (.seq (.chr '\\') .any) (.chr '%'))
def T0 : Re := .seq (.chr '"') (.seq (.star X') (.chr '"'))
def T1 : Re := .seq (.star X') (.chr '"')
def T2 : Re := .seq (.seq .any (.star X')) (.chr '"')
def T3 : Re := .seq (.seq (.alt .eps .eps) (.star X')) (.chr '"')
def WSet : List (Char × Char) := [(' ', ' '), ('\t', '\t'), ('\r', '\r'), ('\n', '\n')]
def W0 : Re := .seq (.set WSet) (.star (.set WSet))
def W1 : Re := .star (.set WSet)
def IN0 : Re := .seq (.chr ' ') (.seq (.chr 'i') (.seq (.chr 'n') (.chr ' ')))

/-- every rule of the regenerated table is of one of the four classes; none matches the empty string -/
theorem rules_classified : ∀ r ∈ lexRules,
    (wsFree r.re = true ∧ (r.re.deriv '"').dead = true ∧ r.skip = false) ∨ (r.re = S0 ∧ r.skip = false) ∨
    (r.re = T0 ∧ r.skip = false) ∨ (r.re = W0 ∧ r.skip = true) ∨ (r.re = IN0 ∧ r.skip = false) := by decide

theorem rules_not_nullable : ∀ r ∈ lexRules, r.re.nullable = false := by decide

theorem inRanges_QS (c : Char) : inRanges c QS = (c == '"' || c == '\\') := by
  simp [inRanges, QS, char_between]

theorem inRanges_WSet (c : Char) : inRanges c WSet = isWs c := by
  simp [inRanges, WSet, char_between, isWs, Bool.or_assoc]

/-! ### B: string literals -/

theorem d_S0 (c : Char) : S0.deriv c = if c = '"' then S1 else .empty := by
  by_cases h : c = '"' <;> simp [S0, S1, deriv, nullable, mkSeq, h]

theorem d_S1 (c : Char) : S1.deriv c = if c = '"' then .eps else if c = '\\' then S2 else S1 := by
  by_cases h : c = '"'
  · subst h; simp [S1, X, deriv, nullable, mkSeq, mkAlt, inRanges_QS]
  · by_cases h2 : c = '\\'
    · subst h2; simp [S1, S2, X, deriv, nullable, mkSeq, mkAlt, inRanges_QS]
    · simp [S1, X, deriv, nullable, mkSeq, mkAlt, inRanges_QS, h, h2]

theorem d_S2 (c : Char) : S2.deriv c = S1 := by
  simp [S2, S1, deriv, nullable, mkSeq]

theorem d_T0 (c : Char) : T0.deriv c = if c = '"' then T1 else .empty := by
  by_cases h : c = '"' <;> simp [T0, T1, deriv, nullable, mkSeq, h]

theorem d_T1 (c : Char) : T1.deriv c = if c = '"' then .eps else if c = '\\' then T2 else if c = '%' then T3 else T1 := by
  by_cases h : c = '"'
  · subst h; simp [T1, X', deriv, nullable, mkSeq, mkAlt, inRanges_QS]
  · by_cases h2 : c = '\\'
    · subst h2; simp [T1, T2, X', deriv, nullable, mkSeq, mkAlt, inRanges_QS]
    · by_cases h3 : c = '%'
      · subst h3; simp [T1, T3, X', deriv, nullable, mkSeq, mkAlt, inRanges_QS]
      · simp [T1, X', deriv, nullable, mkSeq, mkAlt, inRanges_QS, h, h2, h3]

theorem d_T2 (c : Char) : T2.deriv c = T1 := by
  simp [T2, T1, deriv, nullable, mkSeq]

theorem d_T3 (c : Char) : T3.deriv c = T1.deriv c := by
  by_cases h : c = '"'
  · subst h; simp [T3, T1, X', deriv, nullable, mkSeq, mkAlt, inRanges_QS]
  · by_cases h2 : c = '\\'
    · subst h2; simp [T3, T1, X', deriv, nullable, mkSeq, mkAlt, inRanges_QS]
    · by_cases h3 : c = '%'
      · subst h3; simp [T3, T1, X', deriv, nullable, mkSeq, mkAlt, inRanges_QS]
      · simp [T3, T1, X', deriv, nullable, mkSeq, mkAlt, inRanges_QS, h, h2, h3]

/-- the two string rules walk through the same states -/
inductive Sim : Re → Re → Prop
  | start : Sim S0 T0
  | inside : Sim S1 T1
  | inside' : Sim S1 T3
  | esc : Sim S2 T2
  | done : Sim .eps .eps
  | dead : Sim .empty .empty

theorem Sim.deriv {a b : Re} (h : Sim a b) (c : Char) : Sim (a.deriv c) (b.deriv c) := by
  cases h with
  | start => rw [d_S0, d_T0]; split <;> constructor
  | inside =>
      rw [d_S1, d_T1]
      split
      · constructor
      · split
        · constructor
        · split <;> constructor
  | inside' =>
      rw [d_S1, d_T3, d_T1]
      split
      · constructor
      · split
        · constructor
        · split <;> constructor
  | esc => rw [d_S2, d_T2]; constructor
  | done => simp [Re.deriv]; constructor
  | dead => simp [Re.deriv]; constructor

theorem Sim.nullable_eq {a b : Re} (h : Sim a b) : a.nullable = b.nullable := by
  cases h <;> simp [S0, T0, S1, T1, T3, S2, T2, Re.nullable]

theorem Sim.dead_eq {a b : Re} (h : Sim a b) : a.dead = b.dead := by
  cases h <;> simp [S0, T0, S1, T1, T3, S2, T2, Re.dead]

theorem scan_sim : ∀ (cs : List Char) (a b : Re) (pos : Nat) (best : Option Nat), Sim a b →
    scan a cs pos best = scan b cs pos best
  | [], a, b, pos, best, h => by simp [scan_nil, base, h.nullable_eq]
  | c :: cs, a, b, pos, best, h => by
      rw [scan_cons, scan_cons, (h.deriv c).dead_eq, scan_sim cs _ _ _ _ (h.deriv c)]
      simp [base, h.nullable_eq]

/-- the states of the first string rule -/
inductive StrSt : Re → Prop
  | start : StrSt S0
  | inside : StrSt S1
  | esc : StrSt S2
  | done : StrSt .eps
  | dead : StrSt .empty

theorem StrSt.deriv {a : Re} (h : StrSt a) (c : Char) : StrSt (a.deriv c) := by
  cases h with
  | start => rw [d_S0]; split <;> constructor
  | inside =>
      rw [d_S1]
      split
      · constructor
      · split <;> constructor
  | esc => rw [d_S2]; constructor
  | done => simp [Re.deriv]; constructor
  | dead => simp [Re.deriv]; constructor

/-- **a string literal ends at its closing quote**: whatever follows a matched literal, the match is the same -/
theorem scan_str_prefix : ∀ (x : List Char) (D : Re) (pos k : Nat), StrSt D → (scan D x pos none).1 = some k →
    pos ≤ k ∧ ∀ y, (scan D (x.take (k - pos) ++ y) pos none).1 = some k
  | [], D, pos, k, h, hk => by
      rw [scan_nil] at hk
      cases h <;> simp [base, S0, S1, S2, Re.nullable] at hk
      subst hk
      refine ⟨Nat.le_refl _, fun y => ?_⟩
      cases y with
      | nil => simp [scan_nil, base, Re.nullable]
      | cons c y => simp [scan_cons, base, Re.nullable, Re.deriv, Re.dead]
  | c :: x, D, pos, k, h, hk => by
      cases h with
      | done =>
          simp [scan_cons, base, Re.nullable, Re.deriv, Re.dead] at hk
          subst hk
          refine ⟨Nat.le_refl _, fun y => ?_⟩
          cases y with
          | nil => simp [scan_nil, base, Re.nullable]
          | cons c y => simp [scan_cons, base, Re.nullable, Re.deriv, Re.dead]
      | dead => simp [scan_cons, base, Re.nullable, Re.deriv, Re.dead] at hk
      | start =>
          rw [scan_cons] at hk
          have hb : base S0 pos none = none := by simp [base, S0, Re.nullable]
          rw [hb] at hk
          split at hk
          · cases hk
          · rename_i hd
            obtain ⟨h1, h2⟩ := scan_str_prefix x (S0.deriv c) (pos + 1) k (StrSt.start.deriv c) hk
            refine ⟨by omega, fun y => ?_⟩
            have : k - pos = (k - (pos + 1)) + 1 := by omega
            rw [this, List.take_succ_cons, List.cons_append, scan_cons, hb, if_neg hd]
            exact h2 y
      | inside =>
          rw [scan_cons] at hk
          have hb : base S1 pos none = none := by simp [base, S1, Re.nullable]
          rw [hb] at hk
          split at hk
          · cases hk
          · rename_i hd
            obtain ⟨h1, h2⟩ := scan_str_prefix x (S1.deriv c) (pos + 1) k (StrSt.inside.deriv c) hk
            refine ⟨by omega, fun y => ?_⟩
            have : k - pos = (k - (pos + 1)) + 1 := by omega
            rw [this, List.take_succ_cons, List.cons_append, scan_cons, hb, if_neg hd]
            exact h2 y
      | esc =>
          rw [scan_cons] at hk
          have hb : base S2 pos none = none := by simp [base, S2, Re.nullable]
          rw [hb] at hk
          split at hk
          · cases hk
          · rename_i hd
            obtain ⟨h1, h2⟩ := scan_str_prefix x (S2.deriv c) (pos + 1) k (StrSt.esc.deriv c) hk
            refine ⟨by omega, fun y => ?_⟩
            have : k - pos = (k - (pos + 1)) + 1 := by omega
            rw [this, List.take_succ_cons, List.cons_append, scan_cons, hb, if_neg hd]
            exact h2 y

/-! ### C: white space -/

theorem d_W0 (c : Char) : W0.deriv c = if isWs c = true then W1 else .empty := by
  by_cases h : isWs c = true <;> simp [W0, W1, deriv, nullable, mkSeq, inRanges_WSet, h]

theorem d_W1 (c : Char) : W1.deriv c = if isWs c = true then W1 else .empty := by
  by_cases h : isWs c = true <;> simp [W1, deriv, nullable, mkSeq, inRanges_WSet, h]

def run (y : List Char) : Nat := (y.takeWhile isWs).length

theorem scan_W1 : ∀ (y : List Char) (pos : Nat) (b : Option Nat), scan W1 y pos b = (some (pos + run y), pos + run y)
  | [], pos, b => by simp [scan_nil, base, W1, Re.nullable, run]
  | c :: y, pos, b => by
      rw [scan_cons, d_W1]
      by_cases h : isWs c = true
      · have : base W1 pos b = some pos := by simp [base, W1, Re.nullable]
        simp only [h, if_true]
        have hd : W1.dead = false := by simp [W1, Re.dead]
        rw [hd, scan_W1 y (pos + 1)]
        simp only [Bool.false_eq_true, if_false, run, List.takeWhile_cons, h, ↓reduceIte, List.length_cons]
        have : pos + 1 + (List.takeWhile isWs y).length = pos + ((List.takeWhile isWs y).length + 1) := by omega
        rw [this]
      · simp [h, Re.dead, base, W1, Re.nullable, run, List.takeWhile_cons]

theorem scan_W0_ws (w : Char) (y : List Char) (hw : isWs w = true) :
    scan W0 (w :: y) 0 none = (some (1 + run y), 1 + run y) := by
  rw [scan_cons, d_W0]
  have hd : W1.dead = false := by simp [W1, Re.dead]
  simp only [hw, if_true, hd, Bool.false_eq_true, if_false]
  rw [scan_W1]

theorem W0_dead_of_not_ws (c : Char) (h : isWs c = false) : (W0.deriv c).dead = true := by
  rw [d_W0]; simp [h, Re.dead]

/-! ### D: the ` in ` token -/

def inP (y : List Char) : Bool := y.take 4 == [' ', 'i', 'n', ' ']

theorem IN0_dead_of_ne (c : Char) (h : c ≠ ' ') : (IN0.deriv c).dead = true := by
  simp [IN0, deriv, nullable, mkSeq, h, Re.dead]

theorem scan_IN0 (y : List Char) : (scan IN0 y 0 none).1 = if inP y = true then some 4 else none := by
  rcases y with _ | ⟨a, _ | ⟨b, _ | ⟨c, _ | ⟨d, y⟩⟩⟩⟩
  · simp [scan_nil, base, IN0, Re.nullable, inP]
  all_goals
    by_cases ha : a = ' '
    · subst ha
      first
      | (by_cases hb : b = 'i'
         · subst hb
           first
           | (by_cases hc : c = 'n'
              · subst hc
                first
                | (by_cases hd : d = ' '
                   · subst hd
                     cases y <;> simp [scan_cons, scan_nil, base, IN0, deriv, Re.nullable, mkSeq, Re.dead, inP]
                   · simp [scan_cons, scan_nil, base, IN0, deriv, Re.nullable, mkSeq, Re.dead, inP, hd])
                | simp [scan_cons, scan_nil, base, IN0, deriv, Re.nullable, mkSeq, Re.dead, inP]
              · simp [scan_cons, scan_nil, base, IN0, deriv, Re.nullable, mkSeq, Re.dead, inP, hc])
           | simp [scan_cons, scan_nil, base, IN0, deriv, Re.nullable, mkSeq, Re.dead, inP]
         · simp [scan_cons, scan_nil, base, IN0, deriv, Re.nullable, mkSeq, Re.dead, inP, hb])
      | simp [scan_cons, scan_nil, base, IN0, deriv, Re.nullable, mkSeq, Re.dead, inP]
    · simp [scan_cons, scan_nil, base, IN0, deriv, Re.nullable, mkSeq, Re.dead, inP, ha]

/-! ### one lexer step at a white-space character -/

theorem ws_not_quote {w : Char} (hw : isWs w = true) : w ≠ '"' := by
  rcases isWs_cases hw with rfl | rfl | rfl | rfl <;> decide

theorem base_none {r : LexRule} (hr : r ∈ lexRules) : base r.re 0 none = none := by
  simp [base, rules_not_nullable r hr]

/-- what every rule matches where the input goes on with white space that does not start a ` in ` token -/
theorem ws_matches (w : Char) (y : List Char) (hw : isWs w = true) (hin : inP (w :: y) = false) : ∀ r ∈ lexRules,
    (r.re.scan (w :: y) 0 none).1 = none ∨ (r.skip = true ∧ (r.re.scan (w :: y) 0 none).1 = some (1 + run y)) := by
  intro r hr
  rcases rules_classified r hr with ⟨hA, _, _⟩ | ⟨hB, _⟩ | ⟨hB, _⟩ | ⟨hC, hs⟩ | ⟨hD, _⟩
  · left; rw [scan_first_dead _ _ _ (wsFree_deriv_dead hw _ hA)]; exact base_none hr
  · left
    have hd : (r.re.deriv w).dead = true := by rw [hB, d_S0]; simp [ws_not_quote hw, Re.dead]
    rw [scan_first_dead _ _ _ hd]; exact base_none hr
  · left
    have hd : (r.re.deriv w).dead = true := by rw [hB, d_T0]; simp [ws_not_quote hw, Re.dead]
    rw [scan_first_dead _ _ _ hd]; exact base_none hr
  · right; rw [hC, scan_W0_ws w y hw]; exact ⟨hs, rfl⟩
  · left; rw [hD, scan_IN0]; simp [hin]

theorem ws_rule_exists : ∃ r ∈ lexRules, r.re = W0 ∧ r.skip = true := by decide
theorem in_rule_exists : ∃ r ∈ lexRules, r.re = IN0 ∧ r.skip = false := by decide

/-- at such a place the skipped white-space rule wins, with the whole run of white space -/
theorem ws_step (w : Char) (y : List Char) (hw : isWs w = true) (hin : inP (w :: y) = false) :
    ∃ r lv, r.skip = true ∧ bestRule lexRules (w :: y) none 0 = (some (r, 1 + run y), lv) := by
  obtain ⟨r0, hr0, hre, _⟩ := ws_rule_exists
  have hm : (r0.re.scan (w :: y) 0 none).1 = some (1 + run y) := by rw [hre, scan_W0_ws w y hw]
  obtain ⟨r', n, h1, h2⟩ := bestRule_exists lexRules (w :: y) none 0 r0 (1 + run y) hr0 hm (by omega)
  rcases bestRule_winner lexRules (w :: y) none 0 r' n h1 with h3 | ⟨h3, h4⟩
  · cases h3
  · rcases ws_matches w y hw hin r' h3 with h5 | ⟨h5, h6⟩
    · rw [h5] at h4; cases h4
    · rw [h6] at h4; cases h4
      cases hb : bestRule lexRules (w :: y) none 0 with
      | mk a lv => rw [hb] at h1; simp only at h1; subst h1; exact ⟨r', lv, h5, rfl⟩

theorem drop_run : ∀ y : List Char, y.drop (run y) = y.dropWhile isWs
  | [] => by simp [run]
  | c :: y => by
      by_cases h : isWs c = true
      · simp [run, List.takeWhile_cons, List.dropWhile_cons, h]; exact drop_run y
      · simp [run, List.takeWhile_cons, List.dropWhile_cons, h]

theorem lex_ws (w : Char) (y : List Char) (hw : isWs w = true) (hin : inP (w :: y) = false) :
    lex lexRules (w :: y) = lex lexRules (y.dropWhile isWs) := by
  obtain ⟨r, lv, hs, hb⟩ := ws_step w y hw hin
  rw [lex_step lexRules (w :: y) r (1 + run y) lv (by simp) hb]
  have : List.drop (1 + run y) (w :: y) = y.dropWhile isWs := by
    rw [Nat.add_comm, List.drop_succ_cons, drop_run]
  simp [hs, this]

/-- **leading white space is skipped** (unless it starts a ` in ` token, before or after) -/
theorem lex_ws_cons (w : Char) (x : List Char) (hw : isWs w = true) (h1 : inP (w :: x) = false) (h2 : inP x = false) :
    lex lexRules (w :: x) = lex lexRules x := by
  rw [lex_ws w x hw h1]
  cases x with
  | nil => simp
  | cons c x =>
      by_cases hc : isWs c = true
      · rw [lex_ws c x hc h2]; simp [List.dropWhile_cons, hc]
      · simp [List.dropWhile_cons, hc]

/-! ### one lexer step at a token -/

theorem take_length_append (l s : List Char) : (l ++ s).take l.length = l := by simp

theorem drop_length_append (l s : List Char) : (l ++ s).drop l.length = s := by simp

/-- every rule finds the same match on `c :: l ++ s'` as on `c :: l ++ s`, when `c :: l` is the token found at
    the head of `c :: l ++ s` and does not begin with white space -/
theorem tok_matches (c : Char) (l s s' : List Char) (r : LexRule) (lv : Nat) (hc : isWs c = false)
    (hb : bestRule lexRules (c :: l ++ s) none 0 = (some (r, (c :: l).length), lv)) (h : InsWs s s') :
    ∀ r' ∈ lexRules, (r'.re.scan (c :: l ++ s') 0 none).1 = (r'.re.scan (c :: l ++ s) 0 none).1 := by
  have hb1 : (bestRule lexRules (c :: l ++ s) none 0).1 = some (r, (c :: l).length) := by rw [hb]
  have hne : c ≠ ' ' := by intro h; subst h; simp [isWs] at hc
  -- when the token begins with a quote, the first string rule matches exactly the token
  have hstr : c = '"' → (S0.scan (c :: l ++ s) 0 none).1 = some (c :: l).length := by
    intro hq
    rcases bestRule_winner lexRules _ none 0 r _ hb1 with h3 | ⟨h3, h4⟩
    · cases h3
    · rcases rules_classified r h3 with ⟨_, hA, _⟩ | ⟨hB, _⟩ | ⟨hB, _⟩ | ⟨hC, _⟩ | ⟨hD, _⟩
      · subst hq
        rw [show ('"' :: l ++ s) = '"' :: (l ++ s) from rfl, scan_first_dead _ _ _ hA, base_none h3] at h4
        cases h4
      · rw [← hB]; exact h4
      · rw [scan_sim _ S0 T0 0 none Sim.start, ← hB]; exact h4
      · rw [show (c :: l ++ s) = c :: (l ++ s) from rfl, hC, scan_first_dead _ _ _ (W0_dead_of_not_ws c hc)] at h4
        simp [base, W0, Re.nullable] at h4
      · rw [show (c :: l ++ s) = c :: (l ++ s) from rfl, hD, scan_first_dead _ _ _ (IN0_dead_of_ne c hne)] at h4
        simp [base, IN0, Re.nullable] at h4
  have hstr' : c = '"' → ∀ y, (S0.scan (c :: l ++ y) 0 none).1 = some (c :: l).length := by
    intro hq y
    have := (scan_str_prefix (c :: l ++ s) S0 0 (c :: l).length StrSt.start (hstr hq)).2 y
    rw [Nat.sub_zero, show (c :: l ++ s) = (c :: l) ++ s from rfl, take_length_append] at this
    exact this
  intro r' hr'
  rcases rules_classified r' hr' with ⟨hA, _, _⟩ | ⟨hB, _⟩ | ⟨hB, _⟩ | ⟨hC, _⟩ | ⟨hD, _⟩
  · apply scan_wsFree_same r'.re hA (c :: l) h
    intro k hk
    exact bestRule_max lexRules _ none 0 r _ hb1 r' hr' k hk
  · rw [hB]
    by_cases hq : c = '"'
    · rw [hstr' hq s', hstr' hq s]
    · have hd : (S0.deriv c).dead = true := by rw [d_S0]; simp [hq, Re.dead]
      rw [show (c :: l ++ s') = c :: (l ++ s') from rfl, show (c :: l ++ s) = c :: (l ++ s) from rfl,
          scan_first_dead _ _ _ hd, scan_first_dead _ _ _ hd]
  · rw [hB, ← scan_sim _ S0 T0 0 none Sim.start, ← scan_sim _ S0 T0 0 none Sim.start]
    by_cases hq : c = '"'
    · rw [hstr' hq s', hstr' hq s]
    · have hd : (S0.deriv c).dead = true := by rw [d_S0]; simp [hq, Re.dead]
      rw [show (c :: l ++ s') = c :: (l ++ s') from rfl, show (c :: l ++ s) = c :: (l ++ s) from rfl,
          scan_first_dead _ _ _ hd, scan_first_dead _ _ _ hd]
  · rw [hC, show (c :: l ++ s') = c :: (l ++ s') from rfl, show (c :: l ++ s) = c :: (l ++ s) from rfl,
        scan_first_dead _ _ _ (W0_dead_of_not_ws c hc), scan_first_dead _ _ _ (W0_dead_of_not_ws c hc)]
  · rw [hD, show (c :: l ++ s') = c :: (l ++ s') from rfl, show (c :: l ++ s) = c :: (l ++ s) from rfl,
        scan_first_dead _ _ _ (IN0_dead_of_ne c hne), scan_first_dead _ _ _ (IN0_dead_of_ne c hne)]

/-- the same rule wins with the same length -/
theorem tok_step (c : Char) (l s s' : List Char) (r : LexRule) (lv : Nat) (hc : isWs c = false)
    (hb : bestRule lexRules (c :: l ++ s) none 0 = (some (r, (c :: l).length), lv)) (h : InsWs s s') :
    ∃ lv', bestRule lexRules (c :: l ++ s') none 0 = (some (r, (c :: l).length), lv') := by
  have := bestRule_fst_congr lexRules (c :: l ++ s') (c :: l ++ s) none 0 0 (tok_matches c l s s' r lv hc hb h)
  rw [hb] at this
  cases hb' : bestRule lexRules (c :: l ++ s') none 0 with
  | mk a lv' => rw [hb'] at this; simp only at this; subst this; exact ⟨lv', rfl⟩

/-! ### one lexer step at a ` in ` token -/

def inTok : List Char := [' ', 'i', 'n', ' ']

/-- every rule's match on ` in ` followed by anything: independent of what follows, never longer than the token -/
theorem in_matches (x x' : List Char) : ∀ r ∈ lexRules,
    (r.re.scan (inTok ++ x) 0 none).1 = (r.re.scan (inTok ++ x') 0 none).1 ∧
    ∀ k, (r.re.scan (inTok ++ x) 0 none).1 = some k → k ≤ 4 := by
  intro r hr
  have hsp : isWs ' ' = true := by decide
  rcases rules_classified r hr with ⟨hA, _, _⟩ | ⟨hB, _⟩ | ⟨hB, _⟩ | ⟨hC, _⟩ | ⟨hD, _⟩
  · simp only [inTok, List.cons_append, List.nil_append]
    rw [scan_first_dead _ _ _ (wsFree_deriv_dead hsp _ hA), scan_first_dead _ _ _ (wsFree_deriv_dead hsp _ hA), base_none hr]
    simp
  · have hd : (r.re.deriv ' ').dead = true := by rw [hB, d_S0]; simp [Re.dead]
    simp only [inTok, List.cons_append, List.nil_append]
    rw [scan_first_dead _ _ _ hd, scan_first_dead _ _ _ hd, base_none hr]
    simp
  · have hd : (r.re.deriv ' ').dead = true := by rw [hB, d_T0]; simp [Re.dead]
    simp only [inTok, List.cons_append, List.nil_append]
    rw [scan_first_dead _ _ _ hd, scan_first_dead _ _ _ hd, base_none hr]
    simp
  · simp only [inTok, List.cons_append, List.nil_append]
    rw [hC, scan_W0_ws _ _ hsp, scan_W0_ws _ _ hsp]
    have hi : isWs 'i' = false := by decide
    simp [run, List.takeWhile_cons, hi]
  · rw [hD, scan_IN0, scan_IN0]
    simp [inTok, inP]

/-- the ` in ` rule wins there, with its four characters -/
theorem in_step (x x' : List Char) : ∃ r lv lv', bestRule lexRules (inTok ++ x) none 0 = (some (r, 4), lv) ∧
    bestRule lexRules (inTok ++ x') none 0 = (some (r, 4), lv') := by
  obtain ⟨r0, hr0, hre, _⟩ := in_rule_exists
  have hm : (r0.re.scan (inTok ++ x) 0 none).1 = some 4 := by rw [hre, scan_IN0]; simp [inTok, inP]
  obtain ⟨r', n, h1, h2⟩ := bestRule_exists lexRules (inTok ++ x) none 0 r0 4 hr0 hm (by omega)
  have hn : n = 4 := by
    rcases bestRule_winner lexRules _ none 0 r' n h1 with h3 | ⟨h3, h4⟩
    · cases h3
    · have := (in_matches x x' r' h3).2 n h4
      omega
  subst hn
  have hc := bestRule_fst_congr lexRules (inTok ++ x') (inTok ++ x) none 0 0 (fun r hr => ((in_matches x x' r hr).1).symm)
  rw [h1] at hc
  cases hb : bestRule lexRules (inTok ++ x) none 0 with
  | mk a lv =>
    cases hb' : bestRule lexRules (inTok ++ x') none 0 with
    | mk a' lv' =>
      rw [hb] at h1; rw [hb'] at hc
      simp only at h1 hc
      subst h1; subst hc
      exact ⟨r', lv, lv', rfl, rfl⟩

/-! ### re-layouts -/

def allWs (ws : List Char) : Bool := ws.all isWs

/-- the input does not go on with white space -/
def tight : List Char → Bool
  | [] => true
  | c :: _ => !isWs c

theorem dropWhile_allWs : ∀ (ws s : List Char), allWs ws = true → tight s = true → (ws ++ s).dropWhile isWs = s
  | [], s, _, hs => by
      cases s with
      | nil => rfl
      | cons c s => simp [tight] at hs; simp [List.dropWhile_cons, hs]
  | w :: ws, s, h, hs => by
      simp only [allWs, List.all_cons, Bool.and_eq_true] at h
      simp only [List.cons_append, List.dropWhile_cons, h.1, if_true]
      exact dropWhile_allWs ws s h.2 hs

/-- **a run of white space is skipped** (unless it starts with a ` in ` token) -/
theorem lex_ws_run (ws s : List Char) (h : allWs ws = true) (hs : tight s = true) (hin : ws ≠ [] → inP (ws ++ s) = false) :
    lex lexRules (ws ++ s) = lex lexRules s := by
  cases ws with
  | nil => rfl
  | cons w ws =>
      simp only [allWs, List.all_cons, Bool.and_eq_true] at h
      have hin' : inP (w :: (ws ++ s)) = false := hin (by simp)
      rw [List.cons_append, lex_ws w (ws ++ s) h.1 hin', dropWhile_allWs ws s h.2 hs]

/-- `Relayout s s'`: `s'` is `s` with the white space between its tokens changed — more of it, less of it (but
    not none where there was some), other white-space characters — and white space put between tokens that had
    none. The walk follows the tokens of `s`. A run of white space may not begin with a ` in ` token, which
    carries its own blanks (`inP`): there a blank more or less is another token sequence. -/
inductive Relayout : List Char → List Char → Prop
  | nil : Relayout [] []
  | gap (ws ws' : List Char) {s s' : List Char} : allWs ws = true → allWs ws' = true → ws' ≠ [] →
      tight s = true → tight s' = true → (ws ≠ [] → inP (ws ++ s) = false) → inP (ws' ++ s') = false →
      Relayout s s' → Relayout (ws ++ s) (ws' ++ s')
  | tok (c : Char) (l : List Char) (r : LexRule) (lv : Nat) {s s' : List Char} : isWs c = false →
      bestRule lexRules (c :: l ++ s) none 0 = (some (r, (c :: l).length), lv) →
      Relayout s s' → Relayout (c :: l ++ s) (c :: l ++ s')
  | tokIn {s s' : List Char} : Relayout s s' → Relayout (inTok ++ s) (inTok ++ s')

theorem insWs_append (p : List Char) {s s' : List Char} (h : InsWs s s') : InsWs (p ++ s) (p ++ s') := by
  induction p with
  | nil => exact h
  | cons a p ih => exact .same a ih

theorem Relayout.insWs {s s' : List Char} (h : Relayout s s') : InsWs s s' := by
  induction h with
  | nil => exact .nil
  | gap ws ws' _ hw' hne _ _ _ _ _ _ =>
      obtain ⟨w, ws2, rfl⟩ := List.exists_cons_of_ne_nil hne
      simp only [allWs, List.all_cons, Bool.and_eq_true] at hw'
      exact .ws w _ _ hw'.1
  | tok c l r lv _ _ _ ih => exact insWs_append (c :: l) ih
  | tokIn _ ih => exact insWs_append inTok ih

/-- **layout**: a re-layout has the same tokens (and the same number of lexer errors) -/
theorem lex_relayout {s s' : List Char} (h : Relayout s s') : lex lexRules s = lex lexRules s' := by
  induction h with
  | nil => rfl
  | gap ws ws' hw hw' hne hs hs' hin hin' _ ih =>
      rw [lex_ws_run ws _ hw hs hin, lex_ws_run ws' _ hw' hs' (fun _ => hin')]; exact ih
  | tok c l r lv hc hb hrel ih =>
      obtain ⟨lv', hb'⟩ := tok_step c l _ _ r lv hc hb hrel.insWs
      rw [lex_step lexRules _ r _ lv (by simp) hb, lex_step lexRules _ r _ lv' (by simp) hb']
      rw [show (c :: l ++ _ : List Char) = (c :: l) ++ _ from rfl, show (c :: l ++ _ : List Char) = (c :: l) ++ _ from rfl,
          drop_length_append, drop_length_append, ih]
      simp [tokOf]
  | tokIn _ ih =>
      rename_i s s' _
      obtain ⟨r, lv, lv', hb, hb'⟩ := in_step s s'
      rw [lex_step lexRules _ r 4 lv (by simp [inTok]) hb, lex_step lexRules _ r 4 lv' (by simp [inTok]) hb']
      have h4 : ∀ y : List Char, List.drop 4 (inTok ++ y) = y := fun y => by simp [inTok]
      have t4 : ∀ y : List Char, List.take 4 (inTok ++ y) = inTok := fun y => by simp [inTok]
      rw [h4, h4, ih]
      simp [tokOf, t4]

/-- a token step whose rule and liveness count are computed rather than given -/
theorem Relayout.tok' (c : Char) (l : List Char) {s s' : List Char} (hc : isWs c = false)
    (hb : (bestRule lexRules (c :: l ++ s) none 0).1.map Prod.snd = some (c :: l).length)
    (h : Relayout s s') : Relayout (c :: l ++ s) (c :: l ++ s') := by
  cases hb' : bestRule lexRules (c :: l ++ s) none 0 with
  | mk a lv =>
    rw [hb'] at hb
    cases a with
    | none => simp at hb
    | some rn =>
        obtain ⟨r, n⟩ := rn
        simp only [Option.map_some, Option.some.injEq] at hb
        subst hb
        exact .tok c l r lv hc hb' h

/-! ### deciding the relation -/

/-- a decision procedure for `Relayout s s'` that walks along the tokens of `s` (`fuel` bounds the number of
    steps; sound by `relayoutB_sound`). The correspondence check runs it on every re-layout it tests. -/
def relayoutB : Nat → List Char → List Char → Bool
  | 0, _, _ => false
  | f + 1, s, s' =>
      if s.isEmpty && s'.isEmpty then true
      else if inP s && inP s' then relayoutB f (s.drop 4) (s'.drop 4)
      else if !(s'.takeWhile isWs).isEmpty then
        ((s.takeWhile isWs).isEmpty || !inP s) && !inP s' && relayoutB f (s.dropWhile isWs) (s'.dropWhile isWs)
      else if !(s.takeWhile isWs).isEmpty then false
      else
        match bestRule lexRules s none 0 with
        | (some (_, n), _) =>
            (s.take n).length == n && s.take n == s'.take n && relayoutB f (s.drop n) (s'.drop n)
        | _ => false

theorem allWs_takeWhile : ∀ s : List Char, allWs (s.takeWhile isWs) = true
  | [] => rfl
  | c :: s => by
      by_cases h : isWs c = true
      · simp only [List.takeWhile_cons, h, if_true, allWs, List.all_cons, Bool.true_and]
        exact allWs_takeWhile s
      · simp [List.takeWhile_cons, h, allWs]

theorem tight_dropWhile : ∀ s : List Char, tight (s.dropWhile isWs) = true
  | [] => rfl
  | c :: s => by
      by_cases h : isWs c = true
      · simp only [List.dropWhile_cons, h, if_true]; exact tight_dropWhile s
      · simp [List.dropWhile_cons, h, tight]

theorem takeWhile_nil_head {c : Char} {s : List Char} (h : ((c :: s).takeWhile isWs).isEmpty = true) : isWs c = false := by
  by_cases hc : isWs c = true
  · simp [List.takeWhile_cons, hc] at h
  · simpa using hc

theorem relayoutB_sound : ∀ (f : Nat) (s s' : List Char), relayoutB f s s' = true → Relayout s s'
  | 0, _, _, h => by simp [relayoutB] at h
  | f + 1, s, s', h => by
      unfold relayoutB at h
      split at h
      · rename_i he
        simp only [Bool.and_eq_true, List.isEmpty_iff] at he
        obtain ⟨rfl, rfl⟩ := he
        exact .nil
      · split at h
        · rename_i hin
          simp only [Bool.and_eq_true] at hin
          have h1 : s = inTok ++ s.drop 4 := by
            have := hin.1; simp only [inP, beq_iff_eq] at this
            show s = [' ', 'i', 'n', ' '] ++ s.drop 4
            rw [← this, List.take_append_drop]
          have h2 : s' = inTok ++ s'.drop 4 := by
            have := hin.2; simp only [inP, beq_iff_eq] at this
            show s' = [' ', 'i', 'n', ' '] ++ s'.drop 4
            rw [← this, List.take_append_drop]
          rw [h1, h2]
          exact .tokIn (relayoutB_sound f _ _ h)
        · split at h
          · rename_i hws'
            simp only [Bool.and_eq_true, Bool.or_eq_true, Bool.not_eq_eq_eq_not, Bool.not_true] at h
            obtain ⟨⟨h1, h2⟩, h3⟩ := h
            have hs : s = s.takeWhile isWs ++ s.dropWhile isWs := (List.takeWhile_append_dropWhile).symm
            have hs' : s' = s'.takeWhile isWs ++ s'.dropWhile isWs := (List.takeWhile_append_dropWhile).symm
            rw [hs, hs']
            refine .gap _ _ (allWs_takeWhile s) (allWs_takeWhile s') ?_ (tight_dropWhile s) (tight_dropWhile s') ?_ ?_
              (relayoutB_sound f _ _ h3)
            · intro hnil; rw [hnil] at hws'; simp at hws'
            · intro hne
              rw [← hs]
              rcases h1 with h1 | h1
              · rw [List.isEmpty_iff] at h1; exact absurd h1 hne
              · exact h1
            · rw [← hs']; exact h2
          · split at h
            · cases h
            · rename_i hws' hws
              split at h
              · rename_i r n lv hb
                simp only [Bool.and_eq_true, beq_iff_eq] at h
                obtain ⟨⟨hlen, htake⟩, hrest⟩ := h
                have hpos : 0 < n := by
                  have := bestRule_pos lexRules s none 0 (by intro _ _ h; cases h)
                  rw [hb] at this
                  exact this r n rfl
                cases s with
                | nil => simp at hlen; omega
                | cons c t =>
                    have hc : isWs c = false := takeWhile_nil_head (by simpa using hws)
                    obtain ⟨m, rfl⟩ : ∃ m, n = m + 1 := ⟨n - 1, by omega⟩
                    have htk : (c :: t).take (m + 1) = c :: t.take m := by simp
                    have e1 : c :: t = c :: t.take m ++ (c :: t).drop (m + 1) := by
                      rw [← htk]; exact (List.take_append_drop (m + 1) _).symm
                    have e2 : s' = c :: t.take m ++ s'.drop (m + 1) := by
                      rw [← htk, htake]; exact (List.take_append_drop (m + 1) _).symm
                    have hlen' : (c :: t.take m).length = m + 1 := by rw [← htk]; exact hlen
                    have hb' : bestRule lexRules (c :: List.take m t ++ List.drop (m + 1) (c :: t)) none 0
                        = (some (r, (c :: List.take m t).length), lv) := by
                      rw [← e1, hlen']; exact hb
                    have key := Relayout.tok c (t.take m) r lv hc hb' (relayoutB_sound f _ _ hrest)
                    rw [← e1, ← e2] at key
                    exact key
              · cases h

end Cpf.Lemmas.LexLayoutQ
