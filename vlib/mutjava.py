"""Token-level and byte-level mutations of Java sources (for C03/C04/C08/C09)."""
import random, re

TOK = re.compile(rb'\s+|//[^\n]*|/\*.*?\*/|"(?:[^"\\\n]|\\.)*"|\'(?:[^\'\\\n]|\\.)*\'|[A-Za-z_$][A-Za-z_$0-9]*|\d+|>>>=|<<=|>>=|>>>|\+\+|--|&&|\|\||==|!=|<=|>=|<<|>>|->|::|.', re.S)


def tokens(src: bytes):
    return TOK.findall(src)


def mutate(rng, src: bytes, n=None) -> bytes:
    toks = tokens(src)
    if not toks:
        return src
    n = n or rng.choice([1, 1, 2, 3, 5])
    for _ in range(n):
        if not toks:
            break
        k = rng.random()
        i = rng.randrange(len(toks))
        if k < 0.3:
            del toks[i]
        elif k < 0.5:
            toks.insert(i, toks[rng.randrange(len(toks))])
        elif k < 0.65:
            j = rng.randrange(len(toks))
            toks[i], toks[j] = toks[j], toks[i]
        elif k < 0.85:
            toks[i] = rng.choice([b"(", b")", b"{", b"}", b";", b",", b".", b"=", b"+", b"new", b"class", b"if", b"else", b"for", b"while", b"do",
                                  b"return", b"assert", b"yield", b"break", b"continue", b"throws", b"implements", b"extends", b"@", b"/*", b"*/", b"\"", b"'",
                                  b"<", b">", b"?", b":", b"int", b"void", b"switch", b"case", b"default", b"->", b"\xff", b"\x00", b"\xc3", b"\r\n"])
        else:
            # truncate
            toks = toks[:i]
    return b"".join(toks)


def random_bytes(rng, n):
    alphabet = b"abcxyz (){};,.=+-*/<>!&|\"'\n\t@" + bytes([0, 0xff, 0xc3, 0xa9])
    return bytes(rng.choice(alphabet) for _ in range(n))
