/-
  C09 — any file content can be scanned without crashing, hanging or stalling.

  * `C09_total_partial`: for **every** abstract tree (not only the ones a parser can produce) whose nodes
    satisfy `shapeOk` — the children the visitor dereferences without a nil check are present — the model
    of buildGraphFromAST never ends in `panic`. `shapeOk` is what tree-sitter-java's grammar gives for every
    tree observed so far; it is re-validated on every tree of every run (checks/c09.py: generated, android,
    token-mutated and random-byte inputs) and the real code is run on all of them under `recover` with a
    time limit. The unconditional statement `C09_total_full` is false for the model (witness below): if a
    real input with such a tree is ever found, that input is the replay of a violation.
  * `C09_cost`: the number of iterations of the declaration × invocation pass is at most
    (K · size t)², K = number of `&Node{}` literals — quadratic in the size of the file; regenerated facts
    pin where that pass runs (once, from the non-recursive entry point, never inside the recursive visitor).
    The hook counter of the real run is compared with `passOps` of the model on the same tree (exact).
  * what every yielded entity's location denotes: Cpf.Props.C04.
  Not carried by the model: wall-clock time, Go stack depth on pathologically deep nesting, tree-sitter's
  own termination, memory.
-/
import Cpf.Props.C03

namespace Cpf.Props.C09
open Cpf.Scan Cpf.Go Cpf.Facts Cpf.Generated Cpf.Props.C03

def NotPanic {α : Type} (o : Outcome α) : Prop := o.isPanic = false

theorem seqOutcome_notPanic {α : Type} (l : List (Outcome α)) (h : ∀ o ∈ l, NotPanic o) : NotPanic (seqOutcome l) := by
  induction l with
  | nil => rfl
  | cons x xs ih =>
      have hx := h x (by simp)
      have hxs := ih (fun o ho => h o (by simp [ho]))
      unfold seqOutcome
      cases x with
      | ok a =>
          simp only
          cases hs : seqOutcome xs with
          | ok as => rfl
          | diag m => rfl
          | panic m => rw [hs] at hxs; exact hxs
      | diag m => rfl
      | panic m => exact hx

theorem mapOk_notPanic {α β : Type} (o : Outcome α) (f : α → β) (h : NotPanic o) : NotPanic (o.mapOk f) := by
  unfold NotPanic at *
  rw [Outcome.mapOk_isPanic]; exact h

theorem methodNameOf_notPanic (n : T) (src : Bytes) (h : shapeOk n = true) : NotPanic (methodNameOf n src) := by
  unfold methodNameOf
  by_cases h1 : n.ty = "method_declaration"
  · simp only [h1, ↓reduceIte]; rfl
  · by_cases h2 : n.ty = "method_invocation"
    · rw [if_neg h1, if_pos h2]
      cases ha : n.childByField "argument_list" with
      | none => rfl
      | some args =>
          simp only [shapeOk, h2, ha] at h
          have hall : (args.children.all fun a => (a.child 0).isSome) = true := by simpa using h
          simp only [hall]
          rfl
    · simp only [h1, h2, ↓reduceIte]; rfl

theorem opaqueVal_notPanic (name : String) (n : T) (src : Bytes) (h : shapeOk n = true)
    (hcls : name = "node.ChildByFieldName(\"name\").Content(sourceCode)" → n.ty = "class_declaration") :
    NotPanic (opaqueVal name n src) := by
  unfold opaqueVal
  by_cases h1 : name = "methodName"
  · simp only [h1, ↓reduceIte]; exact mapOk_notPanic _ _ (methodNameOf_notPanic n src h)
  · by_cases h2 : name = "variableName"
    · simp only [h1, h2, ↓reduceIte]; rfl
    · by_cases h3 : name = "className"
      · simp only [h1, h2, h3, ↓reduceIte]; rfl
      · by_cases h4 : name = "node.ChildByFieldName(\"name\").Content(sourceCode)"
        · have hty := hcls h4
          have hb : ¬ n.ty = "binary_expression" := by rw [hty]; decide
          have hy : ¬ (n.ty = "yield_statement" ∨ n.ty = "assert_statement") := by rw [hty]; decide
          simp only [shapeOk, hb, hy, hty, ↓reduceIte] at h
          obtain ⟨c, hc⟩ := Option.isSome_iff_exists.1 h
          simp only [h1, h2, h3, h4, ↓reduceIte, hc]; rfl
        · simp only [h1, h2, h3, h4, ↓reduceIte]; rfl

theorem opaqueListVal_notPanic (name : String) (n : T) (src : Bytes) (h : shapeOk n = true) :
    NotPanic (opaqueListVal name n src) := by
  unfold opaqueListVal
  by_cases h1 : name = "parameters"
  · simp only [h1, ↓reduceIte]; exact mapOk_notPanic _ _ (methodNameOf_notPanic n src h)
  · simp only [h1, ↓reduceIte]; rfl

/-- Regenerated fact: the class-name component occurs only in the identity of class declarations. -/
def usesClassName (a : IdAtom) : Bool :=
  match a with
  | .opaque s => s == "node.ChildByFieldName(\"name\").Content(sourceCode)"
  | _ => false

theorem className_only_for_classes : ∀ l ∈ nodeLits, l.idFmt.any usesClassName = true → l.tsTypes = ["class_declaration"] := by
  decide

def flatItem (x : IdAtom) : Bool :=
  match x with
  | .opaque _ => false
  | .opaqueList _ => false
  | .strList _ => false
  | _ => true

def flatAtom (a : IdAtom) : Bool :=
  match a with
  | .strList items => items.all (fun it => it.all flatItem)
  | _ => true

theorem nested_lists_are_flat : ∀ l ∈ nodeLits, ∀ a ∈ l.idFmt, flatAtom a = true := by
  decide

theorem atomFlat_flatItem_notPanic (n : T) (src file : Bytes) (x : IdAtom) (hx : flatItem x = true) :
    NotPanic (atomFlat n src file x) := by
  cases x with
  | lit s => rfl
  | row => rfl
  | col => rfl
  | file => rfl
  | content => rfl
  | «opaque» name => simp [flatItem] at hx
  | opaqueList name => simp [flatItem] at hx
  | strList items => simp [flatItem] at hx

theorem atomBytes_notPanic (n : T) (src file : Bytes) (a : IdAtom) (h : shapeOk n = true)
    (hcls : usesClassName a = true → n.ty = "class_declaration")
    (hflat : flatAtom a = true) : NotPanic (atomBytes n src file a) := by
  cases a with
  | opaqueList name =>
      simp only [atomBytes]
      exact mapOk_notPanic _ _ (opaqueListVal_notPanic name n src h)
  | strList items =>
      simp only [atomBytes]
      apply mapOk_notPanic
      apply seqOutcome_notPanic
      intro o ho
      simp only [List.mem_map] at ho
      obtain ⟨it, hit, rfl⟩ := ho
      apply mapOk_notPanic
      apply seqOutcome_notPanic
      intro o ho
      simp only [List.mem_map] at ho
      obtain ⟨x, hx, rfl⟩ := ho
      simp only [flatAtom, List.all_eq_true] at hflat
      exact atomFlat_flatItem_notPanic n src file x (hflat it hit x hx)
  | lit s => rfl
  | row => rfl
  | col => rfl
  | file => rfl
  | content => rfl
  | «opaque» name =>
      simp only [atomBytes, atomFlat]
      exact opaqueVal_notPanic name n src h (fun e => hcls (by simp [usesClassName, e]))

theorem preimage_notPanic (l : NodeLit) (hl : l ∈ nodeLits) (n : T) (src file : Bytes) (h : shapeOk n = true)
    (hty : l.tsTypes.contains n.ty = true) : NotPanic (preimage l n src file) := by
  unfold preimage
  apply mapOk_notPanic
  apply seqOutcome_notPanic
  intro o ho
  simp only [List.mem_map] at ho
  obtain ⟨a, ha, rfl⟩ := ho
  apply atomBytes_notPanic n src file a h
  · intro hu
    have := className_only_for_classes l hl (List.any_eq_true.2 ⟨a, ha, hu⟩)
    rw [this] at hty
    simpa using hty
  · exact nested_lists_are_flat l hl a ha

theorem emitAt_notPanic (n : T) (src file : Bytes) (h : shapeOk n = true) : NotPanic (emitAt n src file) := by
  unfold emitAt
  simp only [h, Bool.not_true, Bool.false_eq_true, ↓reduceIte]
  apply seqOutcome_notPanic
  intro o ho
  simp only [List.mem_map] at ho
  obtain ⟨l, hl, rfl⟩ := ho
  apply mapOk_notPanic
  have h1 := (List.mem_filter.1 hl).1
  have h2 := List.mem_filter.1 h1
  have hty : l.tsTypes.contains n.ty = true := by
    have := h2.2
    simp only [Bool.and_eq_true] at this
    exact this.1
  exact preimage_notPanic l h2.1 n src file h hty

mutual
def allShapeOk : T → Bool
  | .mk t f b e r c nm cs => shapeOk (.mk t f b e r c nm cs) && allShapeOkList cs
def allShapeOkList : List T → Bool
  | [] => true
  | c :: cs => allShapeOk c && allShapeOkList cs
end

mutual
theorem traverse_notPanic (src file : Bytes) : ∀ (t : T) (ctx : Option Ent) (st : St),
    allShapeOk t = true → NotPanic (traverse src file t ctx st)
  | .mk ty f b e r c nm cs, ctx, st, h => by
      simp only [allShapeOk, Bool.and_eq_true] at h
      have he := emitAt_notPanic (.mk ty f b e r c nm cs) src file h.1
      simp only [traverse]
      cases hem : emitAt (.mk ty f b e r c nm cs) src file with
      | ok es => exact traverseList_notPanic src file cs _ _ h.2
      | diag m => rfl
      | panic m => rw [hem] at he; exact he
theorem traverseList_notPanic (src file : Bytes) : ∀ (ts : List T) (ctx : Option Ent) (st : St),
    allShapeOkList ts = true → NotPanic (traverseList src file ts ctx st)
  | [], _, _, _ => rfl
  | t :: ts, ctx, st, h => by
      simp only [allShapeOkList, Bool.and_eq_true] at h
      have h1 := traverse_notPanic src file t ctx st h.1
      simp only [traverseList]
      cases ht : traverse src file t ctx st with
      | ok st1 => exact traverseList_notPanic src file ts ctx st1 h.2
      | diag m => rfl
      | panic m => rw [ht] at h1; exact h1
end

/-- **C09 (no crash)**: for every tree all of whose nodes have the children the visitor dereferences, and
    every byte string as source, building the graph does not end abnormally. -/
theorem C09_total_partial (t : T) (src file : Bytes) (h : allShapeOk t = true) : NotPanic (buildGraph t src file) :=
  traverse_notPanic src file t none {} h

/-- The unconditional statement … -/
def C09_total_full : Prop := ∀ (t : T) (src file : Bytes), NotPanic (buildGraph t src file)

/-- … is false for the model: a `binary_expression` without an `operator` field would be a nil dereference. -/
theorem C09_total_full_fails : ¬ C09_total_full := by
  intro h
  have := h (T.mk "binary_expression" "" 0 1 0 0 true []) [] []
  unfold NotPanic at this
  revert this
  decide

/-! ### cost -/

theorem litsFor_le (n : T) : (litsFor n).length ≤ nodeLits.length := List.length_filter_le _ _

theorem emitAt_length (n : T) (src file : Bytes) (es : List Ent) (h : emitAt n src file = .ok es) :
    es.length ≤ nodeLits.length := by
  unfold emitAt at h
  split at h
  · simp at h
  · have key : ∀ {α β : Type} (f : α → Outcome β) (ls : List α) (out : List β),
        seqOutcome (ls.map f) = .ok out → out.length = ls.length := by
      intro α β f ls
      induction ls with
      | nil => intro out ho; simp [seqOutcome] at ho; subst ho; rfl
      | cons l ls ih =>
          intro out ho
          simp only [List.map_cons, seqOutcome] at ho
          split at ho
          · split at ho
            · rename_i as has
              simp at ho; subst ho
              simp [ih as has]
            · simp at ho
            · simp at ho
          · simp at ho
          · simp at ho
    rw [key _ _ es h]
    exact Nat.le_trans (List.length_filter_le _ _) (litsFor_le n)

theorem emits_length {src file : Bytes} {ns : List T} {es : List Ent} (h : Emits src file ns es) :
    es.length ≤ nodeLits.length * ns.length := by
  induction h with
  | nil => simp
  | cons he _ ih =>
      simp only [List.length_append, List.length_cons]
      have := emitAt_length _ _ _ _ he
      rw [Nat.mul_succ]
      omega

mutual
theorem preorder_length : ∀ t : T, (T.preorder t).length = T.size t
  | .mk _ _ _ _ _ _ _ cs => by
      simp only [T.preorder, T.size, List.length_cons, preorderList_length cs]; omega
theorem preorderList_length : ∀ ts : List T, (T.preorderList ts).length = T.sizeList ts
  | [] => rfl
  | t :: ts => by simp only [T.preorderList, T.sizeList, List.length_append, preorder_length t, preorderList_length ts]
end

theorem dedup_length_le (es : List Ent) : (dedup es).length ≤ es.length := by
  induction es with
  | nil => simp [dedup]
  | cons e rest ih =>
      simp only [dedup]
      split
      · simp; omega
      · simp; omega

/-- **C09 (cost)**: the work of the declaration × invocation pass is at most quadratic in the size of the tree. -/
theorem C09_cost (t : T) (src file : Bytes) (st : St) (h : buildGraph t src file = .ok st) :
    passOps st ≤ (nodeLits.length * T.size t) ^ 2 := by
  have he := emits_length (C03_visit t src file st h)
  rw [preorder_length] at he
  have hd := dedup_length_le st.ents
  unfold passOps
  have h1 : ((dedup st.ents).filter (fun e => e.kind = "method_declaration")).length ≤ (dedup st.ents).length :=
    List.length_filter_le _ _
  have h2 : (dedup st.ents).length ≤ nodeLits.length * T.size t := Nat.le_trans hd he
  calc _ ≤ (dedup st.ents).length * (dedup st.ents).length := Nat.mul_le_mul_right _ h1
    _ ≤ (nodeLits.length * T.size t) * (nodeLits.length * T.size t) := Nat.mul_le_mul h2 h2
    _ = (nodeLits.length * T.size t) ^ 2 := by rw [Nat.pow_two]

/-- Regenerated facts: the whole-graph pass is not inside the recursive visitor; the entry point is not
    recursive and runs the pass once; the pass itself is a doubly nested loop over the graph. -/
theorem C09_pass_placement :
    visitorGraphLoops = 0 ∧ visitorReachableGraphLoops = 0 ∧ visitorReachableLoopFuncs = [] ∧ passCallers = ["buildGraphFromAST"] ∧
    entryPointCallsItself = 0 ∧ entryPointPassCalls = 1 ∧ passNestedGraphLoops = 2 := by
  decide

/-- Non-vacuity: a small well-shaped tree is scanned to a state. -/
example : (buildGraph (T.mk "program" "" 0 4 0 0 true [T.mk "block" "" 0 2 0 0 true []]) [123, 125, 10, 10] [65]).isPanic = false := by
  decide

end Cpf.Props.C09
