/-
  C14 — a query's meaning depends only on its token sequence.

  Model: Cpf.Query.Cli.prepare = lexer ∘ (recogniser, listener, predicate expansion, condition structure).
  After the `fix:` that takes the condition from the parse tree (conditionText) and expands predicates on
  identifiers, nothing downstream of the lexer looks at the characters again; the theorems below are that
  factorisation. The lexer itself (white space is skipped between tokens) is tied to ANTLR's by the
  correspondence `lex` (checks/c14.py: random layouts at every token boundary, real lexer vs model).
  `C14_lex_layout` (Cpf.Lemmas.LexLayout, Cpf.Lemmas.LexLayoutQ) is the lexer half: for the lexer rules of the
  regenerated table, changing the white space between the tokens of an input — more, less (not none where there
  was some), other white-space characters, white space where there was none — leaves the token sequence as it
  is, for every input and every such change. The `' in '` token contains its own blanks: a run of white space
  that begins with ` in ` is excluded (`inP`), because there a blank more or less is a different token sequence
  (`'in'`), which the grammar rejects — recorded finding C14:in-whitespace.
-/
import Cpf.Query.Cli
import Cpf.Lemmas.LexLayoutQ
import Cpf.Props.C18

namespace Cpf.Props.C14
open Cpf.Query Cpf.Go Cpf.Generated

/-- Two inputs with the same tokens are parsed to the same structure (or both rejected). -/
theorem C14_parse (cs₁ cs₂ : List Char) (h : lex lexRules cs₁ = lex lexRules cs₂) :
    parseQuery lexRules grammar startRule cs₁ = parseQuery lexRules grammar startRule cs₂ := by
  unfold parseQuery; rw [h]

/-- … and the evaluator is handed the same condition (same expansion, same structure, same atoms). -/
theorem C14_prepare (cs₁ cs₂ : List Char) (h : lex lexRules cs₁ = lex lexRules cs₂) :
    prepare cs₁ = prepare cs₂ := by
  unfold prepare; rw [h]

/-- The answer of the engine for an input, as a function of the prepared query. -/
def answer (ρ : Nat → Tuple → Res) (g : List Node) (compiles : Bool) (cs : List Char) : Outcome (List Tuple) :=
  match prepare cs with
  | .ok p => .ok (queryEntities ρ g { kinds := p.pq.selectList.map (·.entity), cond := p.cond, compiles := compiles })
  | .diag m => .diag m
  | .panic m => .panic m

/-- **C14**: same tokens ⇒ same results, and a valid query stays valid. -/
theorem C14 (ρ : Nat → Tuple → Res) (g : List Node) (b : Bool) (cs₁ cs₂ : List Char)
    (h : lex lexRules cs₁ = lex lexRules cs₂) : answer ρ g b cs₁ = answer ρ g b cs₂ := by
  unfold answer; rw [C14_prepare cs₁ cs₂ h]

theorem C14_valid (cs₁ cs₂ : List Char) (h : lex lexRules cs₁ = lex lexRules cs₂) :
    (prepare cs₁).isOk = (prepare cs₂).isOk := by
  rw [C14_prepare cs₁ cs₂ h]

/-! ### the lexer half: re-layouts have the same tokens -/

open Cpf.Lemmas.LexLayout Cpf.Lemmas.LexLayoutQ in
/-- **C14 (lexer)**: white space between tokens — inserted, changed, made longer or shorter — does not change the
    token sequence (nor the number of lexer errors). `Relayout` walks along the tokens of `s`. -/
theorem C14_lex_layout (s s' : List Char) (h : Relayout s s') : lex lexRules s = lex lexRules s' :=
  lex_relayout h

open Cpf.Lemmas.LexLayoutQ in
/-- **C14 (end to end in the model)**: a re-layout of a query has the same answer, and stays valid. -/
theorem C14_layout (ρ : Nat → Tuple → Res) (g : List Node) (b : Bool) (s s' : List Char) (h : Relayout s s') :
    answer ρ g b s = answer ρ g b s' ∧ (prepare s).isOk = (prepare s').isOk :=
  ⟨C14 ρ g b s s' (C14_lex_layout s s' h), C14_valid s s' (C14_lex_layout s s' h)⟩

open Cpf.Lemmas.LexLayoutQ in
/-- two layouts of one text agree with each other -/
theorem C14_two_layouts (ρ : Nat → Tuple → Res) (g : List Node) (b : Bool) (s s₁ s₂ : List Char)
    (h₁ : Relayout s s₁) (h₂ : Relayout s s₂) : answer ρ g b s₁ = answer ρ g b s₂ := by
  rw [← (C14_layout ρ g b s s₁ h₁).1, (C14_layout ρ g b s s₂ h₂).1]

open Cpf.Lemmas.LexLayout Cpf.Lemmas.LexLayoutQ in
/-- Non-vacuity: `a.b("x y")` and `a .<TAB>b ( "x y" )<LF>` are related (white space put at five token boundaries
    and after the last token; the blank inside the literal is not between tokens and stays). -/
example : Relayout ['a', '.', 'b', '(', '"', 'x', ' ', 'y', '"', ')']
    ['a', ' ', '.', '\t', 'b', ' ', '(', ' ', '"', 'x', ' ', 'y', '"', ' ', ')', '\n'] := by
  refine Relayout.tok' 'a' [] (s := ['.', 'b', '(', '"', 'x', ' ', 'y', '"', ')'])
    (s' := [' ', '.', '\t', 'b', ' ', '(', ' ', '"', 'x', ' ', 'y', '"', ' ', ')', '\n']) (by decide) (by decide) ?_
  refine Relayout.gap [] [' '] (s := ['.', 'b', '(', '"', 'x', ' ', 'y', '"', ')'])
    (s' := ['.', '\t', 'b', ' ', '(', ' ', '"', 'x', ' ', 'y', '"', ' ', ')', '\n']) (by decide) (by decide) (by decide)
    (by decide) (by decide) (by decide) (by decide) ?_
  refine Relayout.tok' '.' [] (s := ['b', '(', '"', 'x', ' ', 'y', '"', ')'])
    (s' := ['\t', 'b', ' ', '(', ' ', '"', 'x', ' ', 'y', '"', ' ', ')', '\n']) (by decide) (by decide) ?_
  refine Relayout.gap [] ['\t'] (s := ['b', '(', '"', 'x', ' ', 'y', '"', ')'])
    (s' := ['b', ' ', '(', ' ', '"', 'x', ' ', 'y', '"', ' ', ')', '\n']) (by decide) (by decide) (by decide)
    (by decide) (by decide) (by decide) (by decide) ?_
  refine Relayout.tok' 'b' [] (s := ['(', '"', 'x', ' ', 'y', '"', ')'])
    (s' := [' ', '(', ' ', '"', 'x', ' ', 'y', '"', ' ', ')', '\n']) (by decide) (by decide) ?_
  refine Relayout.gap [] [' '] (s := ['(', '"', 'x', ' ', 'y', '"', ')'])
    (s' := ['(', ' ', '"', 'x', ' ', 'y', '"', ' ', ')', '\n']) (by decide) (by decide) (by decide)
    (by decide) (by decide) (by decide) (by decide) ?_
  refine Relayout.tok' '(' [] (s := ['"', 'x', ' ', 'y', '"', ')'])
    (s' := [' ', '"', 'x', ' ', 'y', '"', ' ', ')', '\n']) (by decide) (by decide) ?_
  refine Relayout.gap [] [' '] (s := ['"', 'x', ' ', 'y', '"', ')'])
    (s' := ['"', 'x', ' ', 'y', '"', ' ', ')', '\n']) (by decide) (by decide) (by decide)
    (by decide) (by decide) (by decide) (by decide) ?_
  refine Relayout.tok' '"' ['x', ' ', 'y', '"'] (s := [')']) (s' := [' ', ')', '\n']) (by decide) (by decide) ?_
  refine Relayout.gap [] [' '] (s := [')']) (s' := [')', '\n']) (by decide) (by decide) (by decide)
    (by decide) (by decide) (by decide) (by decide) ?_
  refine Relayout.tok' ')' [] (s := []) (s' := ['\n']) (by decide) (by decide) ?_
  exact Relayout.gap [] ['\n'] (s := []) (s' := []) (by decide) (by decide) (by decide)
    (by decide) (by decide) (by decide) (by decide) Relayout.nil

open Cpf.Lemmas.LexLayoutQ in
/-- the relation is decided by `relayoutB` (sound): what the correspondence check runs on every re-layout it tests -/
theorem C14_layout_decided (f : Nat) (s s' : List Char) (h : relayoutB f s s' = true) :
    lex lexRules s = lex lexRules s' :=
  C14_lex_layout s s' (relayoutB_sound f s s' h)

open Cpf.Lemmas.LexLayoutQ in
/-- Non-vacuity on a whole query: the tight text and a re-wrapped, re-indented one. -/
example : relayoutB 100 "FROM a AS b WHERE b.x()==\"q r\"&&b.y() in [\"z\"] SELECT b".toList
    "FROM a\tAS b\n  WHERE b . x ( )  == \"q r\" &&\r\n b.y() in [ \"z\" ]\nSELECT b\n".toList = true := by
  decide

/-! ### rule files: the readers join the lines by blanks -/

section Readers
open Cpf.Lemmas.LexLayout Cpf.Lemmas.LexLayoutQ
open Cpf.Props.C18 (nl2sp)

/-- `Relayout`, with two more demands that make the layout safe to flatten line by line: no token holds a line feed
    (the recorded finding C18:newline-in-string-literal is about those that do), and no run of white space begins the
    ` in ` token once its line feeds are blanks (`x⏎in y` is not `x in y`: recorded finding C14:in-whitespace). -/
inductive RelayoutNL : List Char → List Char → Prop
  | nil : RelayoutNL [] []
  | gap (ws ws' : List Char) {s s' : List Char} : allWs ws = true → allWs ws' = true → ws' ≠ [] →
      tight s = true → tight s' = true → (ws ≠ [] → inP (ws ++ s) = false) → inP (ws' ++ s') = false →
      inP (nl2sp ws' ++ nl2sp s') = false →
      RelayoutNL s s' → RelayoutNL (ws ++ s) (ws' ++ s')
  | tok (c : Char) (l : List Char) (r : LexRule) (lv : Nat) {s s' : List Char} : isWs c = false →
      bestRule lexRules (c :: l ++ s) none 0 = (some (r, (c :: l).length), lv) →
      (∀ x ∈ c :: l, x ≠ '\n') →
      RelayoutNL s s' → RelayoutNL (c :: l ++ s) (c :: l ++ s')
  | tokIn {s s' : List Char} : RelayoutNL s s' → RelayoutNL (inTok ++ s) (inTok ++ s')

theorem RelayoutNL.relayout {s s' : List Char} (h : RelayoutNL s s') : Relayout s s' := by
  induction h with
  | nil => exact .nil
  | gap ws ws' hw hw' hne hs hs' hin hin' _ _ ih => exact .gap ws ws' hw hw' hne hs hs' hin hin' ih
  | tok c l r lv hc hb _ _ ih => exact .tok c l r lv hc hb ih
  | tokIn _ ih => exact .tokIn ih

theorem nl2sp_append (a b : List Char) : nl2sp (a ++ b) = nl2sp a ++ nl2sp b := by
  simp [nl2sp]

theorem nl2sp_id (a : List Char) (h : ∀ x ∈ a, x ≠ '\n') : nl2sp a = a := by
  induction a with
  | nil => rfl
  | cons c cs ih =>
    have hc : c ≠ '\n' := h c (by simp)
    have : (c == '\n') = false := by simpa using hc
    simp only [nl2sp, List.map_cons, this, Bool.false_eq_true, if_false]
    congr 1
    exact ih (fun x hx => h x (by simp [hx]))

theorem isWs_nl2sp_char (c : Char) : isWs (if c == '\n' then ' ' else c) = isWs c := by
  by_cases h : c = '\n'
  · subst h; decide
  · have : (c == '\n') = false := by simpa using h
    simp [this]

theorem allWs_nl2sp (ws : List Char) (h : allWs ws = true) : allWs (nl2sp ws) = true := by
  induction ws with
  | nil => rfl
  | cons c cs ih =>
    simp only [allWs, List.all_cons, Bool.and_eq_true] at h
    simp only [allWs, nl2sp, List.map_cons, List.all_cons, Bool.and_eq_true, isWs_nl2sp_char]
    exact ⟨h.1, ih h.2⟩

theorem tight_nl2sp (s : List Char) (h : tight s = true) : tight (nl2sp s) = true := by
  cases s with
  | nil => rfl
  | cons c cs =>
    simp only [tight, nl2sp, List.map_cons, isWs_nl2sp_char] at h ⊢
    exact h

/-- line feeds turned into blanks: still a re-layout of the same tight text -/
theorem RelayoutNL.flatten {s s' : List Char} (h : RelayoutNL s s') : Relayout s (nl2sp s') := by
  induction h with
  | nil => exact .nil
  | gap ws ws' hw hw' hne hs hs' hin _ hin2 _ ih =>
      rw [nl2sp_append]
      refine .gap ws (nl2sp ws') hw (allWs_nl2sp ws' hw') ?_ hs (tight_nl2sp _ hs') hin hin2 ih
      intro h0
      apply hne
      cases ws' with
      | nil => rfl
      | cons a b => simp [nl2sp] at h0
  | tok c l r lv hc hb hnl _ ih =>
      rename_i s0 s0' _
      have : nl2sp (c :: l ++ s0') = c :: l ++ nl2sp s0' := by
        rw [show (c :: l ++ s0' : List Char) = (c :: l) ++ s0' from rfl, nl2sp_append, nl2sp_id (c :: l) hnl]
      rw [this]
      exact .tok c l r lv hc hb ih
  | tokIn _ ih =>
      rename_i s0 s0' _
      have : nl2sp (inTok ++ s0') = inTok ++ nl2sp s0' := by
        rw [nl2sp_append, nl2sp_id inTok (by decide)]
      rw [this]
      exact .tokIn ih

/-- **C14 ∘ C18**: a query file whose text (followed by a line end) is a flatten-safe layout of the tight text `t`:
    what the `ci` reader joins from its lines has the tokens of `t` — and of the file's own text. -/
theorem C14_reader_tokens (t s : List Char) (h : RelayoutNL t (s ++ ['\n'])) :
    lex lexRules (Cpf.Props.C18.queryText (Cpf.Go.Str.splitChar '\n' s)) = lex lexRules t ∧
    lex lexRules (s ++ ['\n']) = lex lexRules t := by
  constructor
  · rw [Cpf.Props.C18.C18_joined_lines]
    have : nl2sp s ++ [' '] = nl2sp (s ++ ['\n']) := by simp [nl2sp]
    rw [this]
    exact (C14_lex_layout t _ h.flatten).symm
  · exact (C14_lex_layout t _ h.relayout).symm

/-- a token step whose rule and liveness count are computed rather than given -/
theorem RelayoutNL.tok' (c : Char) (l : List Char) {s s' : List Char} (hc : isWs c = false)
    (hb : (bestRule lexRules (c :: l ++ s) none 0).1.map Prod.snd = some (c :: l).length)
    (hnl : ∀ x ∈ c :: l, x ≠ '\n') (h : RelayoutNL s s') : RelayoutNL (c :: l ++ s) (c :: l ++ s') := by
  cases hb' : bestRule lexRules (c :: l ++ s) none 0 with
  | mk a lv =>
    rw [hb'] at hb
    cases a with
    | none => simp at hb
    | some rn =>
        obtain ⟨r, n⟩ := rn
        simp only [Option.map_some, Option.some.injEq] at hb
        subst hb
        exact .tok c l r lv hc hb' hnl h

/-- Non-vacuity: the file `a⏎.b(⏎)⏎` (a call wrapped over three lines) is a flatten-safe layout of `a.b()`. -/
example : RelayoutNL ['a', '.', 'b', '(', ')'] (['a', '\n', '.', 'b', '(', '\n', ')'] ++ ['\n']) := by
  refine RelayoutNL.tok' 'a' [] (s := ['.', 'b', '(', ')']) (s' := ['\n', '.', 'b', '(', '\n', ')', '\n']) (by decide) (by decide) (by decide) ?_
  refine RelayoutNL.gap [] ['\n'] (s := ['.', 'b', '(', ')']) (s' := ['.', 'b', '(', '\n', ')', '\n']) (by decide) (by decide) (by decide)
    (by decide) (by decide) (by decide) (by decide) (by decide) ?_
  refine RelayoutNL.tok' '.' [] (s := ['b', '(', ')']) (s' := ['b', '(', '\n', ')', '\n']) (by decide) (by decide) (by decide) ?_
  refine RelayoutNL.tok' 'b' [] (s := ['(', ')']) (s' := ['(', '\n', ')', '\n']) (by decide) (by decide) (by decide) ?_
  refine RelayoutNL.tok' '(' [] (s := [')']) (s' := ['\n', ')', '\n']) (by decide) (by decide) (by decide) ?_
  refine RelayoutNL.gap [] ['\n'] (s := [')']) (s' := [')', '\n']) (by decide) (by decide) (by decide)
    (by decide) (by decide) (by decide) (by decide) (by decide) ?_
  refine RelayoutNL.tok' ')' [] (s := []) (s' := ['\n']) (by decide) (by decide) (by decide) ?_
  exact RelayoutNL.gap [] ['\n'] (s := []) (s' := []) (by decide) (by decide) (by decide)
    (by decide) (by decide) (by decide) (by decide) (by decide) RelayoutNL.nil

/-- The excluded point, in the model: `x⏎in y` and its flattened text `x in y` are different token sequences. -/
example : lex lexRules "x\nin y".toList ≠ lex lexRules "x in y".toList := by decide

end Readers

/-- The condition text recorded by the listener is a function of the tokens of the WHERE sub-tree only. -/
theorem C14_conditionText_tokens (t : Token) :
    conditionText (.leaf t) = (if t.text = "||" ∨ t.text = "&&" then " " ++ t.text ++ " " else t.text) := by
  simp [conditionText]

/-- Non-vacuity: two layouts of the same query have the same tokens. -/
example : lex lexRules "FROM a AS b\n  WHERE\tb.x()==\"q\" SELECT b".toList
        = lex lexRules "FROM a AS b WHERE b . x ( ) == \"q\"  SELECT  b ".toList := by
  decide

/-- The recorded exception: a second blank before `in` is a different token sequence. -/
example : lex lexRules "a in b".toList ≠ lex lexRules "a  in b".toList := by
  decide

end Cpf.Props.C14
