module factgen

go 1.22
