/-
  Well-formedness of parse trees as far as the listener needs it: the mandatory children that
  listener_impl.go dereferences without a nil check are present. (Every tree the recogniser returns for
  the generated grammar satisfies it; the driver re-validates that on every parse, see checks/c10.py.)
-/
import Cpf.Query.Listener

namespace Cpf.Query

def nodeOk (p : PT) : Bool :=
  match p with
  | .leaf _ => true
  | .node rule _ =>
      if rule = "select_list" then
        (p.childrenOf "select_item").all (fun it => (it.child? "entity").isSome && (it.child? "alias").isSome)
      else if rule = "predicate_invocation" then (p.child? "predicate_name").isSome
      else if rule = "predicate_declaration" then
        (p.child? "predicate_name").isSome && (p.child? "expression").isSome &&
        (match p.child? "parameter_list" with
         | none => true
         | some pl => (pl.childrenOf "parameter").all (fun q => (q.child? "type").isSome && (firstLeaf? q "IDENTIFIER").isSome))
      else true

mutual
def wfTree : PT → Bool
  | .leaf _ => true
  | .node r cs => nodeOk (.node r cs) && wfList cs
def wfList : List PT → Bool
  | [] => true
  | c :: cs => wfTree c && wfList cs
end

end Cpf.Query
