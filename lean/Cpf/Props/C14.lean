/-
  C14 — a query's meaning depends only on its token sequence.

  Model: Cpf.Query.Cli.prepare = lexer ∘ (recogniser, listener, predicate expansion, condition structure).
  After the `fix:` that takes the condition from the parse tree (conditionText) and expands predicates on
  identifiers, nothing downstream of the lexer looks at the characters again; the theorems below are that
  factorisation. The lexer itself (white space is skipped between tokens) is tied to ANTLR's by the
  correspondence `lex` (checks/c14.py: random layouts at every token boundary, real lexer vs model).
  `C14_lex_layout` (Cpf.Lemmas.LexLayout, Cpf.Lemmas.LexLayoutQ) is the lexer half: for the lexer rules of the
  regenerated table, changing the white space between the tokens of an input — more, less (not none where there
  was some), other white-space characters, white space where there was none — leaves the token sequence as it
  is, for every input and every such change. The `' in '` token contains its own blanks: a run of white space
  that begins with ` in ` is excluded (`inP`), because there a blank more or less is a different token sequence
  (`'in'`), which the grammar rejects — recorded finding C14:in-whitespace.
-/
import Cpf.Query.Cli
import Cpf.Lemmas.LexLayoutQ

namespace Cpf.Props.C14
open Cpf.Query Cpf.Go Cpf.Generated

/-- Two inputs with the same tokens are parsed to the same structure (or both rejected). -/
theorem C14_parse (cs₁ cs₂ : List Char) (h : lex lexRules cs₁ = lex lexRules cs₂) :
    parseQuery lexRules grammar startRule cs₁ = parseQuery lexRules grammar startRule cs₂ := by
  unfold parseQuery; rw [h]

/-- … and the evaluator is handed the same condition (same expansion, same structure, same atoms). -/
theorem C14_prepare (cs₁ cs₂ : List Char) (h : lex lexRules cs₁ = lex lexRules cs₂) :
    prepare cs₁ = prepare cs₂ := by
  unfold prepare; rw [h]

/-- The answer of the engine for an input, as a function of the prepared query. -/
def answer (ρ : Nat → Tuple → Res) (g : List Node) (compiles : Bool) (cs : List Char) : Outcome (List Tuple) :=
  match prepare cs with
  | .ok p => .ok (queryEntities ρ g { kinds := p.pq.selectList.map (·.entity), cond := p.cond, compiles := compiles })
  | .diag m => .diag m
  | .panic m => .panic m

/-- **C14**: same tokens ⇒ same results, and a valid query stays valid. -/
theorem C14 (ρ : Nat → Tuple → Res) (g : List Node) (b : Bool) (cs₁ cs₂ : List Char)
    (h : lex lexRules cs₁ = lex lexRules cs₂) : answer ρ g b cs₁ = answer ρ g b cs₂ := by
  unfold answer; rw [C14_prepare cs₁ cs₂ h]

theorem C14_valid (cs₁ cs₂ : List Char) (h : lex lexRules cs₁ = lex lexRules cs₂) :
    (prepare cs₁).isOk = (prepare cs₂).isOk := by
  rw [C14_prepare cs₁ cs₂ h]

/-! ### the lexer half: re-layouts have the same tokens -/

open Cpf.Lemmas.LexLayout Cpf.Lemmas.LexLayoutQ in
/-- **C14 (lexer)**: white space between tokens — inserted, changed, made longer or shorter — does not change the
    token sequence (nor the number of lexer errors). `Relayout` walks along the tokens of `s`. -/
theorem C14_lex_layout (s s' : List Char) (h : Relayout s s') : lex lexRules s = lex lexRules s' :=
  lex_relayout h

open Cpf.Lemmas.LexLayoutQ in
/-- **C14 (end to end in the model)**: a re-layout of a query has the same answer, and stays valid. -/
theorem C14_layout (ρ : Nat → Tuple → Res) (g : List Node) (b : Bool) (s s' : List Char) (h : Relayout s s') :
    answer ρ g b s = answer ρ g b s' ∧ (prepare s).isOk = (prepare s').isOk :=
  ⟨C14 ρ g b s s' (C14_lex_layout s s' h), C14_valid s s' (C14_lex_layout s s' h)⟩

open Cpf.Lemmas.LexLayoutQ in
/-- two layouts of one text agree with each other -/
theorem C14_two_layouts (ρ : Nat → Tuple → Res) (g : List Node) (b : Bool) (s s₁ s₂ : List Char)
    (h₁ : Relayout s s₁) (h₂ : Relayout s s₂) : answer ρ g b s₁ = answer ρ g b s₂ := by
  rw [← (C14_layout ρ g b s s₁ h₁).1, (C14_layout ρ g b s s₂ h₂).1]

open Cpf.Lemmas.LexLayout Cpf.Lemmas.LexLayoutQ in
/-- Non-vacuity: `a.b("x y")` and `a .<TAB>b ( "x y" )<LF>` are related (white space put at five token boundaries
    and after the last token; the blank inside the literal is not between tokens and stays). -/
example : Relayout ['a', '.', 'b', '(', '"', 'x', ' ', 'y', '"', ')']
    ['a', ' ', '.', '\t', 'b', ' ', '(', ' ', '"', 'x', ' ', 'y', '"', ' ', ')', '\n'] := by
  refine Relayout.tok' 'a' [] (s := ['.', 'b', '(', '"', 'x', ' ', 'y', '"', ')'])
    (s' := [' ', '.', '\t', 'b', ' ', '(', ' ', '"', 'x', ' ', 'y', '"', ' ', ')', '\n']) (by decide) (by decide) ?_
  refine Relayout.gap [] [' '] (s := ['.', 'b', '(', '"', 'x', ' ', 'y', '"', ')'])
    (s' := ['.', '\t', 'b', ' ', '(', ' ', '"', 'x', ' ', 'y', '"', ' ', ')', '\n']) (by decide) (by decide) (by decide)
    (by decide) (by decide) (by decide) (by decide) ?_
  refine Relayout.tok' '.' [] (s := ['b', '(', '"', 'x', ' ', 'y', '"', ')'])
    (s' := ['\t', 'b', ' ', '(', ' ', '"', 'x', ' ', 'y', '"', ' ', ')', '\n']) (by decide) (by decide) ?_
  refine Relayout.gap [] ['\t'] (s := ['b', '(', '"', 'x', ' ', 'y', '"', ')'])
    (s' := ['b', ' ', '(', ' ', '"', 'x', ' ', 'y', '"', ' ', ')', '\n']) (by decide) (by decide) (by decide)
    (by decide) (by decide) (by decide) (by decide) ?_
  refine Relayout.tok' 'b' [] (s := ['(', '"', 'x', ' ', 'y', '"', ')'])
    (s' := [' ', '(', ' ', '"', 'x', ' ', 'y', '"', ' ', ')', '\n']) (by decide) (by decide) ?_
  refine Relayout.gap [] [' '] (s := ['(', '"', 'x', ' ', 'y', '"', ')'])
    (s' := ['(', ' ', '"', 'x', ' ', 'y', '"', ' ', ')', '\n']) (by decide) (by decide) (by decide)
    (by decide) (by decide) (by decide) (by decide) ?_
  refine Relayout.tok' '(' [] (s := ['"', 'x', ' ', 'y', '"', ')'])
    (s' := [' ', '"', 'x', ' ', 'y', '"', ' ', ')', '\n']) (by decide) (by decide) ?_
  refine Relayout.gap [] [' '] (s := ['"', 'x', ' ', 'y', '"', ')'])
    (s' := ['"', 'x', ' ', 'y', '"', ' ', ')', '\n']) (by decide) (by decide) (by decide)
    (by decide) (by decide) (by decide) (by decide) ?_
  refine Relayout.tok' '"' ['x', ' ', 'y', '"'] (s := [')']) (s' := [' ', ')', '\n']) (by decide) (by decide) ?_
  refine Relayout.gap [] [' '] (s := [')']) (s' := [')', '\n']) (by decide) (by decide) (by decide)
    (by decide) (by decide) (by decide) (by decide) ?_
  refine Relayout.tok' ')' [] (s := []) (s' := ['\n']) (by decide) (by decide) ?_
  exact Relayout.gap [] ['\n'] (s := []) (s' := []) (by decide) (by decide) (by decide)
    (by decide) (by decide) (by decide) (by decide) Relayout.nil

open Cpf.Lemmas.LexLayoutQ in
/-- the relation is decided by `relayoutB` (sound): what the correspondence check runs on every re-layout it tests -/
theorem C14_layout_decided (f : Nat) (s s' : List Char) (h : relayoutB f s s' = true) :
    lex lexRules s = lex lexRules s' :=
  C14_lex_layout s s' (relayoutB_sound f s s' h)

open Cpf.Lemmas.LexLayoutQ in
/-- Non-vacuity on a whole query: the tight text and a re-wrapped, re-indented one. -/
example : relayoutB 100 "FROM a AS b WHERE b.x()==\"q r\"&&b.y() in [\"z\"] SELECT b".toList
    "FROM a\tAS b\n  WHERE b . x ( )  == \"q r\" &&\r\n b.y() in [ \"z\" ]\nSELECT b\n".toList = true := by
  decide

/-- The condition text recorded by the listener is a function of the tokens of the WHERE sub-tree only. -/
theorem C14_conditionText_tokens (t : Token) :
    conditionText (.leaf t) = (if t.text = "||" ∨ t.text = "&&" then " " ++ t.text ++ " " else t.text) := by
  simp [conditionText]

/-- Non-vacuity: two layouts of the same query have the same tokens. -/
example : lex lexRules "FROM a AS b\n  WHERE\tb.x()==\"q\" SELECT b".toList
        = lex lexRules "FROM a AS b WHERE b . x ( ) == \"q\"  SELECT  b ".toList := by
  decide

/-- The recorded exception: a second blank before `in` is a different token sequence. -/
example : lex lexRules "a in b".toList ≠ lex lexRules "a  in b".toList := by
  decide

end Cpf.Props.C14
