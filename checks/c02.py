"""C02 — no spurious or duplicated matches; no WHERE = cross product. Same sweep as C01, judged for
extra / duplicated / wrongly-typed combinations; plus large cross products (thousands of combinations), where
every combination must still be reported exactly once."""
import collections, os, shutil
from vlib import common as C
from checks import c01

LEAN_MODULES = ["Cpf.Props.C02"]


def big_project(root, n):
    os.makedirs(os.path.join(root, "src"), exist_ok=True)
    for c in range(2):
        body = "".join("    int m%d_%d(int a) { int v%d_%d = a; return a; }\n" % (c, i, c, i) for i in range(n))
        open(os.path.join(root, "src", "Big%d.java" % c), "w").write("class Big%d {\n%s}\n" % (c, body))


def large_products(run):
    """cross products well beyond a few thousand combinations, with and without a WHERE that holds for all / for a
    known slice: counts and multiplicities are known in closed form"""
    h = C.Harness()
    root = C.scratch("c02big")
    stats = collections.Counter()
    try:
        n = 36 if run.depth == "quick" else 70           # 2n methods x 2n variables = 5184 / 19600 combinations
        big_project(root, n)
        r = h.call(op="scan", dir=root, graph="big", timeout=300)
        meth = [x for x in r["nodes"] if x["type"] == "method_declaration"]
        var = [x for x in r["nodes"] if x["type"] == "variable_declaration"]
        cases = [("FROM method_declaration AS a, variable_declaration AS b SELECT a.getName()", len(meth) * len(var)),
                 ("FROM variable_declaration AS b, method_declaration AS a SELECT a.getName()", len(meth) * len(var)),
                 ('FROM method_declaration AS a, variable_declaration AS b WHERE a.getName() != "nope" SELECT a.getName()', len(meth) * len(var)),
                 ('FROM method_declaration AS a, variable_declaration AS b WHERE a.getName() == "m0_0" SELECT b.getName()', len(var)),
                 ('FROM method_declaration AS a, variable_declaration AS b WHERE b.getName() == "v1_%d" SELECT a.getName()' % (n - 1), len(meth)),
                 ("FROM method_declaration AS a, class_declaration AS c, variable_declaration AS b SELECT a.getName()", len(meth) * 2 * len(var) if n <= 36 else None)]
        for q, want in cases:
            if want is None:
                continue
            for rep in range(2):
                rr = h.call(op="query-entities", graph="big", q=q, timeout=600)
                run.count(("large-product", q, rep))
                stats["large_product_queries"] += 1
                if rr.get("outcome") != "ok":
                    run.violation("C02:large-product-abnormal", "a query over %d combinations ends with %s" % (want, rr.get("outcome")), dict(query=q, methods=len(meth), variables=len(var)))
                    if rr.get("outcome") in ("died", "hang"):
                        h = C.Harness()
                        h.call(op="scan", dir=root, graph="big", timeout=300)
                    continue
                tuples = collections.Counter(tuple(t) for t in rr["tuples"])
                dups = sum(c - 1 for c in tuples.values() if c > 1)
                if dups or sum(tuples.values()) != want:
                    ex = next((list(t) for t, c in tuples.items() if c > 1), None)
                    run.violation("C02:large-product-count", "%d combinations qualify, %d are reported (%d of them more than once) for %r" % (want, sum(tuples.values()), dups, q),
                                  dict(query=q, methods=len(meth), variables=len(var), expected=want, reported=sum(tuples.values()), duplicated=dups, example_duplicate=ex))
    finally:
        h.close()
        shutil.rmtree(root, ignore_errors=True)
    run.extra["large_products"] = dict(stats)


def run(run):
    c01.sweep(run, "C02")
    large_products(run)
