/-
  The list-of-successes recogniser `parse` is sound and complete with respect to the inductive
  derivation relation of an arbitrary EBNF grammar.
-/
import Cpf.Query.Ebnf

namespace Cpf.Query

/-- `Derives g r u`: the token list `u` is derived from right-hand side `r` in grammar `g`. -/
inductive Derives (g : Grammar) : Rhs → List Token → Prop
  | eps : Derives g .eps []
  | tok {k : String} {t : Token} : t.kind = k → Derives g (.tok k) [t]
  | nt {n : String} {r : Rhs} {u : List Token} : lookup g n = some r → Derives g r u → Derives g (.nt n) u
  | seq {a b : Rhs} {u v : List Token} : Derives g a u → Derives g b v → Derives g (.seq a b) (u ++ v)
  | altL {a b : Rhs} {u : List Token} : Derives g a u → Derives g (.alt a b) u
  | altR {a b : Rhs} {u : List Token} : Derives g b u → Derives g (.alt a b) u
  | starNil {a : Rhs} : Derives g (.star a) []
  | starCons {a : Rhs} {u v : List Token} : Derives g a u → Derives g (.star a) v → Derives g (.star a) (u ++ v)

theorem PT.tokensList_append (a b : List PT) : PT.tokensList (a ++ b) = PT.tokensList a ++ PT.tokensList b := by
  induction a with
  | nil => simp [PT.tokensList]
  | cons x xs ih => simp [PT.tokensList, ih]

/-- Soundness: every result of `parse` splits the input into a derived prefix (the yield of the
    returned forest) and the returned rest. -/
theorem parse_sound (g : Grammar) : ∀ (f : Nat) (r : Rhs) (ts : List Token) (p : List PT × List Token),
    p ∈ parse g f r ts → ts = PT.tokensList p.1 ++ p.2 ∧ Derives g r (PT.tokensList p.1) := by
  intro f r ts
  fun_induction parse g f r ts with
  | case1 f ts =>
      intro p hp; simp at hp; subst hp; exact ⟨by simp [PT.tokensList], Derives.eps⟩
  | case2 f t rest =>
      intro p hp; simp at hp; subst hp
      exact ⟨by simp [PT.tokensList, PT.tokens], by simpa [PT.tokensList, PT.tokens] using Derives.tok (g := g) (t := t) rfl⟩
  | case3 f k t rest hk => intro p hp; simp at hp
  | case4 f k => intro p hp; simp at hp
  | case5 n ts => intro p hp; simp at hp
  | case6 f n ts hl => intro p hp; simp at hp
  | case7 f n ts rhs hl ih =>
      intro p hp
      simp only [List.mem_map] at hp
      obtain ⟨q, hq, rfl⟩ := hp
      obtain ⟨h1, h2⟩ := ih q hq
      refine ⟨by simpa [PT.tokensList, PT.tokens] using h1, ?_⟩
      simpa [PT.tokensList, PT.tokens] using Derives.nt hl h2
  | case8 f a b ts ihb iha =>
      intro p hp
      simp only [List.mem_flatMap, List.mem_map] at hp
      obtain ⟨q, hq, s, hs, rfl⟩ := hp
      obtain ⟨ha1, ha2⟩ := iha q hq
      obtain ⟨hb1, hb2⟩ := ihb q s hs
      refine ⟨?_, ?_⟩
      · simp only [PT.tokensList_append, List.append_assoc]; rw [← hb1]; exact ha1
      · simp only [PT.tokensList_append]; exact Derives.seq ha2 hb2
  | case9 f a b ts iha ihb =>
      intro p hp
      simp only [List.mem_append] at hp
      rcases hp with hp | hp
      · obtain ⟨h1, h2⟩ := iha p hp; exact ⟨h1, Derives.altL h2⟩
      · obtain ⟨h1, h2⟩ := ihb p hp; exact ⟨h1, Derives.altR h2⟩
  | case10 a ts =>
      intro p hp; simp at hp; subst hp; exact ⟨by simp [PT.tokensList], Derives.starNil⟩
  | case11 f a ts ihs iha =>
      intro p hp
      simp only [List.mem_append, List.mem_flatMap, List.mem_map, List.mem_singleton] at hp
      rcases hp with ⟨q, hq, s, hs, rfl⟩ | rfl
      · obtain ⟨ha1, ha2⟩ := iha q hq
        obtain ⟨hb1, hb2⟩ := ihs q s hs
        refine ⟨?_, ?_⟩
        · simp only [PT.tokensList_append, List.append_assoc]; rw [← hb1]; exact ha1
        · simp only [PT.tokensList_append]; exact Derives.starCons ha2 hb2
      · exact ⟨by simp [PT.tokensList], Derives.starNil⟩

/-- Completeness: a derivation is found by `parse` for every sufficiently large fuel, whatever follows. -/
theorem parse_complete (g : Grammar) {r : Rhs} {u : List Token} (h : Derives g r u) :
    ∃ f0, ∀ f, f0 ≤ f → ∀ rest, ∃ forest, (forest, rest) ∈ parse g f r (u ++ rest) ∧ PT.tokensList forest = u := by
  induction h with
  | eps => exact ⟨0, fun f _ rest => ⟨[], by simp [parse], by simp [PT.tokensList]⟩⟩
  | @tok k t hk =>
      refine ⟨0, fun f _ rest => ⟨[PT.leaf t], ?_, by simp [PT.tokensList, PT.tokens]⟩⟩
      simp [parse, hk]
  | @nt n r u hl _ ih =>
      obtain ⟨f0, hf⟩ := ih
      refine ⟨f0 + 1, fun f hle rest => ?_⟩
      obtain ⟨f', rfl⟩ : ∃ f', f = f' + 1 := ⟨f - 1, by omega⟩
      obtain ⟨forest, hm, hy⟩ := hf f' (by omega) rest
      refine ⟨[PT.node n forest], ?_, by simpa [PT.tokensList, PT.tokens] using hy⟩
      simp only [parse, hl, List.mem_map]
      exact ⟨(forest, rest), hm, rfl⟩
  | @seq a b u v _ _ iha ihb =>
      obtain ⟨fa, ha⟩ := iha
      obtain ⟨fb, hb⟩ := ihb
      refine ⟨max fa fb, fun f hle rest => ?_⟩
      obtain ⟨xa, hma, hya⟩ := ha f (by omega) (v ++ rest)
      obtain ⟨xb, hmb, hyb⟩ := hb f (by omega) rest
      refine ⟨xa ++ xb, ?_, by simp [PT.tokensList_append, hya, hyb]⟩
      simp only [parse, List.mem_flatMap, List.mem_map]
      refine ⟨(xa, v ++ rest), by simpa [List.append_assoc] using hma, (xb, rest), hmb, rfl⟩
  | @altL a b u _ ih =>
      obtain ⟨f0, hf⟩ := ih
      refine ⟨f0, fun f hle rest => ?_⟩
      obtain ⟨x, hm, hy⟩ := hf f hle rest
      exact ⟨x, by simp only [parse, List.mem_append]; exact Or.inl hm, hy⟩
  | @altR a b u _ ih =>
      obtain ⟨f0, hf⟩ := ih
      refine ⟨f0, fun f hle rest => ?_⟩
      obtain ⟨x, hm, hy⟩ := hf f hle rest
      exact ⟨x, by simp only [parse, List.mem_append]; exact Or.inr hm, hy⟩
  | @starNil a =>
      refine ⟨0, fun f _ rest => ⟨[], ?_, by simp [PT.tokensList]⟩⟩
      cases f <;> simp [parse]
  | @starCons a u v _ _ iha ihs =>
      obtain ⟨fa, ha⟩ := iha
      obtain ⟨fs, hs⟩ := ihs
      refine ⟨max fa fs + 1, fun f hle rest => ?_⟩
      obtain ⟨f', rfl⟩ : ∃ f', f = f' + 1 := ⟨f - 1, by omega⟩
      obtain ⟨xa, hma, hya⟩ := ha (f' + 1) (by omega) (v ++ rest)
      obtain ⟨xs, hms, hys⟩ := hs f' (by omega) rest
      refine ⟨xa ++ xs, ?_, by simp [PT.tokensList_append, hya, hys]⟩
      simp only [parse, List.mem_append, List.mem_flatMap, List.mem_map]
      refine Or.inl ⟨(xa, v ++ rest), by simpa [List.append_assoc] using hma, (xs, rest), hms, rfl⟩

end Cpf.Query
