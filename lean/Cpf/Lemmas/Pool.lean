import Cpf.Scan.Pool

namespace Cpf.Scan.Pool

def sumf (f : Nat → Nat) (l : List Nat) : Nat := (l.map f).sum

theorem sumf_set (f : Nat → Nat) : ∀ (l : List Nat) (i old v : Nat), l[i]? = some old →
    sumf f (l.set i v) + f old = sumf f l + f v := by
  intro l
  induction l with
  | nil => intro i old v h; simp at h
  | cons x xs ih =>
      intro i old v h
      cases i with
      | zero =>
          simp at h; subst h
          simp [sumf, List.set]; omega
      | succ j =>
          simp at h
          have := ih j old v h
          simp only [sumf, List.set, List.map_cons, List.sum_cons] at this ⊢
          omega

/-- 1 for a worker that holds a file (pc 1..5) -/
def act (pc : Nat) : Nat := if 1 ≤ pc ∧ pc ≤ 5 then 1 else 0
/-- 1 for a worker that holds a file whose result it has not delivered yet (pc 1..4) -/
def hold (pc : Nat) : Nat := if 1 ≤ pc ∧ pc ≤ 4 then 1 else 0
/-- 1 for an exited worker -/
def ex (pc : Nat) : Nat := if pc = 6 then 1 else 0
/-- remaining-work weight of a worker -/
def wt (pc : Nat) : Nat :=
  if pc = 0 then 1 else if pc = 1 then 11 else if pc = 2 then 9 else if pc = 3 then 7 else if pc = 4 then 5 else if pc = 5 then 3 else 0

/-- the termination measure -/
def phi (s : St) : Nat :=
  13 * s.unsent + 12 * s.fileQ + sumf wt s.workers + s.statusQ + s.resultQ + s.progressQ + (4 - s.mainPc)
    + (if s.statusExited then 0 else 1) + (if s.closed then 0 else 1)

/-- **every step strictly decreases the measure**: no schedule is infinite -/
theorem step_decreases (c : Cfg) (s s' : St) (h : Step c s s') : phi s' < phi s := by
  cases h with
  | queue h1 h2 h3 => simp only [phi]; omega
  | closeFiles h1 h2 => simp only [phi, h1]; omega
  | startStatus h1 => simp only [phi, h1]; omega
  | startCloser h1 => simp only [phi, h1]; omega
  | collect h1 h2 => simp only [phi]; omega
  | finish h1 h2 h3 => simp only [phi, h1]; omega
  | take i h1 h2 =>
      have := sumf_set wt s.workers i 0 1 h1
      simp only [phi, wt] at this ⊢; simp at this; omega
  | exit i h1 h2 h3 =>
      have := sumf_set wt s.workers i 0 6 h1
      simp only [phi, wt] at this ⊢; simp at this; omega
  | status i pc h1 h2 h3 =>
      have := sumf_set wt s.workers i pc (pc + 1) h1
      have e1 : wt 1 = 11 := by decide
      have e2 : wt 2 = 9 := by decide
      have e3 : wt 3 = 7 := by decide
      have e4 : wt 4 = 5 := by decide
      rcases h2 with rfl | rfl | rfl <;> (simp only [phi, Nat.reduceAdd] at this ⊢; omega)
  | fail i h1 =>
      have := sumf_set wt s.workers i 2 0 h1
      simp only [phi, wt] at this ⊢; simp at this; omega
  | result i h1 h2 =>
      have := sumf_set wt s.workers i 4 5 h1
      simp only [phi, wt] at this ⊢; simp at this; omega
  | progress i h1 h2 =>
      have := sumf_set wt s.workers i 5 0 h1
      simp only [phi, wt] at this ⊢; simp at this; omega
  | drainStatus h1 h2 h3 => simp only [phi]; omega
  | drainProgress h1 h2 h3 => simp only [phi]; omega
  | statusExit h1 h2 h3 h4 => simp only [phi, h2]; simp <;> omega
  | close h1 h2 h3 => simp only [phi, h2]; simp <;> omega

/-! ### invariants -/

structure Inv (c : Cfg) (s : St) : Prop where
  files : s.unsent + s.fileQ + sumf act s.workers ≤ c.n
  pcs : ∀ pc ∈ s.workers, pc ≤ 6
  mainLe : s.mainPc ≤ 4
  exitedClosed : s.statusExited = true → s.closed = true
  closedExited : s.closed = true → allExited s = true
  someExited : 0 < sumf ex s.workers → s.fileQ = 0 ∧ s.unsent = 0 ∧ 1 ≤ s.mainPc
  queued : 1 ≤ s.mainPc → s.unsent = 0
  balance : s.produced = s.collected + s.resultQ
  closedMain : s.closed = true → 3 ≤ s.mainPc
  account : s.unsent + s.fileQ + sumf hold s.workers + s.produced + s.failed = c.n

theorem mem_set_le (l : List Nat) (i v : Nat) (hv : v ≤ 6) (h : ∀ pc ∈ l, pc ≤ 6) : ∀ pc ∈ l.set i v, pc ≤ 6 := by
  intro pc hpc
  rcases List.mem_or_eq_of_mem_set hpc with h1 | h1
  · exact h pc h1
  · omega

theorem allExited_get (l : List Nat) (h : l.all (· == 6) = true) (i pc : Nat) (hi : l[i]? = some pc) : pc = 6 := by
  have hm : pc ∈ l := List.mem_of_getElem? hi
  simpa using (List.all_eq_true.1 h) pc hm

theorem sumf_ex_replicate (w : Nat) : sumf ex (List.replicate w 0) = 0 := by
  induction w with
  | zero => rfl
  | succ k ih => simp [sumf, List.replicate, ex] at ih ⊢

theorem sumf_act_replicate (w : Nat) : sumf act (List.replicate w 0) = 0 := by
  induction w with
  | zero => rfl
  | succ k ih => simp [sumf, List.replicate, act] at ih ⊢

theorem sumf_hold_replicate (w : Nat) : sumf hold (List.replicate w 0) = 0 := by
  induction w with
  | zero => rfl
  | succ k ih => simp [sumf, List.replicate, hold] at ih ⊢

theorem inv_init (c : Cfg) (w : Nat) : Inv c (init c w) := by
  refine ⟨?_, ?_, ?_, ?_, ?_, ?_, ?_, ?_, ?_, ?_⟩
  · simp [init, sumf_act_replicate]
  · intro pc hpc
    simp only [init, List.mem_replicate] at hpc
    rw [hpc.2]
    exact Nat.zero_le _
  · simp [init]
  · simp [init]
  · simp [init]
  · simp [init, sumf_ex_replicate]
  · simp [init]
  · simp [init]
  · simp [init]
  · simp [init, sumf_hold_replicate]

/-- a worker step keeps "closed ⇒ all exited" because a closed pool has no worker left to step -/
theorem not_closed_of_worker (c : Cfg) (s : St) (hI : Inv c s) (i pc : Nat) (h : s.workers[i]? = some pc) (hne : pc ≠ 6) :
    s.closed = false := by
  cases hc : s.closed with
  | false => rfl
  | true =>
      have := allExited_get s.workers (hI.closedExited hc) i pc h
      exact absurd this hne

theorem inv_step (c : Cfg) (s s' : St) (hI : Inv c s) (h : Step c s s') : Inv c s' := by
  obtain ⟨hf, hp, hm, hec, hce, hse, hq, hb, hcm, hacc⟩ := hI
  have hI : Inv c s := ⟨hf, hp, hm, hec, hce, hse, hq, hb, hcm, hacc⟩
  cases h with
  | queue h1 h2 h3 =>
      exact ⟨by simp only; omega, hp, hm, hec, hce,
        fun h => by have := hse h; omega, fun h => by simp only at h; omega, hb, hcm, by simp only; omega⟩
  | closeFiles h1 h2 =>
      exact ⟨hf, hp, by simp, hec, hce, fun h => by have := hse h; simp only; omega, fun _ => h2, hb,
        fun h => by have := hcm h; omega, hacc⟩
  | startStatus h1 =>
      exact ⟨hf, hp, by simp, hec, hce, fun h => by have := hse h; simp only; omega, fun _ => hq (by omega), hb,
        fun h => by have := hcm h; omega, hacc⟩
  | startCloser h1 =>
      exact ⟨hf, hp, by simp, hec, hce, fun h => by have := hse h; simp only; omega, fun _ => hq (by omega), hb, fun _ => by simp, hacc⟩
  | collect h1 h2 =>
      exact ⟨hf, hp, hm, hec, hce, hse, hq, by simp only; omega, hcm, hacc⟩
  | finish h1 h2 h3 =>
      exact ⟨hf, hp, by simp, hec, hce, fun h => by have := hse h; simp only; omega, fun _ => hq (by omega), hb, fun _ => by simp, hacc⟩
  | take i h1 h2 =>
      have ha := sumf_set act s.workers i 0 1 h1
      have hh := sumf_set hold s.workers i 0 1 h1
      have he := sumf_set ex s.workers i 0 1 h1
      have hnc := not_closed_of_worker c s hI i 0 h1 (by decide)
      simp [act, ex, hold] at ha he hh
      refine ⟨by simp only; omega, mem_set_le _ _ _ (by omega) hp, hm, fun h => by have := hec h; simp [hnc] at this,
        fun h => by simp [hnc] at h, ?_, hq, hb, fun h => by simp [hnc] at h, by simp only; omega⟩
      intro h; simp only at h
      have := hse (by omega); omega
  | exit i h1 h2 h3 =>
      have ha := sumf_set act s.workers i 0 6 h1
      have hh := sumf_set hold s.workers i 0 6 h1
      have hnc := not_closed_of_worker c s hI i 0 h1 (by decide)
      simp [act, hold] at ha hh
      refine ⟨by simp only; omega, mem_set_le _ _ _ (by omega) hp, hm, fun h => by have := hec h; simp [hnc] at this,
        fun h => by simp [hnc] at h, fun _ => ⟨h2, hq h3, h3⟩, hq, hb, fun h => by simp [hnc] at h, by simp only; omega⟩
  | status i pc h1 h2 h3 =>
      have ha := sumf_set act s.workers i pc (pc + 1) h1
      have hh := sumf_set hold s.workers i pc (pc + 1) h1
      have he := sumf_set ex s.workers i pc (pc + 1) h1
      have hpc6 : pc ≠ 6 ∧ pc + 1 ≤ 6 := by rcases h2 with rfl | rfl | rfl <;> decide
      have hnc := not_closed_of_worker c s hI i pc h1 hpc6.1
      have hpc : act pc = 1 ∧ act (pc + 1) = 1 ∧ ex pc = 0 ∧ ex (pc + 1) = 0 ∧ hold pc = 1 ∧ hold (pc + 1) = 1 := by
        rcases h2 with rfl | rfl | rfl <;> simp [act, ex, hold]
      obtain ⟨hp1, hp2, hp3, hp4, hp5, hp6⟩ := hpc
      refine ⟨by simp only; omega, mem_set_le _ _ _ hpc6.2 hp, hm, fun h => by have := hec h; simp [hnc] at this,
        fun h => by simp [hnc] at h, ?_, hq, hb, fun h => by simp [hnc] at h, by simp only; omega⟩
      intro h; simp only at h
      exact hse (by omega)
  | fail i h1 =>
      have ha := sumf_set act s.workers i 2 0 h1
      have hh := sumf_set hold s.workers i 2 0 h1
      have he := sumf_set ex s.workers i 2 0 h1
      have hnc := not_closed_of_worker c s hI i 2 h1 (by decide)
      simp [act, ex, hold] at ha he hh
      refine ⟨by simp only; omega, mem_set_le _ _ _ (by omega) hp, hm, fun h => by have := hec h; simp [hnc] at this,
        fun h => by simp [hnc] at h, ?_, hq, hb, fun h => by simp [hnc] at h, by simp only; omega⟩
      intro h; simp only at h
      exact hse (by omega)
  | result i h1 h2 =>
      have ha := sumf_set act s.workers i 4 5 h1
      have hh := sumf_set hold s.workers i 4 5 h1
      have he := sumf_set ex s.workers i 4 5 h1
      have hnc := not_closed_of_worker c s hI i 4 h1 (by decide)
      simp [act, ex, hold] at ha he hh
      refine ⟨by simp only; omega, mem_set_le _ _ _ (by omega) hp, hm, fun h => by have := hec h; simp [hnc] at this,
        fun h => by simp [hnc] at h, ?_, hq, by simp only; omega, fun h => by simp [hnc] at h, by simp only; omega⟩
      intro h; simp only at h
      exact hse (by omega)
  | progress i h1 h2 =>
      have ha := sumf_set act s.workers i 5 0 h1
      have hh := sumf_set hold s.workers i 5 0 h1
      have he := sumf_set ex s.workers i 5 0 h1
      have hnc := not_closed_of_worker c s hI i 5 h1 (by decide)
      simp [act, ex, hold] at ha he hh
      refine ⟨by simp only; omega, mem_set_le _ _ _ (by omega) hp, hm, fun h => by have := hec h; simp [hnc] at this,
        fun h => by simp [hnc] at h, ?_, hq, hb, fun h => by simp [hnc] at h, by simp only; omega⟩
      intro h; simp only at h
      exact hse (by omega)
  | drainStatus h1 h2 h3 => exact ⟨hf, hp, hm, hec, hce, hse, hq, hb, hcm, hacc⟩
  | drainProgress h1 h2 h3 => exact ⟨hf, hp, hm, hec, hce, hse, hq, hb, hcm, hacc⟩
  | statusExit h1 h2 h3 h4 => exact ⟨hf, hp, hm, fun _ => h3, hce, hse, hq, hb, hcm, hacc⟩
  | close h1 h2 h3 => exact ⟨hf, hp, hm, fun _ => rfl, fun _ => h3, hse, hq, hb, fun _ => h1, hacc⟩

theorem inv_reach (c : Cfg) (w : Nat) (s : St) (h : Reach c w s) : Inv c s := by
  induction h with
  | init => exact inv_init c w
  | step _ hs ih => exact inv_step c _ _ ih hs

/-- the capacities suffice: file / result / progress channels hold all files, the status channel at least one -/
def CapsOk (c : Cfg) : Prop := c.n ≤ c.fileCap ∧ c.n ≤ c.resultCap ∧ c.n ≤ c.progressCap ∧ 1 ≤ c.statusCap

theorem exists_not_exited (l : List Nat) (h : l.all (· == 6) = false) : ∃ (i : Nat) (pc : Nat), l[i]? = some pc ∧ pc ≠ 6 := by
  rw [List.all_eq_false] at h
  obtain ⟨pc, hm, hne⟩ := h
  obtain ⟨i, hi⟩ := List.mem_iff_getElem?.1 hm
  exact ⟨i, pc, hi, by simpa using hne⟩

theorem act_pos_of_mem (l : List Nat) (i pc : Nat) (h : l[i]? = some pc) (hpc : 1 ≤ pc ∧ pc ≤ 5) : 1 ≤ sumf act l := by
  induction l generalizing i with
  | nil => simp at h
  | cons x xs ih =>
      cases i with
      | zero => simp at h; subst h; simp [sumf, act, hpc]
      | succ j =>
          simp at h
          have := ih j h
          simp only [sumf, List.map_cons, List.sum_cons] at this ⊢
          omega

/-- **no deadlock**: as long as the scan has not returned, some goroutine can take a step -/
theorem no_deadlock (c : Cfg) (w : Nat) (hc : CapsOk c) (s : St) (hr : Reach c w s) (hnf : s.mainPc ≠ 4) :
    ∃ s', Step c s s' := by
  have hI := inv_reach c w s hr
  obtain ⟨c1, c2, c3, c4⟩ := hc
  have hm := hI.mainLe
  by_cases m0 : s.mainPc = 0
  · by_cases hu : 0 < s.unsent
    · exact ⟨_, Step.queue m0 hu (by have := hI.files; omega)⟩
    · exact ⟨_, Step.closeFiles m0 (by omega)⟩
  by_cases m1 : s.mainPc = 1
  · exact ⟨_, Step.startStatus m1⟩
  by_cases m2 : s.mainPc = 2
  · exact ⟨_, Step.startCloser m2⟩
  have m3 : s.mainPc = 3 := by omega
  by_cases hrq : 0 < s.resultQ
  · exact ⟨_, Step.collect m3 hrq⟩
  by_cases hcl : s.closed = true
  · exact ⟨_, Step.finish m3 (by omega) hcl⟩
  have hcl' : s.closed = false := by simpa using hcl
  have hse : s.statusExited = false := by
    cases h : s.statusExited with
    | false => rfl
    | true => have := hI.exitedClosed h; simp [hcl'] at this
  by_cases hall : allExited s = true
  · exact ⟨_, Step.close (by omega) hcl' hall⟩
  obtain ⟨i, pc, hi, hne⟩ := exists_not_exited s.workers (by simpa [allExited] using hall)
  have hle : pc ≤ 6 := hI.pcs pc (List.mem_of_getElem? hi)
  have hpos : 1 ≤ pc ∧ pc ≤ 5 → 1 ≤ c.n := fun h => by
    have := act_pos_of_mem s.workers i pc hi h
    have := hI.files; omega
  rcases (by omega : pc = 0 ∨ pc = 1 ∨ pc = 2 ∨ pc = 3 ∨ pc = 4 ∨ pc = 5) with rfl | rfl | rfl | rfl | rfl | rfl
  · by_cases hq : 0 < s.fileQ
    · exact ⟨_, Step.take i hi hq⟩
    · exact ⟨_, Step.exit i hi (by omega) (by omega)⟩
  · by_cases hs : s.statusQ < c.statusCap
    · exact ⟨_, Step.status i 1 hi (Or.inl rfl) hs⟩
    · exact ⟨_, Step.drainStatus (by omega) hse (by omega)⟩
  · by_cases hs : s.statusQ < c.statusCap
    · exact ⟨_, Step.status i 2 hi (Or.inr (Or.inl rfl)) hs⟩
    · exact ⟨_, Step.drainStatus (by omega) hse (by omega)⟩
  · by_cases hs : s.statusQ < c.statusCap
    · exact ⟨_, Step.status i 3 hi (Or.inr (Or.inr rfl)) hs⟩
    · exact ⟨_, Step.drainStatus (by omega) hse (by omega)⟩
  · have := hpos (by omega)
    exact ⟨_, Step.result i hi (by omega)⟩
  · have := hpos (by omega)
    by_cases hp : s.progressQ < c.progressCap
    · exact ⟨_, Step.progress i hi hp⟩
    · exact ⟨_, Step.drainProgress (by omega) hse (by omega)⟩

theorem sumf_hold_allExited (l : List Nat) (h : l.all (· == 6) = true) : sumf hold l = 0 := by
  induction l with
  | nil => rfl
  | cons x xs ih =>
      simp only [List.all_cons, Bool.and_eq_true, beq_iff_eq] at h
      have := ih h.2
      have h6 : hold 6 = 0 := by decide
      simp only [sumf, List.map_cons, List.sum_cons, h.1, h6] at this ⊢
      omega

/-- once main has returned, the closer has closed the channels and the result channel is drained; the number of
    workers never changes -/
theorem returned_closed (c : Cfg) (w : Nat) (s : St) (hr : Reach c w s) :
    (s.mainPc = 4 → s.closed = true ∧ s.resultQ = 0) ∧ s.workers.length = w := by
  induction hr with
  | init => simp [init]
  | step hr hs ih =>
      have hI := inv_reach c w _ hr
      obtain ⟨ih1, ih2⟩ := ih
      cases hs <;> first
        | (refine ⟨fun h => ?_, by simpa using ih2⟩; simp_all; done)
        | (refine ⟨fun h => ?_, by simpa using ih2⟩; simp only at h; omega)
        | (refine ⟨fun h => ?_, by simpa using ih2⟩
           have := ih1 h
           rename_i i h1 _
           first
             | (have := not_closed_of_worker c _ hI i _ h1 (by decide); simp_all)
             | simp_all)
        | (refine ⟨fun h => ?_, by simpa using ih2⟩; have := ih1 (by simpa using h); simp_all; try omega)

/-- **everything is collected**: when the scan returns, every result a worker produced has been merged, all
    workers have exited, and (with at least one worker) no file is left unqueued or unprocessed -/
theorem collects_all (c : Cfg) (w : Nat) (s : St) (hr : Reach c w s) (hfin : s.mainPc = 4) :
    s.collected = s.produced ∧ (0 < w → s.fileQ = 0 ∧ s.unsent = 0 ∧ s.collected + s.failed = c.n) := by
  have hI := inv_reach c w s hr
  obtain ⟨hk, hlen⟩ := returned_closed c w s hr
  obtain ⟨hcl, hrq⟩ := hk hfin
  refine ⟨by have := hI.balance; omega, fun hw => ?_⟩
  have hall := hI.closedExited hcl
  -- some worker exists and it has exited
  have : 0 < sumf ex s.workers := by
    cases hws : s.workers with
    | nil => simp [hws] at hlen; omega
    | cons x xs =>
        have hx : x = 6 := by
          have h6 : s.workers.all (· == 6) = true := hall
          rw [hws] at h6
          simpa using (List.all_eq_true.1 h6) x (by simp)
        simp only [sumf, List.map_cons, List.sum_cons, ex, hx, ↓reduceIte]
        omega
  have h1 := hI.someExited this
  have h2 := hI.account
  have h3 := sumf_hold_allExited s.workers hall
  have h4 := hI.balance
  exact ⟨h1.1, h1.2.1, by omega⟩

end Cpf.Scan.Pool
