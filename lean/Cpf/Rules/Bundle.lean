/-
  Model of the hosted-ruleset round trip:
    producer  pathfinder-rules/gen-script/main.go   (ReadDir, filepath.Ext == ".cql", json.MarshalIndent of
              {ruleset, files:[{file_name, content}]})
    consumer  cmd/ci.go downloadRuleset              (files[*].content of string type)
    local     cmd/ci.go loadRules                    (Walk, HasSuffix(name, ".cql"), not a directory)
  A flat directory is a list of (name, content) sorted by name (both os.ReadDir and filepath.Walk deliver
  names in lexical order). File names contain no path separator.
-/
import Cpf.Lemmas.JsonRoundtrip
import Cpf.Rules.JsonDoc

namespace Cpf.Rules.Bundle
open Cpf.Rules.Json

structure File where
  name : List Char
  content : List Char
  deriving Repr, DecidableEq

/-- `filepath.Ext` of a file name without separators: from the last dot -/
def ext (name : List Char) : List Char :=
  if '.' ∈ name then '.' :: (name.reverse.takeWhile (· ≠ '.')).reverse else []

/-- `strings.HasSuffix(name, ".cql")` -/
def hasCqlSuffix (name : List Char) : Bool := name.reverse.take 4 == ['l', 'q', 'c', '.']

/-- what the bundling script writes for a directory: the `.cql` files, names and contents JSON-encoded -/
def produce (dir : List File) : List (List Char × List Char) :=
  (dir.filter (fun f => ext f.name == ['.', 'c', 'q', 'l'])).map (fun f => (escape f.name, escape f.content))

/-- what the loader gets out of the bundle: the decoded `content` of every entry -/
def consume (bundle : List (List Char × List Char)) : List (Option (List Char)) :=
  bundle.map (fun e => unescape e.2)

/-- what loading the same directory from disk yields -/
def loadLocal (dir : List File) : List (List Char) := (dir.filter (fun f => hasCqlSuffix f.name)).map (·.content)

/-! ### the bundle as a document -/

def kRuleset : List Char := ['r', 'u', 'l', 'e', 's', 'e', 't']
def kFiles : List Char := ['f', 'i', 'l', 'e', 's']
def kFileName : List Char := ['f', 'i', 'l', 'e', '_', 'n', 'a', 'm', 'e']
def kContent : List Char := ['c', 'o', 'n', 't', 'e', 'n', 't']

open Cpf.Rules.JsonDoc in
/-- the document the bundling script marshals (struct fields in declaration order: ruleset, files) -/
def bundleDoc (name : List Char) (dir : List File) : JV :=
  .obj [(kRuleset, .str name),
        (kFiles, .arr ((dir.filter (fun f => ext f.name == ['.', 'c', 'q', 'l'])).map
          (fun f => JV.obj [(kFileName, .str f.name), (kContent, .str f.content)])))]

/-- the bytes the script writes: `json.MarshalIndent(doc, "", "  ")` -/
def bundleBytes (name : List Char) (dir : List File) : List Char := Cpf.Rules.JsonDoc.encIndent 0 (bundleDoc name dir)

open Cpf.Rules.JsonDoc in
def memberOf (k : List Char) : List (List Char × JV) → Option JV
  | [] => none
  | (k', v) :: r => if k' == k then some v else memberOf k r

open Cpf.Rules.JsonDoc in
/-- `downloadRuleset` on the decoded response: `response["files"].([]interface{})`, each `file.(map)`,
    `rule["content"].(string)` -/
def consumeDoc : JV → List (List Char)
  | .obj kvs =>
      match memberOf kFiles kvs with
      | some (.arr files) => files.filterMap (fun f =>
          match f with
          | .obj m => match memberOf kContent m with
                      | some (.str c) => some c
                      | _ => none
          | _ => none)
      | _ => []
  | _ => []

/-- the hosted loader on the served bytes -/
def loadHosted (bytes : List Char) : Option (List (List Char)) := (Cpf.Rules.JsonDoc.decodeWs bytes).map consumeDoc

end Cpf.Rules.Bundle
