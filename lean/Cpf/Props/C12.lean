/-
  C12 — boolean connectives in WHERE behave as set operations on results.

  `results A` is the set of combinations reported for condition `A` over a fixed graph and FROM list.
  Conjunction is intersection unconditionally. Disjunction/negation are union/complement on the
  combinations where the left (resp. the negated) operand does not *fail*: expr-lang aborts the whole
  condition when a sub-expression raises at run time, so `A || B` misses a combination on which `A`
  raises although `B` is true. The full statements are kept (`C12_or_full`, `C12_not_full`), their
  negations are proved with a witness, and this is a recorded finding (known_findings.json,
  C12:runtime-error-in-left-operand); it is replayed on the implementation by checks/c12.py.
-/
import Cpf.Props.C01

namespace Cpf.Props.C12
open Cpf.Query Cpf.Props.C01

def results (ρ : Nat → Tuple → Res) (g : List Node) (kinds : List String) (c : Cond) : List Tuple :=
  queryEntities ρ g ⟨kinds, some c, true⟩

def all (ρ : Nat → Tuple → Res) (g : List Node) (kinds : List String) : List Tuple :=
  queryEntities ρ g ⟨kinds, none, true⟩

theorem mem_results (ρ) (g : List Node) (kinds : List String) (c : Cond) (t : Tuple) :
    t ∈ results ρ g kinds c ↔ InCross g kinds t ∧ c.eval ρ t = .tt := by
  unfold results
  rw [mem_queryEntities ρ g _ rfl]
  rfl

theorem mem_all (ρ) (g : List Node) (kinds : List String) (t : Tuple) :
    t ∈ all ρ g kinds ↔ InCross g kinds t := by
  unfold all
  rw [mem_queryEntities ρ g _ rfl]
  simp [Holds]

/-- **C12 (&&)**: results(A && B) = results(A) ∩ results(B) — for all A, B, including failing atoms. -/
theorem C12_and (ρ) (g : List Node) (kinds : List String) (a b : Cond) (t : Tuple) :
    t ∈ results ρ g kinds (.and a b) ↔ t ∈ results ρ g kinds a ∧ t ∈ results ρ g kinds b := by
  simp only [mem_results, Cond.eval]
  cases ha : a.eval ρ t <;> cases hb : b.eval ρ t <;> simp

/-- **C12 (||)**, on combinations where the left operand does not fail. -/
theorem C12_or_partial (ρ) (g : List Node) (kinds : List String) (a b : Cond) (t : Tuple)
    (hne : a.eval ρ t ≠ .err) :
    t ∈ results ρ g kinds (.or a b) ↔ t ∈ results ρ g kinds a ∨ t ∈ results ρ g kinds b := by
  simp only [mem_results, Cond.eval]
  cases ha : a.eval ρ t <;> cases hb : b.eval ρ t <;> simp_all

/-- **C12 (!)**, on combinations where the operand does not fail. -/
theorem C12_not_partial (ρ) (g : List Node) (kinds : List String) (a : Cond) (t : Tuple)
    (hne : a.eval ρ t ≠ .err) :
    t ∈ results ρ g kinds (.not a) ↔ t ∈ all ρ g kinds ∧ t ∉ results ρ g kinds a := by
  simp only [mem_results, mem_all, Cond.eval]
  cases ha : a.eval ρ t <;> simp_all

/-- The full-strength statements. -/
def C12_or_full : Prop :=
  ∀ (ρ : Nat → Tuple → Res) (g : List Node) (kinds : List String) (a b : Cond) (t : Tuple),
    t ∈ results ρ g kinds (.or a b) ↔ t ∈ results ρ g kinds a ∨ t ∈ results ρ g kinds b

def C12_not_full : Prop :=
  ∀ (ρ : Nat → Tuple → Res) (g : List Node) (kinds : List String) (a : Cond) (t : Tuple),
    t ∈ results ρ g kinds (.not a) ↔ t ∈ all ρ g kinds ∧ t ∉ results ρ g kinds a

private def n1 : Node := ⟨1, "k"⟩
private def ρw : Nat → Tuple → Res := fun i _ => if i = 0 then .err else .tt

/-- They fail when an operand raises at run time (witness: atom 0 raises, atom 1 is true). -/
theorem C12_or_full_fails : ¬ C12_or_full := by
  intro h
  have := h ρw [n1] ["k"] (.atom 0) (.atom 1) [n1]
  revert this
  decide

theorem C12_not_full_fails : ¬ C12_not_full := by
  intro h
  have := h ρw [n1] ["k"] (.atom 0) [n1]
  revert this
  decide

/-- Conditions that evaluate alike (on every combination) return identical results. -/
theorem C12_equiv (ρ) (g : List Node) (kinds : List String) (a b : Cond)
    (h : ∀ t, a.eval ρ t = b.eval ρ t) : results ρ g kinds a = results ρ g kinds b := by
  unfold results queryEntities
  apply List.filter_congr
  intro t _
  simp [filterEntities, h t]

/-! Logical equivalences, as instances of `C12_equiv`. These hold even for failing atoms,
    except commutation, which needs both operands not to fail. -/

theorem eval_double_neg (ρ) (a : Cond) (t : Tuple) : (Cond.not (.not a)).eval ρ t = a.eval ρ t := by
  simp only [Cond.eval]; cases a.eval ρ t <;> rfl

theorem eval_demorgan_and (ρ) (a b : Cond) (t : Tuple) :
    (Cond.not (.and a b)).eval ρ t = (Cond.or (.not a) (.not b)).eval ρ t := by
  simp only [Cond.eval]; cases a.eval ρ t <;> cases b.eval ρ t <;> rfl

theorem eval_demorgan_or (ρ) (a b : Cond) (t : Tuple) :
    (Cond.not (.or a b)).eval ρ t = (Cond.and (.not a) (.not b)).eval ρ t := by
  simp only [Cond.eval]; cases a.eval ρ t <;> cases b.eval ρ t <;> rfl

theorem eval_absorption (ρ) (a b : Cond) (t : Tuple) :
    (Cond.or a (.and a b)).eval ρ t = a.eval ρ t := by
  simp only [Cond.eval]; cases a.eval ρ t <;> cases b.eval ρ t <;> rfl

theorem eval_distribution (ρ) (a b c : Cond) (t : Tuple) :
    (Cond.and a (.or b c)).eval ρ t = (Cond.or (.and a b) (.and a c)).eval ρ t := by
  simp only [Cond.eval]; cases a.eval ρ t <;> cases b.eval ρ t <;> cases c.eval ρ t <;> rfl

theorem eval_assoc_or (ρ) (a b c : Cond) (t : Tuple) :
    (Cond.or (.or a b) c).eval ρ t = (Cond.or a (.or b c)).eval ρ t := by
  simp only [Cond.eval]; cases a.eval ρ t <;> cases b.eval ρ t <;> cases c.eval ρ t <;> rfl

theorem eval_assoc_and (ρ) (a b c : Cond) (t : Tuple) :
    (Cond.and (.and a b) c).eval ρ t = (Cond.and a (.and b c)).eval ρ t := by
  simp only [Cond.eval]; cases a.eval ρ t <;> cases b.eval ρ t <;> cases c.eval ρ t <;> rfl

theorem C12_double_negation (ρ) (g : List Node) (kinds : List String) (a : Cond) :
    results ρ g kinds (.not (.not a)) = results ρ g kinds a :=
  C12_equiv ρ g kinds _ _ (eval_double_neg ρ a)

theorem C12_demorgan_and (ρ) (g : List Node) (kinds : List String) (a b : Cond) :
    results ρ g kinds (.not (.and a b)) = results ρ g kinds (.or (.not a) (.not b)) :=
  C12_equiv ρ g kinds _ _ (eval_demorgan_and ρ a b)

theorem C12_demorgan_or (ρ) (g : List Node) (kinds : List String) (a b : Cond) :
    results ρ g kinds (.not (.or a b)) = results ρ g kinds (.and (.not a) (.not b)) :=
  C12_equiv ρ g kinds _ _ (eval_demorgan_or ρ a b)

theorem C12_absorption (ρ) (g : List Node) (kinds : List String) (a b : Cond) :
    results ρ g kinds (.or a (.and a b)) = results ρ g kinds a :=
  C12_equiv ρ g kinds _ _ (eval_absorption ρ a b)

theorem C12_distribution (ρ) (g : List Node) (kinds : List String) (a b c : Cond) :
    results ρ g kinds (.and a (.or b c)) = results ρ g kinds (.or (.and a b) (.and a c)) :=
  C12_equiv ρ g kinds _ _ (eval_distribution ρ a b c)

/-- Commutation of `||` and `&&` as *sets of results*, when neither operand fails anywhere. -/
theorem C12_comm_or_partial (ρ) (g : List Node) (kinds : List String) (a b : Cond)
    (ha : ∀ t, a.eval ρ t ≠ .err) (hb : ∀ t, b.eval ρ t ≠ .err) (t : Tuple) :
    t ∈ results ρ g kinds (.or a b) ↔ t ∈ results ρ g kinds (.or b a) := by
  rw [C12_or_partial ρ g kinds a b t (ha t), C12_or_partial ρ g kinds b a t (hb t)]
  exact Or.comm

theorem C12_comm_and (ρ) (g : List Node) (kinds : List String) (a b : Cond) (t : Tuple) :
    t ∈ results ρ g kinds (.and a b) ↔ t ∈ results ρ g kinds (.and b a) := by
  rw [C12_and, C12_and]; exact And.comm

/-- Non-vacuity of the partial theorems: a graph realising all four truth assignments of two atoms. -/
example :
    let g : List Node := [⟨0, "k"⟩, ⟨1, "k"⟩, ⟨2, "k"⟩, ⟨3, "k"⟩]
    let ρ : Nat → Tuple → Res := fun i t =>
      match t with
      | [n] => if (if i = 0 then n.id % 2 = 1 else n.id / 2 = 1) then .tt else .ff
      | _ => .err
    (results ρ g ["k"] (.or (.atom 0) (.atom 1))).length = 3 ∧
    (results ρ g ["k"] (.and (.atom 0) (.atom 1))).length = 1 ∧
    (results ρ g ["k"] (.not (.atom 0))).length = 2 := by
  decide

end Cpf.Props.C12
