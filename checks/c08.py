"""C08 — what is reported for a file depends only on that file (fault isolation).

Proof: Cpf.Props.C08 (every identity of a file's own graph is bound, in the merged graph, to what that file's
graph binds it to — for every set and order of other per-file graphs; dropping faulty files keeps that).
Correspondence / oracle: a file F is scanned alone and inside generated contexts — copies of F under other
names, files sharing fragments with F, empty / malformed / binary files, non-.java files, dangling symlinks,
and files and directories made unreadable (real permission faults: the harness is re-executed as uid 65534
through setpriv because the sandbox user is root). The entities and call links whose file is F must be the
same in every context."""
import collections, re, json, os, random, shutil, stat, subprocess
from vlib import common as C, genjava as G, scan as S
from checks import c07

LEAN_MODULES = ["Cpf.Props.C08"]
NUM_WORKERS = 5


def scan_as_nobody(root):
    """Initialize(root) in a harness process running as uid/gid 65534; returns the response dict"""
    exe = os.path.join(C.BUILD, "cpfh")
    tmpbin = os.path.join(root, ".cpfh")
    req = json.dumps(dict(op="scan", dir=os.path.join(root, "proj"), graph="g")) + "\n"
    shutil.copy(exe, tmpbin)
    os.chmod(tmpbin, 0o755)
    try:
        p = subprocess.run(["setpriv", "--reuid=65534", "--regid=65534", "--clear-groups", tmpbin], input=req.encode(),
                           stdout=subprocess.PIPE, stderr=subprocess.PIPE, timeout=180, env=dict(os.environ, HOME=root, GOMEMLIMIT="2GiB"))
    finally:
        os.remove(tmpbin)
    if not p.stdout.strip():
        return dict(outcome="died", rc=p.returncode, err=p.stderr.decode("utf-8", "replace")[-400:])
    return json.loads(p.stdout.decode().split("\n")[0])


def as_nobody(root, req):
    """one harness request in a process running as uid/gid 65534"""
    exe = os.path.join(C.BUILD, "cpfh")
    tmpbin = os.path.join(root, ".cpfh")
    shutil.copy(exe, tmpbin)
    os.chmod(tmpbin, 0o755)
    try:
        p = subprocess.run(["setpriv", "--reuid=65534", "--regid=65534", "--clear-groups", tmpbin], input=(json.dumps(req) + "\n").encode(),
                           stdout=subprocess.PIPE, stderr=subprocess.PIPE, timeout=180, env=dict(os.environ, HOME=root, GOMEMLIMIT="2GiB"))
    finally:
        os.remove(tmpbin)
    if not p.stdout.strip():
        return dict(outcome="died", rc=p.returncode, err=p.stderr.decode("utf-8", "replace")[-400:])
    return json.loads(p.stdout.decode().split("\n")[0])


def tree_fields(path, name, unprivileged, parent_searchable=True):
    """the directory tree as the Lean walk model takes it (preorder). For an unprivileged reader an entry cannot be
    inspected when its parent lacks the search bit, and a directory cannot be listed when it lacks the read bit."""
    st = os.lstat(path)
    le = "1" if (unprivileged and not parent_searchable) else "0"
    if not stat.S_ISDIR(st.st_mode):
        return ["F", name, le]
    mode = stat.S_IMODE(st.st_mode)
    listable = (mode & 0o004) != 0 or not unprivileged
    searchable = (mode & 0o001) != 0 or not unprivileged
    names = sorted(os.listdir(path))
    out = ["D", name, le, "0" if listable else "1", str(len(names) if listable else 0)]
    if listable:
        for n in names:
            out += tree_fields(os.path.join(path, n), n, unprivileged, searchable)
    return out


def discovery_correspondence(run, h, d, root, proj, stats, unprivileged, mism):
    """getFiles on the real directory vs the Lean walk model on the same tree"""
    r = as_nobody(root, dict(op="files", dir=proj)) if unprivileged else h.call(op="files", dir=proj)
    m = d.call("walk-model", proj, *tree_fields(proj, os.path.basename(proj), unprivileged))
    stats["discovery_cases" + ("_unprivileged" if unprivileged else "")] += 1
    run.count(("discovery", unprivileged, len(m)))
    real_files = r.get("files") or []
    if (r.get("outcome") == "ok") != (m[0] == "ok") or (r.get("outcome") == "ok" and real_files != m[1:]):
        mism.append(dict(unprivileged=unprivileged, real=dict(outcome=r.get("outcome"), files=[os.path.relpath(x, proj) for x in real_files][:40]),
                         model=dict(outcome=m[0], files=[os.path.relpath(x, proj) for x in m[1:]][:40])))


def restricted(resp, fpath):
    nodes = [n for n in resp["nodes"] if n["file"] == fpath]
    ids = {n["id"] for n in nodes}
    edges = [(a, b) for a, b in resp["edges"] if a in ids or b in ids]
    return c07.canon(nodes, edges)


def large_files(run, h, rng, stats):
    """sources of 64 KiB and more: a large F alone, then next to a larger G that is read first and hundreds of small
    files in between (so that G is finished long before F is read), then alone again in the same process"""
    root = C.scratch("c08big")
    try:
        def big(name, nmethods):
            body = "".join("    int %s_m%d(int a, int b) {\n        int r%d = a * %d + b;\n        if (r%d > b) { return r%d - %d; }\n        return helper%d(r%d, \"%s text %d\");\n    }\n\n" %
                           (name.lower(), i, i, i, i, i, i, i % 7, i, name, i) for i in range(nmethods))
            return "package big;\n\nclass %s {\n%s}\n" % (name, body)
        ftext = big("Strings", 420)
        gtext = big("Messages", 640) + "\nclass MessageIds { int idOf(String s) { return s.length() + 1; } }\n"
        assert len(ftext) > 66000 and len(gtext) > len(ftext) + 20000
        os.makedirs(os.path.join(root, "zz"))
        fpath = os.path.join(root, "zz", "Strings.java")
        open(fpath, "w").write(ftext)
        alone = h.call(op="scan", dir=root, graph="lf", timeout=300)
        if alone.get("outcome") != "ok":
            run.violation("C08:scan-" + str(alone.get("outcome")), "scan of one %d-byte file ends with %s" % (len(ftext), alone.get("outcome")), dict(bytes=len(ftext)))
            return
        ref = restricted(alone, fpath)
        os.makedirs(os.path.join(root, "aa"))
        open(os.path.join(root, "aa", "Messages.java"), "w").write(gtext)
        for i in range(500):
            d_ = os.path.join(root, "mm", "p%02d" % (i % 13))
            os.makedirs(d_, exist_ok=True)
            open(os.path.join(d_, "S%d.java" % i), "w").write("class S%d { int v%d; int get%d() { return v%d + %d; } }\n" % (i, i, i, i, i))
        for rnd in range(2):
            both = h.call(op="scan", dir=root, graph="lf", timeout=300)
            run.count(("large-files", rnd))
            stats["large_file_scans"] += 1
            if both.get("outcome") != "ok":
                run.violation("C08:scan-" + str(both.get("outcome")), "scan of a project with sources of %d and %d bytes ends with %s" % (len(ftext), len(gtext), both.get("outcome")), dict())
                return
            got = restricted(both, fpath)
            if got != ref:
                extra = [json.loads(got[0][i]) for i in list(set(got[0]) - set(ref[0]))[:3]]
                miss = [json.loads(ref[0][i]) for i in list(set(ref[0]) - set(got[0]))[:3]]
                run.violation("C08:context-changes-file-report", "next to a larger source that is read first (and 500 small ones) a %d-byte file is reported with %d other entities and without %d of its own" %
                              (len(ftext), len(set(got[0]) - set(ref[0])), len(set(ref[0]) - set(got[0]))),
                              dict(context="large-siblings", F_bytes=len(ftext), G_bytes=len(gtext), added=extra, hidden=miss, generator="checks/c08.py large_files"))
                return
        # and alone again, in the same process
        shutil.rmtree(os.path.join(root, "aa"))
        shutil.rmtree(os.path.join(root, "mm"))
        again = h.call(op="scan", dir=root, graph="lf", timeout=300)
        if again.get("outcome") == "ok" and restricted(again, fpath) != ref:
            run.violation("C08:context-changes-file-report", "a %d-byte file scanned alone after a scan of a larger project in the same process is reported differently" % len(ftext),
                          dict(context="large-siblings-earlier-scan", F_bytes=len(ftext), G_bytes=len(gtext), generator="checks/c08.py large_files"))
    finally:
        shutil.rmtree(root, ignore_errors=True)


def slow_siblings(run, h, stats):
    """siblings that keep the parser busy for many seconds each (tens of thousands of unterminated string literals:
    tree-sitter's error recovery is quadratic there), one per worker and all taken before F: whatever the scanner does
    about such files, F's report is the one it has alone"""
    root = C.scratch("c08slow")
    try:
        fpath = os.path.join(root, "F.java")
        open(fpath, "w").write("package demo;\n\npublic class F {\n    private int total = 0;\n\n    public void run() {\n        int step = 2;\n        helper(step);\n    }\n\n"
                               "    void helper(int amount) {\n        total = total + amount;\n    }\n}\n")
        alone = h.call(op="scan", dir=root, graph="sl", timeout=300)
        if alone.get("outcome") != "ok":
            return
        ref = restricted(alone, fpath)
        for i in range(NUM_WORKERS):
            open(os.path.join(root, "A%d.java" % i), "w").write('"abc\n' * 20000)
        both = h.call(op="scan", dir=root, graph="sl", timeout=900)
        run.count(("slow-siblings", NUM_WORKERS))
        stats["slow_sibling_scans"] += 1
        if both.get("outcome") != "ok":
            run.violation("C08:scan-" + str(both.get("outcome")), "scan of a small file next to %d siblings of 20000 unterminated literals each ends with %s" % (NUM_WORKERS, both.get("outcome")),
                          dict(context="slow-siblings", generator="checks/c08.py slow_siblings", panic=both.get("panic")))
            return
        got = restricted(both, fpath)
        if got != ref:
            miss = [json.loads(ref[0][i]) for i in list(set(ref[0]) - set(got[0]))[:3]]
            extra = [json.loads(got[0][i]) for i in list(set(got[0]) - set(ref[0]))[:3]]
            run.violation("C08:context-changes-file-report", "next to %d siblings that each take the parser many seconds (20000 lines `\"abc`), F.java is reported without %d of its %d entities and with %d others" %
                          (NUM_WORKERS, len(set(ref[0]) - set(got[0])), len(ref[0]), len(set(got[0]) - set(ref[0]))),
                          dict(context="slow-siblings", hidden=miss, added=extra, generator="checks/c08.py slow_siblings"))
    finally:
        shutil.rmtree(root, ignore_errors=True)


def path_suffix_collision(run, h, stats):
    """The recorded finding C08:path-suffix-collision, reproduced on purpose: identities of expression entities are
    SHA-256(kind ++ text ++ absolute path) without a separator, so `a/b` in <root>/<root>/X.java and `a/b<root>` in
    <root>/X.java have one identity (the nested path ends with the other file's path). Any *other* effect of the
    sibling on the nested file is reported under its own signature."""
    import tempfile
    base = tempfile.mkdtemp(prefix="c08x", dir="/tmp")
    try:
        root = os.path.join(base, "p")
        comps = [c for c in root.split("/") if c]
        if not all(re.fullmatch(r"[A-Za-z_][A-Za-z0-9_]*", c) for c in comps):
            return
        nested_dir = os.path.join(root, *comps)
        os.makedirs(nested_dir)
        nested = os.path.join(nested_dir, "X.java")
        open(nested, "w").write("class X { int f(int a, int b) { return a/b; } }\n")
        alone = h.call(op="scan", dir=root, graph="ps", timeout=120)
        if alone.get("outcome") != "ok":
            return
        ref = restricted(alone, nested)
        top = os.path.join(root, "X.java")
        open(top, "w").write("class X { int g(int a, int b, %s) { return a/b/%s; } }\n" % (", ".join("int " + c for c in dict.fromkeys(comps)), "/".join(comps)))
        both = h.call(op="scan", dir=root, graph="ps", timeout=120)
        run.count(("path-suffix", root))
        stats["path_suffix_reproductions"] += 1
        if both.get("outcome") != "ok":
            return
        got = restricted(both, nested)
        if got != ref:
            miss = [json.loads(ref[0][i]) for i in set(ref[0]) - set(got[0])]
            only_div = all(m.get("type") in ("div_expression", "binary_expression") for m in miss) and not (set(got[0]) - set(ref[0]))
            sig = "C08:path-suffix-collision" if only_div else "C08:context-changes-file-report"
            run.violation(sig, "a file whose absolute path ends with another file's absolute path loses the expression `a/b` when that other file contains `a/b%s` (%d entities hidden)" %
                          (root, len(miss)), dict(nested=os.path.relpath(nested, root), top="X.java", root=root, hidden=miss[:3]))
    finally:
        shutil.rmtree(base, ignore_errors=True)


def run(run):
    global NUM_WORKERS
    C.build_driver()
    d = C.Driver()
    dmism = []
    try:
        NUM_WORKERS = max(1, int(json.load(open(os.path.join(C.LEAN, "Cpf", "Generated", "tables.json"))).get("poolNumWorkers", "5")))
    except Exception:
        NUM_WORKERS = 5
    h = C.Harness()
    rng = run.rng
    quick = run.depth == "quick"
    stats = collections.Counter()
    have_setpriv = shutil.which("setpriv") is not None
    try:
        path_suffix_collision(run, h, stats)
        large_files(run, h, rng, stats)
        slow_siblings(run, h, stats)
        for case in range(4 if quick else 30):
            root = C.scratch("c08")
            os.chmod(root, 0o755)
            proj = os.path.join(root, "proj")
            os.makedirs(os.path.join(proj, "src", "main"))
            g = G.Gen(random.Random(rng.random()), G.Opts(unique=True, classes=1, methods=rng.randint(2, 4), stmts=rng.randint(2, 5), depth=1))
            ftext, fents = g.file("F")
            frel = os.path.join("src", "main", "F.java")
            fpath = os.path.join(proj, frel)
            try:
                def write(rel, data, mode=None):
                    p = os.path.join(proj, rel)
                    os.makedirs(os.path.dirname(p), exist_ok=True)
                    with open(p, "wb") as f:
                        f.write(data if isinstance(data, bytes) else data.encode("utf-8"))
                    return p
                write(frel, ftext)
                alone = h.call(op="scan", dir=proj, graph="a", timeout=120)
                ref = restricted(alone, fpath)
                if not ref[0]:
                    continue
                frag = ftext[ftext.index("{"):][:400]
                contexts = collections.OrderedDict()
                contexts["copies"] = lambda: [write("src/main/Copy%d.java" % i, ftext) for i in range(3)] and None
                contexts["same-name-other-dir"] = lambda: write("other/F.java", ftext) and None
                # paths that differ from F's only in the case of letters (a directory, the file name, the extension stays)
                contexts["case-twin-paths"] = lambda: (write("src/Main/F.java", ftext), write("src/main/f.java", ftext),
                                                        write("SRC/main/F.java", ftext)) and None
                contexts["shared-fragments"] = lambda: write("src/G.java", "class G " + frag + "\n}}}\n") and None
                contexts["empty-malformed-binary"] = lambda: (write("src/E.java", b""), write("src/M.java", b"class { int ( ; }} @@ \"unterminated"),
                                                               write("src/B.java", bytes(range(256)) * 4), write("src/N.txt", ftext), write("src/main/F.java.bak", ftext)) and None

                def symlinks():
                    os.symlink(os.path.join(proj, "nowhere.java"), os.path.join(proj, "src", "Dangling.java"))
                    os.symlink(fpath, os.path.join(proj, "src", "LinkToF.java"))
                contexts["symlinks"] = symlinks

                def many_faulty():
                    # more faulty entries than there are workers, queued before F and after it (the walk is lexical):
                    # dangling links, links to a directory, a directory that is named like a source file
                    k = 2 * NUM_WORKERS + 3
                    for d in ("a0", "zz"):
                        os.makedirs(os.path.join(proj, d, "Dir%s.java" % d), exist_ok=True)
                        for i in range(k):
                            os.symlink(os.path.join(proj, "nowhere%d.java" % i), os.path.join(proj, d, "Broken%02d.java" % i))
                        os.symlink(os.path.join(proj, d), os.path.join(proj, d, "LinkToDir.java"))
                contexts["many-faulty-siblings"] = many_faulty

                def callers():
                    # another file that calls F's methods by their bare names with the right number of arguments, and
                    # declares methods of the names F calls: nothing derived for F may look at it
                    decls = [(e["name"], len(e.get("paramTypes") or [])) for e in fents if e["kind"] == "method_declaration"]
                    body = "".join("        %s(%s);\n" % (n, ", ".join("0" for _ in range(k))) for n, k in decls)
                    write("src/other/Caller.java", "class Caller {\n    void callAll() {\n%s    }\n}\n" % body)
                contexts["caller-of-F"] = callers
                order = list(contexts)
                rng.shuffle(order)
                for name in order:
                    contexts[name]()
                    r = h.call(op="scan", dir=proj, graph="c", timeout=120)
                    run.count(("context", case, name))
                    stats["contexts"] += 1
                    if r.get("outcome") != "ok":
                        run.violation("C08:scan-" + str(r.get("outcome")), "scan ends with %s after adding context %s" % (r.get("outcome"), name), dict(context=name, F=ftext))
                        if r.get("outcome") in ("died", "hang"):
                            h = C.Harness()
                        continue
                    discovery_correspondence(run, h, d, root, proj, stats, False, dmism)
                    ghosts = sorted({n["file"] for n in r["nodes"] if not os.path.isfile(n["file"])})
                    if ghosts:
                        run.violation("C08:entities-for-unreadable-entry", "entities are reported for %d entries that cannot be read (e.g. %s): their content can only come from another file" %
                                      (len(ghosts), os.path.relpath(ghosts[0], proj)), dict(context=name, contexts_so_far=order[:order.index(name) + 1], F=ftext, ghosts=[os.path.relpath(x, proj) for x in ghosts[:5]]))
                    got = restricted(r, fpath)
                    if got != ref:
                        miss = set(ref[0]) - set(got[0])
                        extra = set(got[0]) - set(ref[0])
                        changed = [i for i in set(ref[0]) & set(got[0]) if ref[0][i] != got[0][i]]
                        run.violation("C08:context-changes-file-report", "adding %s to the project changes what is reported for F: %d hidden, %d added, %d changed, links %s" %
                                      (name, len(miss), len(extra), len(changed), "differ" if ref[1] != got[1] else "equal"),
                                      dict(context=name, contexts_so_far=order[:order.index(name) + 1], F=ftext,
                                           hidden=[json.loads(ref[0][i]) for i in list(miss)[:2]], changed=[json.loads(got[0][i]) for i in changed[:2]]))
                # ---- real permission faults
                if have_setpriv:
                    u1 = write("src/locked/U.java", "class U { void u(){ int a = 1 + 2; } }")
                    u2 = write("src/main/Unreadable.java", ftext)
                    os.chmod(u2, 0o000)
                    locked = [write("a1/Locked%02d.java" % i, ftext) for i in range(2 * NUM_WORKERS + 3)] + \
                             [write("zy/Locked%02d.java" % i, ftext) for i in range(NUM_WORKERS + 1)]
                    for lp in locked:
                        os.chmod(lp, 0o000)
                    # a directory that can be listed but not searched: its entries cannot be inspected (lstat fails)
                    write("src/noexec/Hidden.java", "class Hidden { }")
                    write("src/noexec/sub/Deeper.java", "class Deeper { }")
                    os.chmod(os.path.join(proj, "src", "noexec"), 0o444)
                    os.chmod(os.path.join(proj, "src", "locked"), 0o000)
                    for dp, dn, fn in os.walk(proj):
                        pass
                    try:
                        os.chmod(os.path.join(proj, "src", "locked"), 0o000)
                        discovery_correspondence(run, h, d, root, proj, stats, True, dmism)
                        r = scan_as_nobody(root)
                        run.count(("faults", case))
                        stats["fault_scans"] += 1
                        if r.get("outcome") != "ok":
                            run.violation("C08:scan-" + str(r.get("outcome")), "scan as an unprivileged user with an unreadable file and directory ends with %s" % r.get("outcome"),
                                          dict(F=ftext, detail=r))
                        else:
                            got = restricted(r, fpath)
                            if got != ref:
                                run.violation("C08:fault-changes-file-report",
                                              "an unreadable file and an unreadable directory elsewhere in the project change what is reported for F (%d of %d entities left)" % (len(got[0]), len(ref[0])),
                                              dict(F=ftext, layout=["src/locked/ (mode 000)", "src/main/Unreadable.java (mode 000)",
                                                                    "a1/Locked00..%02d.java (mode 000)" % (2 * NUM_WORKERS + 2), "zy/Locked00..%02d.java (mode 000)" % NUM_WORKERS]))
                    finally:
                        os.chmod(os.path.join(proj, "src", "locked"), 0o755)
                        os.chmod(os.path.join(proj, "src", "noexec"), 0o755)
                        os.chmod(u2, 0o644)
                        for lp in locked:
                            os.chmod(lp, 0o644)
                if case == 0:
                    run.sample(dict(F_bytes=len(ftext), F_entities=len(ref[0]), contexts=order + (["unreadable file + directory (uid 65534)"] if have_setpriv else [])))
            finally:
                shutil.rmtree(root, ignore_errors=True)
    finally:
        h.close()
        d.close()
    if dmism:
        run.broken_obligation("correspondence:discovery", "getFiles and the Lean walk model disagree on %d directory trees, e.g. %s" % (len(dmism), json.dumps(dmism[:2])[:1500]))
    run.extra["histogram"] = dict(stats)
    run.extra["permission_faults"] = "real (setpriv to uid 65534)" if have_setpriv else "setpriv not available: permission faults not exercised"
