/-
  Model of graph/query.go: ReplacePredicateVariables, renameIdentifiers, replaceCall,
  rewriteIdentifiers (the code after the `fix:` that made predicate expansion token-aware).
  Strings are `List Char`; the Go code works on bytes, which is the same thing here because every
  character it inspects (letters, digits, `_`, `"`, `\`, `.`) is ASCII.
-/
import Cpf.Query.Listener

namespace Cpf.Query

def isLetter (c : Char) : Bool := c == '_' || ('a' ≤ c && c ≤ 'z') || ('A' ≤ c && c ≤ 'Z')
def isDigit (c : Char) : Bool := '0' ≤ c && c ≤ '9'

/-- longest prefix of identifier characters, and the rest -/
def spanIdent : List Char → List Char × List Char
  | [] => ([], [])
  | c :: cs => if isLetter c || isDigit c then let (a, b) := spanIdent cs; (c :: a, b) else ([], c :: cs)

def spanDigits : List Char → List Char × List Char
  | [] => ([], [])
  | c :: cs => if isDigit c then let (a, b) := spanDigits cs; (c :: a, b) else ([], c :: cs)

/-- the rest of a string literal after its opening quote: (text up to and including the closing quote, rest) -/
def strBody : List Char → List Char × List Char
  | [] => ([], [])
  | '"' :: r => (['"'], r)
  | '\\' :: c :: r => let (a, b) := strBody r; ('\\' :: c :: a, b)
  | c :: r => let (a, b) := strBody r; (c :: a, b)

abbrev Rewrite := List Char → Bool → List Char → List Char × Nat

/-- `rewriteIdentifiers` -/
def rewriteAux (rw : Rewrite) : Nat → Bool → List Char → List Char
  | 0, _, _ => []
  | _, _, [] => []
  | fuel + 1, member, c :: cs =>
      if c == '"' then
        let (lit, rest) := strBody cs
        '"' :: lit ++ rewriteAux rw fuel false rest
      else if isLetter c then
        let (tl, rest) := spanIdent cs
        let (repl, consumed) := rw (c :: tl) member rest
        repl ++ rewriteAux rw fuel false (rest.drop consumed)
      else if isDigit c then
        let (tl, rest) := spanDigits cs
        c :: tl ++ rewriteAux rw fuel false rest
      else
        c :: rewriteAux rw fuel (c == '.') cs

def rewriteIdentifiers (s : List Char) (rw : Rewrite) : List Char := rewriteAux rw (s.length + 1) false s

/-- the Go map `renaming`: a later binding of the same key overwrites an earlier one -/
def renLookup (ren : List (List Char × List Char)) (k : List Char) : Option (List Char) :=
  (ren.reverse.find? (fun p => p.1 == k)).map (·.2)

def renameIdentifiers (s : List Char) (ren : List (List Char × List Char)) : List Char :=
  rewriteIdentifiers s (fun ident member _ =>
    match renLookup ren ident with
    | some r => if member then (ident, 0) else (r, 0)
    | none => (ident, 0))

def replaceCall (s name args body : List Char) : List Char :=
  rewriteIdentifiers s (fun ident member rest =>
    if ident == name && !member && Go.Str.hasPrefix rest args then (body, args.length) else (ident, 0))

def expandOne (expression : List Char) (inv : Invocation) : List Char :=
  if inv.matched.name == "" || inv.matched.params.length != inv.args.length then expression
  else
    let arguments := inv.args.map (fun p => p.name.toList)
    let ren := (inv.matched.params.map (fun p => p.name.toList)).zip arguments
    let call := '(' :: Go.Str.join [','] arguments ++ [')']
    let body := '(' :: renameIdentifiers inv.matched.body.toList ren ++ [')']
    replaceCall expression inv.name.toList call body

/-- `ReplacePredicateVariables` -/
def replacePredicateVariables (pq : ParsedQuery) : List Char :=
  if pq.expression == "" then [] else pq.invocations.foldl expandOne pq.expression.toList

end Cpf.Query
