"""C15 — output rows line up with results, identically in every output mode.

Proof: Cpf.Props.C15 (one row per combination, one cell per SELECT item in order, each evaluated on that
combination; text and JSON list the same locations in the same order; text-mode numbering).
Correspondence: the row layout predicted by the Lean model (driver `output`) vs the real CLI's rows.
Oracle: the real CLI in every mode (--output json / text, --output-file, --verbose): a single well-formed
JSON document, snippet text preserved exactly, cells equal to the selected attribute of *that* row's
entity, the same multiset of locations in all modes."""
import collections, json, os, random, re, shutil
from vlib import common as C, engine as E, querygen as QG, genquery as GQ

LEAN_MODULES = ["Cpf.Props.C15"]

NASTY = ('package gen;\n/* ctrl \x01\x1b\x7f chars & <html>   "quoted" back\\slash */\n'
         'class Nasty implements Runnable2, Marker {\n  String a = "quote\\" back\\\\slash \\t tab";\n  String b = "ünï 日本";\n  String u = "\\u003cscript\\u003e \\u0026 \\\\u003c"; /* \\u003e in a comment */\n  String pct = "%d of %s done, 100%"; // http://x\n'
         '  /** @author me "q" <b>\n   * @see Other */\n  public void weird(int p1, String p2) throws Exception { emit("x<y>&z", \'c\', 1); }\n}\n')

HDR = re.compile(r"^\tFile: (.*), Line: (\d+) $")


def parse_text(out):
    """[(file, line, [cells], [(n, codeline)])] from text-mode output"""
    blocks = []
    out = out.replace("\x1b[H\x1b[J", "")      # the scan's status goroutine may still be clearing the screen
    lines = out.split("\n")
    i = 0
    while i < len(lines):
        m = HDR.match(lines[i])
        if m and i + 1 < len(lines) and lines[i + 1].startswith("\tResult: "):
            cells = lines[i + 1][len("\tResult: "):]
            blocks.append(dict(file=m.group(1), line=int(m.group(2)), result=cells, code=[]))
            i += 2
            continue
        m2 = re.match(r"^\t\t\s*(\d+) \| (.*)$", lines[i])
        if m2 and blocks:
            blocks[-1]["code"].append((int(m2.group(1)), m2.group(2)))
        i += 1
    return blocks


def last_json(stdout):
    # the scan's status goroutine may still be printing its clear-screen sequence when the result is written
    txt = stdout.decode("utf-8", "replace").replace("\x1b[H\x1b[J", "")
    for line in reversed(txt.split("\n")):
        line = line.strip()
        if line.startswith("{"):
            return line
    return None


class Unmodelled(Exception):
    pass


def doc_fields(v, out):
    """a parsed JSON document (objects as lists of pairs, in document order) as the Lean driver takes it"""
    if isinstance(v, str):
        out += ["S", v]
    elif isinstance(v, bool) or v is None or isinstance(v, float):
        raise Unmodelled(repr(v))
    elif isinstance(v, int):
        if v < 0:
            raise Unmodelled(repr(v))
        out += ["N", str(v)]
    elif isinstance(v, list) and v and isinstance(v[0], tuple):
        out += ["O", str(len(v))]
        for k, x in v:
            out.append(k)
            doc_fields(x, out)
    elif isinstance(v, list):
        out += ["A", str(len(v))]
        for x in v:
            doc_fields(x, out)
    elif isinstance(v, dict):
        out += ["O", "0"]
    else:
        raise Unmodelled(repr(v))
    return out


def json_document_correspondence(run, d, raw, stats, mism, what):
    """the report as bytes vs the Lean encoder on the same document: equal text, and the Lean decoder reads it back"""
    try:
        doc = json.loads(raw, object_pairs_hook=lambda ps: list(ps) if ps else {})
        fields = doc_fields(doc, [])
    except Unmodelled:
        stats["json_docs_with_unmodelled_values"] += 1
        return
    except Exception:
        return
    r = d.call("jsondoc", *fields)
    stats["json_docs_compared"] += 1
    if r[0] != raw.strip() or r[1] != "roundtrip" or r[2] != "wf":
        mism.append(dict(what=what, real=raw.strip()[:300], model=r[0][:300], decode=r[1], wf=r[2]))


def count_select_items(text):
    """items of the SELECT list of a query text: commas outside string literals, parentheses and brackets"""
    i = text.rindex("SELECT") + len("SELECT")
    depth, instr, n, k = 0, False, 1, i
    while k < len(text):
        c = text[k]
        if instr:
            if c == "\\":
                k += 1
            elif c == '"':
                instr = False
        elif c == '"':
            instr = True
        elif c in "([":
            depth += 1
        elif c in ")]":
            depth -= 1
        elif c == "," and depth == 0:
            n += 1
        k += 1
    return n


def large_result_set(run, stats):
    """thousands of reported combinations: row i must still belong to combination i (JSON), and every text block must
    carry the row of its own entity"""
    root = C.scratch("c15big")
    try:
        n = 1300 if run.depth == "quick" else 5000
        os.makedirs(os.path.join(root, "src"))
        for c in range(2):
            open(os.path.join(root, "src", "Big%d.java" % c), "w").write(
                "class Big%d {\n%s}\n" % (c, "".join("    void m_%d_%04d() { }\n" % (c, i) for i in range(n // 2))))
        q = 'FROM method_declaration AS md SELECT md.getName(), "tag"'
        for mode, args in (("json", ["--output", "json"]), ("text", [])):
            out = os.path.join(root, "out." + mode)
            rc, so, se = C.cli(["query", "--project", root, "--query", q, "--disable-metrics", "--output-file", out] + args, timeout=300)
            stats["large_result_runs"] += 1
            run.count(("large", mode, n))
            if rc != 0 or not os.path.exists(out):
                run.violation("C15:cli-failed", "CLI exits %s on a query with %d results in %s mode" % (rc, n, mode), dict(query=q, results=n, mode=mode))
                continue
            raw = open(out, encoding="utf-8", errors="replace").read()
            bad = total = 0
            example = None
            if mode == "json":
                try:
                    doc = json.loads(raw)
                except Exception:
                    run.violation("C15:bad-json", "the report of a query with %d results is not one well-formed JSON document" % n, dict(query=q, results=n))
                    continue
                rs, rows = doc.get("result_set", []), doc.get("output", [])
                total = len(rs)
                if len(rows) != len(rs) or len(rs) != n:
                    run.violation("C15:row-count", "%d output rows for %d combinations (%d methods)" % (len(rows), len(rs), n), dict(query=q, results=n))
                    continue
                for e, row in zip(rs, rows):
                    m = re.search(r"void (m_\d_\d+)\(", e["code"])
                    if not m or row != [m.group(1), "tag"]:
                        bad += 1
                        example = example or dict(entity=e["code"], line=e["line"], row=row)
            else:
                blocks = parse_text(raw)
                total = len(blocks)
                if total != n:
                    run.violation("C15:row-count", "%d text blocks for %d results" % (total, n), dict(query=q, results=n))
                    continue
                for b in blocks:
                    code = " ".join(t for _, t in b["code"])
                    m = re.search(r"void (m_\d_\d+)\(", code)
                    if not m or b["result"] != m.group(1) + " | tag | ":
                        bad += 1
                        example = example or dict(entity=code, line=b["line"], row=b["result"])
            if bad:
                run.violation("C15:row-of-other-combination", "%d of %d rows belong to another combination than the one they are listed with (%s mode, %d results)" % (bad, total, mode, n),
                              dict(query=q, results=n, mode=mode, example=example))
    finally:
        shutil.rmtree(root, ignore_errors=True)


def run(run):
    C.build_driver()
    h, d = C.Harness(), C.Driver()
    rng = run.rng
    quick = run.depth == "quick"
    stats = collections.Counter()
    mism = []
    jmism = []
    big = "class Big { String big = \"%s\"; int small = 1; }\n" % ("long value 0123456789 " * 70)
    proj = E.small_project(rng, h, nfiles=1, extra={"src/Nasty.java": NASTY, "src/Big.java": big})
    outdir = C.scratch("c15out")
    try:
        kinds = [k for k in QG.KINDS_DEFAULT if proj.by_kind.get(k)] + ["block_comment"]
        nq = 18 if quick else 150
        for qi in range(nq):
            q = QG.random_query(rng, kinds=[k for k in kinds if k != "block_comment"], values=proj.values, depth=1,
                                n_entities=rng.choice([1, 1, 2]), n_preds=0)
            if qi % 5 == 0:
                q = QG.random_query(rng, kinds=["variable_declaration"], values=proj.values, depth=0, n_entities=1, n_preds=0, where=False)
            if qi % 7 == 3:
                text = 'FROM block_comment AS c SELECT c, "lit <&> \\"q\\" \\\\ ü"'
                if qi == 3:
                    # always: a literal with runes that have no visible form (DEL, ESC, NBSP, a zero-width joiner): verbatim in every mode
                    text = 'FROM variable_declaration AS v SELECT v.getName(), "np \x7f|\x1b[1m|\u00a0|\u200d|\x01 end", v.getScope()'
                q = None
            elif qi % 9 == 6:
                # the same item more than once in the SELECT list: one value per item all the same
                k9 = rng.choice([k for k in ("method_declaration", "class_declaration", "variable_declaration") if proj.by_kind.get(k)])
                text = rng.choice(['FROM %s AS e SELECT e.getName(), "-", e.getName()', 'FROM %s AS e SELECT e.getName(), "|", e.getVisibility(), "|"',
                                   'FROM %s AS e SELECT "x", "x"', 'FROM %s AS e SELECT e, e.getName(), e',
                                   # an item that cannot be evaluated (no such accessor) keeps its place in every row
                                   'FROM %s AS e SELECT e.getName(), e.getNoSuchThing(), "lit", e.getVisibility()',
                                   'FROM %s AS e SELECT e.getNoSuchThing(), e.getName()']) % k9
                if qi == 6:
                    text = 'FROM %s AS e SELECT e.getName(), e.getNoSuchThing(), "lit", e.getVisibility()' % k9
                stats["repeated_select_items"] += 1
                q = None
            elif qi % 9 == 4:
                # cells of more than a kilobyte: a long literal, a long attribute value, the description of an entity with one
                text = rng.choice(['FROM variable_declaration AS v WHERE v.getScope() == "field" SELECT v.getName(), "%s", v.getVariableValue()' % ("é long literal " * 110),
                                   'FROM variable_declaration AS v WHERE v.getScope() == "field" SELECT v, v.getVariableValue()',
                                   'FROM class_declaration AS c SELECT "%s", c.getName()' % ("0123456789" * 130)])
                stats["long_cell_queries"] += 1
                q = None
            elif qi % 6 == 2:
                # a run of string literals first, then one to three evaluated items: every row keeps its own entity's
                # values behind the literals (3, 5..7, 9..15 literals leave spare capacity in a slice grown by doubling)
                k6 = rng.choice([k for k in ("method_declaration", "variable_declaration", "class_declaration") if len(proj.by_kind.get(k, [])) >= 2])
                nlit = 3 if qi == 2 else rng.choice([5, 6, 7]) if qi == 8 else rng.choice([1, 2, 3, 4, 5, 7, 9, 11, 13, 15])
                tail = [["e.getName()"], ["e.getName()", "e.getVisibility()"], ["e", "e.getName()"], ["e.getName()", "e", "e.getName()"]][0 if qi in (2, 8) else rng.randrange(4)]
                text = "FROM %s AS e SELECT %s" % (k6, ", ".join(['"lit%d"' % i for i in range(nlit)] + tail))
                stats["leading_literal_queries"] += 1
                q = None
            elif qi % 3 == 1:
                # two entities whose aliases are textually related (prefix / suffix / substring of one another),
                # items on both, in both orders: each cell must come from its own alias' entity
                a1, a2 = rng.choice([("c", "cm"), ("cm", "c"), ("md", "md2"), ("x", "x1"), ("k", "kind"), ("Name", "getName"), ("a", "ba"), ("n", "n_")])
                k1, k2 = rng.sample([k for k in ("class_declaration", "method_declaration", "variable_declaration") if proj.by_kind.get(k)], 2)
                items = [a2 + ".getName()", a1 + ".getName()", a2, a1 + ".getVisibility()", a2 + ".getVisibility()"]
                rng.shuffle(items)
                text = "FROM %s AS %s, %s AS %s SELECT %s" % (k1, a1, k2, a2, ", ".join(items[:rng.randint(2, 5)]))
                q = None
            else:
                text = QG.plain(q)
            pr = h.call(op="parse", q=text)
            if pr.get("outcome") != "ok":
                run.violation("C15:valid-query-rejected", "generated query rejected: %r" % text, dict(query=text))
                continue
            from_kinds = [e for e, _ in pr["from"]]
            size = 1
            for k in from_kinds:
                size *= max(1, len(proj.by_kind.get(k, [])))
            if size > 700:
                stats["skipped_large"] += 1
                continue
            sel = pr["select"]
            # the number of SELECT items as written (not as the parser under test counts them)
            nsel = len(q.select_items) if q is not None else count_select_items(text)
            if len(sel) != nsel:
                run.violation("C15:select-items-lost", "the SELECT list of %r has %d items, the parsed query keeps %d" % (text[:200], nsel, len(sel)), dict(query=text, kept=sel))
                continue
            layout = d.call("output", text)
            # ---- run all modes
            base = ["query", "--project", proj.dir, "--query", text, "--disable-metrics"]
            jf, tf = os.path.join(outdir, "o.json"), os.path.join(outdir, "o.txt")
            runs = {}
            for name, args in [("json", ["--output", "json"]), ("json-file", ["--output", "json", "--output-file", jf]),
                               ("text", []), ("text-file", ["--output-file", tf]),
                               ("json-verbose", ["--output", "json", "--verbose"]), ("text-verbose", ["--verbose"])]:
                for f in (jf, tf):
                    if os.path.exists(f):
                        os.remove(f)
                if stats["cli_runs"] % 12 >= 6:
                    # the output file already exists and holds a longer, older report (re-running into the same path)
                    stale = json.dumps({"result_set": [{"file": "/old/Stale.java", "line": 7, "code": "stale " * 40}] * 60, "output": [["stale"]] * 60})
                    open(jf, "w").write(stale)
                    open(tf, "w").write("\tFile: /old/Stale.java, Line: 7 \n\tResult: stale \n\n\t\t 7 | stale\n" * 300)
                    stats["runs_into_existing_longer_file"] += 1
                rc, so, se = C.cli(base + args, timeout=120)
                content = None
                if name == "json-file" and os.path.exists(jf):
                    content = open(jf, "rb").read().decode("utf-8", "replace")
                if name == "text-file" and os.path.exists(tf):
                    content = open(tf, "rb").read().decode("utf-8", "replace")
                runs[name] = (rc, so, se, content)
                stats["cli_runs"] += 1
                if rc != 0:
                    run.violation("C15:cli-failed", "CLI exits %s in mode %s for %r" % (rc, name, text), dict(query=text, mode=name, stderr=se[-500:].decode("utf-8", "replace")))
            run.count(("query", text))
            # ---- JSON documents
            docs = {}
            for name in ("json", "json-file", "json-verbose"):
                raw = runs[name][3] if name == "json-file" else last_json(runs[name][1])
                try:
                    docs[name] = json.loads(raw)
                    json_document_correspondence(run, d, raw, stats, jmism, name)
                except Exception as ex:
                    run.violation("C15:bad-json", "mode %s does not give a single well-formed JSON document for %r" % (name, text),
                                  dict(query=text, mode=name, raw=(raw or "")[:600], java=E.java_files(proj)))
            if "json" not in docs:
                continue
            js = docs["json"]
            rs, rows = js.get("result_set", []), js.get("output", [])
            ne = len(from_kinds)
            ntuples = len(rs) // ne if ne else 0
            # rows line up
            if len(rows) != ntuples or len(rs) != ntuples * ne:
                run.violation("C15:row-count", "%d output rows for %d combinations (%d result_set entries, %d entities) for %r" % (len(rows), ntuples, len(rs), ne, text),
                              dict(query=text, rows=len(rows), result_set=len(rs)))
                continue
            exp_layout = layout[1:] if layout[0] == "ok" else None
            for i, row in enumerate(rows):
                if len(row) != len(sel):
                    run.violation("C15:row-arity", "row %d has %d values for %d SELECT items in %r" % (i, len(row), len(sel), text), dict(query=text, row=row))
                    break
                if exp_layout is not None and len(exp_layout) != len(row):
                    mism.append(dict(query=text, model_layout=exp_layout, row=row))
                    break
                members = rs[i * ne:(i + 1) * ne]
                # identify the entities of this combination
                ents = []
                for k, e in zip(from_kinds, members):
                    cands = [n for n in proj.by_kind.get(k, []) if n["file"] == e["file"] and n["line"] == e["line"] and n["snippet"] == e["code"]]
                    ents.append(cands)
                    if not cands:
                        run.violation("C15:snippet-not-preserved", "result_set entry does not match any scanned %s entity byte for byte (file/line/code) in %r" % (k, text),
                                      dict(query=text, entry=e, java=E.java_files(proj)))
                aliases = [a for _, a in pr["from"]]
                for j, ((ty, stext), val) in enumerate(zip(sel, row)):
                    if exp_layout is not None:
                        ml = exp_layout[j]
                        if ty == "string" and ml != "lit:" + val:
                            mism.append(dict(query=text, model=ml, real=val))
                    if ty == "string":
                        if val != stext[1:-1]:
                            run.violation("C15:literal-not-verbatim", "string item %s is reported as %r in %r" % (stext, val, text), dict(query=text, item=stext, value=val))
                    elif ty == "method_chain":
                        m = re.match(r"^(\w+)\.(\w+)\(\)$", stext)
                        if m and m.group(1) in aliases and m.group(2) in QG.FIELD:
                            k = aliases.index(m.group(1))
                            want = {json.dumps(n.get(QG.FIELD[m.group(2)]) if n.get(QG.FIELD[m.group(2)]) is not None else []) for n in ents[k]}
                            got = json.dumps(val if val is not None else [])
                            if ents[k] and got not in want:
                                run.violation("C15:cell-of-wrong-entity", "row %d item %s = %s but that row's entity has %s in %r" % (i, stext, got, sorted(want), text),
                                              dict(query=text, row=i, item=stext, got=val, want=sorted(want), entity=members[k], java=E.java_files(proj)))
                            stats["cells_checked"] += 1
                    elif ty == "variable":
                        k = aliases.index(stext) if stext in aliases else None
                        if k is not None and ents[k]:
                            if not any(("Type: %s, Name: %s," % (n["type"], n["name"])) in str(val) for n in ents[k]):
                                run.violation("C15:description-of-wrong-entity", "row %d bare alias %s describes another entity in %r" % (i, stext, text),
                                              dict(query=text, value=str(val)[:300], entity=members[k]))
                            stats["cells_checked"] += 1
            # ---- every JSON mode reports the same rows for the same combinations
            # (a bare alias prints the entity with %+v: Javadoc tags appear as addresses, which differ from process to process)
            unptr = lambda t: re.sub(r"0x[0-9a-f]{6,}", "0xPTR", t)
            ref_rows = collections.Counter(unptr(json.dumps([rs[i * ne:(i + 1) * ne], rows[i]], sort_keys=True)) for i in range(ntuples)) if ne else collections.Counter()
            for name in ("json-file", "json-verbose"):
                dj = docs.get(name)
                if dj is None or not ne:
                    continue
                rs2, rows2 = dj.get("result_set", []), dj.get("output", [])
                if len(rs2) != len(rows2) * ne:
                    continue
                got_rows = collections.Counter(unptr(json.dumps([rs2[i * ne:(i + 1) * ne], rows2[i]], sort_keys=True)) for i in range(len(rows2)))
                if got_rows != ref_rows:
                    ex = list((ref_rows - got_rows).elements())[:1] + list((got_rows - ref_rows).elements())[:1]
                    run.violation("C15:json-modes-differ", "mode %s reports other rows than plain JSON mode for %r (cells of up to %d bytes)" %
                                  (name, text[:200], max([len(str(c)) for row in rows for c in row] or [0])),
                                  dict(query=text, mode=name, example=[e[:600] for e in ex]))
            # ---- all modes describe the same locations
            locs = {}
            for name, doc in docs.items():
                locs[name] = collections.Counter((e["file"], e["line"]) for e in doc.get("result_set", []))
            for name in ("text", "text-file", "text-verbose"):
                raw = runs[name][3] if name == "text-file" else runs[name][1].decode("utf-8", "replace")
                blocks = parse_text(raw or "")
                locs[name] = collections.Counter((b["file"], b["line"]) for b in blocks)
                if ne == 1 and len(rows) == len(rs) and all(isinstance(c, str) and "\n" not in c and "\r" not in c for row in rows for c in row):
                    # the Result: line of every block is the row of that combination: each cell verbatim, then " | "
                    want_rows = collections.Counter((e["file"], e["line"], "".join(c + " | " for c in row)) for e, row in zip(rs, rows))
                    got_rows = collections.Counter((b["file"], b["line"], b["result"]) for b in blocks)
                    stats["text_rows_compared"] += len(blocks)
                    if want_rows != got_rows:
                        diff = list((want_rows - got_rows).elements())[:1] + list((got_rows - want_rows).elements())[:1]
                        run.violation("C15:text-row-differs", "mode %s prints other Result rows than the JSON rows of the same locations for %r, e.g. %r" % (name, text, diff),
                                      dict(query=text, mode=name, example=diff))
                if name == "text":
                    # numbering and snippet lines; runs are separate scans, so match blocks to entries by location
                    by_loc = collections.defaultdict(list)
                    for e in rs:
                        by_loc[(e["file"], e["line"])].append(e)
                    for b in blocks:
                        cands = by_loc.get((b["file"], b["line"]), [])
                        if not cands:
                            continue
                        nums = [n for n, _ in b["code"]]
                        texts = [t for _, t in b["code"]]
                        ok = False
                        for e in cands:
                            code_lines = e["code"].split("\n")
                            if nums == [e["line"] + i for i in range(len(code_lines))] and texts == code_lines:
                                ok = True
                        if not ok and not any("\r" in e["code"] for e in cands):
                            run.violation("C15:text-numbering", "text mode shows lines %s for an entity at line %d whose snippet has %d line(s) in %r" %
                                          (nums[:5], b["line"], len(cands[0]["code"].split("\n")), text),
                                          dict(query=text, block=b, entries=cands[:2]))
                            break
            ref = locs["json"]
            for name, c in locs.items():
                if c != ref:
                    run.violation("C15:modes-differ", "mode %s describes different locations than JSON mode for %r (%d vs %d)" % (name, text, sum(c.values()), sum(ref.values())),
                                  dict(query=text, mode=name, only_here=list((c - ref).elements())[:5], missing=list((ref - c).elements())[:5]))
            if qi < 3:
                run.sample(dict(query=text, combinations=ntuples, select=sel, first_row=rows[0] if rows else None))
    finally:
        proj.close()
        shutil.rmtree(outdir, ignore_errors=True)
        h.close()
        d.close()
    large_result_set(run, stats)
    run.extra["histogram"] = dict(stats)
    if mism:
        pass
    if jmism:
        run.broken_obligation("correspondence:json-document", "the JSON report and the Lean encoder disagree on %d documents, e.g. %s" % (len(jmism), json.dumps(jmism[:2])[:1500]))
    if mism:
        run.broken_obligation("correspondence:row-layout", "Lean model's row layout and the CLI's rows disagree: %s" % json.dumps(mism[:3])[:1200])
