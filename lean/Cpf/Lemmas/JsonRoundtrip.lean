import Cpf.Rules.Json

namespace Cpf.Rules.Json

theorem hexVal_hexDigit : ∀ k : Fin 16, hexVal (hexDigit k.val) = some k.val := by decide

theorem hexVal_hexDigit' (k : Nat) (h : k < 16) : hexVal (hexDigit k) = some k := hexVal_hexDigit ⟨k, h⟩

theorem unescape_u (n : Nat) (hn : n < 65536) (r t : List Char) (hr : unescape r = some t) :
    unescape ('\\' :: 'u' :: (hex4 n ++ r)) = some (Char.ofNat n :: t) := by
  simp only [hex4, List.cons_append, List.nil_append, unescape]
  rw [hexVal_hexDigit' _ (Nat.mod_lt _ (by decide)), hexVal_hexDigit' _ (Nat.mod_lt _ (by decide)),
      hexVal_hexDigit' _ (Nat.mod_lt _ (by decide)), hexVal_hexDigit' _ (Nat.mod_lt _ (by decide)), hr]
  have e : ((n / 4096 % 16 * 16 + n / 256 % 16) * 16 + n / 16 % 16) * 16 + n % 16 = n := by omega
  simp only [e]

theorem unescape_plain (c : Char) (r t : List Char) (hr : unescape r = some t)
    (h1 : c ≠ '\\') (h2 : c ≠ '"') (h3 : ¬ c.toNat < 0x20) : unescape (c :: r) = some (c :: t) := by
  rw [unescape.eq_def]
  split
  · rename_i heq; simp at heq
  · rename_i rest heq
    simp only [List.cons.injEq] at heq
    exact absurd heq.1 h1
  · rename_i c' r' hne heq
    simp only [List.cons.injEq] at heq
    obtain ⟨rfl, rfl⟩ := heq
    simp [h2, h3, hr]

theorem unescape_step (c : Char) (r t : List Char) (hr : unescape r = some t) :
    unescape (escChar c ++ r) = some (c :: t) := by
  unfold escChar
  by_cases h1 : c = '"'
  · subst h1; simp [unescape, hr]
  · by_cases h2 : c = '\\'
    · subst h2; simp [unescape, hr]
    · by_cases h3 : c = '\n'
      · subst h3; simp [unescape, hr]
      · by_cases h4 : c = '\r'
        · subst h4; simp [unescape, hr]
        · by_cases h5 : c = '\t'
          · subst h5; simp [unescape, hr]
          · by_cases h6 : c.toNat = 8
            · have : c = Char.ofNat 8 := by rw [← h6, Char.ofNat_toNat]
              subst this; simp [unescape, hr]
            · by_cases h7 : c.toNat = 12
              · have : c = Char.ofNat 12 := by rw [← h7, Char.ofNat_toNat]
                subst this; simp [unescape, hr]
              · simp only [h1, h2, h3, h4, h5, h6, h7, ↓reduceIte]
                by_cases h8 : needsU c = true
                · simp only [h8, ↓reduceIte]
                  have hn : c.toNat < 65536 := by
                    simp only [needsU, Bool.or_eq_true, decide_eq_true_eq] at h8
                    rcases h8 with ((((h | h) | h) | h) | h) | h
                    · omega
                    · subst h; decide
                    · subst h; decide
                    · subst h; decide
                    · omega
                    · omega
                  have := unescape_u c.toNat hn r t hr
                  rw [Char.ofNat_toNat] at this
                  simpa using this
                · simp only [h8, Bool.false_eq_true, ↓reduceIte, List.singleton_append]
                  apply unescape_plain c r t hr h2 h1
                  simp only [needsU, Bool.or_eq_true, decide_eq_true_eq, not_or] at h8
                  exact h8.1.1.1.1.1

/-- **JSON strings round-trip**: decoding the encoder's output gives the string back, for every Unicode string
    (quotes, backslashes, newlines, control characters, `<`, `>`, `&`, U+2028/2029, non-BMP characters …). -/
theorem json_roundtrip (s : List Char) : unescape (escape s) = some s := by
  induction s with
  | nil => rfl
  | cons c cs ih =>
      simp only [escape, List.flatMap_cons]
      exact unescape_step c _ cs ih

end Cpf.Rules.Json
