"""C06 — call, expression and statement attributes mirror the source.

Proof: Cpf.Props.C06 (operator -> kind table from the regenerated literals; attribute extraction over tree shapes).
Correspondence: exact — the Lean attribute model vs the real Node fields on the real tree (shared with C05).
Oracle: the generator's model of each call / object creation / binary expression / statement vs what the real
scanner extracted: all 19 operators, nested and parenthesised operands, 0..n arguments of every literal kind,
qualified and unqualified receivers, every statement form with and without its optional parts."""
import collections, json
from checks import c05
from vlib import genjava as G

LEAN_MODULES = ["Cpf.Props.C06"]

KINDS = ("method_invocation", "ClassInstanceExpr", "binary_expression", "IfStmt", "WhileStmt", "DoStmt", "ForStmt", "BreakStmt",
         "ContinueStmt", "YieldStmt", "AssertStmt", "ReturnStmt", "BlockStmt") + tuple(sorted(set(G.OP_KIND.values())))


def expected_vs_real(e, n):
    diffs = []

    def cmp(attr, want, got):
        if want != got:
            diffs.append((attr, want, got))
    k = e["kind"]
    src = e["_src"]
    if k == "method_invocation":
        cmp("name", e["name"], n["name"])
        cmp("arguments", e["args"], c05.norm_list(n["argValues"]))
    elif k == "ClassInstanceExpr":
        ci = n.get("classInst") or {}
        cmp("class name", e["className"], ci.get("name"))
        cmp("arguments", e["args"], [a["text"] for a in ci.get("args", [])])
        cmp("name", e["className"], n["name"])
    elif k == "binary_expression" or k in G.OP_KIND.values():
        b = n.get("binary") or {}
        cmp("operator", e["op"], b.get("op"))
        cmp("left operand", e["left"], b.get("left"))
        cmp("right operand", e["right"], b.get("right"))
        if k != "binary_expression":
            cmp("operator-specific kind", G.OP_KIND[e["op"]], n["type"])
    elif k == "IfStmt":
        s = n.get("if") or {}
        cmp("condition", e["cond"], s.get("cond"))
        cmp("then", src[e["then_span"][0]:e["then_span"][1]].decode("utf-8"), s.get("then"))
        cmp("else", src[e["else_span"][0]:e["else_span"][1]].decode("utf-8") if e["else_span"] else "", s.get("else"))
    elif k == "WhileStmt":
        cmp("condition", e["cond"], (n.get("while") or {}).get("cond"))
    elif k == "DoStmt":
        cmp("condition", e["cond"], (n.get("do") or {}).get("cond"))
    elif k == "ForStmt":
        s = n.get("for") or {}
        cmp("init", e["init"], s.get("init"))
        cmp("condition", e["cond"], s.get("cond"))
        cmp("update", e["incr"], s.get("incr"))
    elif k == "BreakStmt":
        cmp("label", e["label"], (n.get("break") or {}).get("label"))
    elif k == "ContinueStmt":
        cmp("label", e["label"], (n.get("continue") or {}).get("label"))
    elif k == "YieldStmt":
        cmp("value", e["value"], (n.get("yield") or {}).get("value"))
    elif k == "AssertStmt":
        s = n.get("assert") or {}
        cmp("expression", e["expr"], s.get("expr"))
        cmp("message", e["msg"], s.get("msg"))
    elif k == "ReturnStmt":
        cmp("result", e["result"], (n.get("return") or {}).get("result"))
    elif k == "BlockStmt":
        want = [src[a:b].decode("utf-8") for a, b in e["stmt_spans"]]
        got = (n.get("block") or {}).get("stmts")
        # the recorded finding is that the braces are listed as statements; anything else that differs is another matter
        if isinstance(got, list) and len(got) >= 2 and got[0] == "{" and got[-1] == "}" and got[1:-1] != want:
            cmp("statements-between-braces", want, got[1:-1])
        else:
            cmp("statements", want, got)
    return diffs


def run(run):
    # the generator's entities carry byte spans; give the comparison access to the source bytes
    orig = G.Gen.file

    def file_with_src(self, clsbase="K"):
        text, ents = orig(self, clsbase)
        b = text.encode("utf-8")
        for e in ents:
            e["_src"] = b
        return text, ents
    G.Gen.file = file_with_src
    try:
        c05.run(run, kinds=KINDS, pid="C06", compare=expected_vs_real)
        long_texts(run)
    finally:
        G.Gen.file = orig


def long_texts(run):
    """statements, operands, arguments and conditions of several kilobytes: their texts are the source text, whole"""
    from vlib import common as C, scan as S
    h = C.Harness()
    try:
        for size in ([9000] if run.depth == "quick" else [4200, 9000, 70000]):
            n = size // 12
            big_sum = "pick(" + ", ".join("t[%d]" % j for j in range(n)) + ")"       # ~ size bytes, one (flat) expression
            big_lit = '"' + ("lorem ipsum %d " * (size // 16)) % tuple(range(size // 16)) + '"'
            s1 = "int first = 1;"
            s2 = "if (first > 0) { " + " ".join("emit(%d);" % j for j in range(n)) + " }"
            s3 = "log(" + big_lit + ", first);"
            s4 = "return " + big_sum + ";"
            src = ("class Long {\n  int[] t;\n  int table() {\n    %s\n    %s\n    %s\n    %s\n  }\n  void emit(int x) { }\n  void log(String a, int b) { }\n  int pick(int... xs) { return 0; }\n}\n" % (s1, s2, s3, s4)).encode()
            real = S.real_build(h, src, "long/Long.java", timeout=300)
            run.count(("long-texts", size))
            if real.get("outcome") != "ok":
                run.violation("C06:scan-" + str(real.get("outcome")), "building the graph of a source with statements of %d bytes ends with %s" % (size, real.get("outcome")), dict(size=size))
                continue
            # (a block lists its braces as statements: the recorded finding C06 block braces; the statements are what is between them)
            def inner(x):
                st = (x.get("block") or {}).get("stmts") or []
                return st[1:-1] if len(st) >= 2 and st[0] == "{" and st[-1] == "}" else st
            blocks = [x for x in real["nodes"] if x["type"] == "BlockStmt" and len(inner(x)) == 4]
            got = inner(blocks[0]) if blocks else None
            if got != [s1, s2, s3, s4]:
                bad = [i for i, (a, b) in enumerate(zip(got or [], [s1, s2, s3, s4])) if a != b]
                run.violation("C06:BlockStmt:long-statement", "a block whose statements are %s bytes long: statement(s) %s are reported with %s bytes" %
                              ([len(x) for x in (s1, s2, s3, s4)], bad, [len(x) for x in (got or [])]), dict(size=size, generator="checks/c06.py long_texts"))
            rets = [x for x in real["nodes"] if x["type"] == "ReturnStmt" and (x.get("return") or {}).get("result") is not None]
            if not any((x["return"]["result"] or "") == big_sum for x in rets):
                run.violation("C06:ReturnStmt:result", "a returned expression of %d bytes is not reported whole (reported lengths %s)" % (len(big_sum), [len(x["return"]["result"] or "") for x in rets]),
                              dict(size=size, generator="checks/c06.py long_texts"))
            calls = [x for x in real["nodes"] if x["type"] == "method_invocation" and x["name"] == "log"]
            if not calls or (calls[0].get("argValues") or [None])[0] not in (big_lit, big_lit[1:-1]):
                run.violation("C06:method_invocation:arguments", "a literal argument of %d bytes is not reported whole (reported %s bytes)" %
                              (len(big_lit), len((calls[0].get("argValues") or [""])[0]) if calls else None), dict(size=size, generator="checks/c06.py long_texts"))
            ifs = [x for x in real["nodes"] if x["type"] == "IfStmt"]
            if not ifs or not (ifs[0].get("if") or {}).get("then", "").startswith("{ emit(0);") or len(ifs[0]["if"]["then"]) != len(s2) - len("if (first > 0) "):
                run.violation("C06:IfStmt:then", "the then-branch of %d bytes is not reported whole (reported %s bytes)" %
                              (len(s2) - len("if (first > 0) "), len((ifs[0].get("if") or {}).get("then", "")) if ifs else None), dict(size=size, generator="checks/c06.py long_texts"))
        # jumps out of nested labelled statements: the label is the one written in the jump
        lab = ("class J {\n  void m(int n) {\n    outer:\n    for (int i = 0; i < n; i++) {\n      middle:\n      for (int j = 0; j < n; j++) {\n        inner:\n        while (j < n) {\n"
               "          if (i == 1) { break outer; }\n          if (i == 2) { continue outer; }\n          if (i == 3) { break middle; }\n          if (i == 4) { continue middle; }\n"
               "          if (i == 5) { break inner; }\n          if (i == 6) { continue inner; }\n          if (i == 7) { break; }\n          if (i == 8) { continue; }\n          j++;\n        }\n      }\n    }\n  }\n}\n").encode()
        real = S.real_build(h, lab, "j/J.java", timeout=120)
        run.count(("nested-labels", 1))
        if real.get("outcome") == "ok":
            for x in real["nodes"]:
                if x["type"] in ("BreakStmt", "ContinueStmt"):
                    key = "break" if x["type"] == "BreakStmt" else "continue"
                    words = x["snippet"].rstrip(";").split()
                    want = words[1] if len(words) > 1 else ""
                    got = (x.get(key) or {}).get("label") or ""
                    if got != want:
                        run.violation("C06:%s:label" % x["type"], "`%s` at line %d inside three nested labelled statements is reported with label %r" % (x["snippet"], x["line"], got),
                                      dict(source=lab.decode(), line=x["line"], generator="checks/c06.py long_texts"))
                        break
        # literal arguments whose content begins or ends with an escaped quote, is empty, or is one escaped quote
        lits = ['\\"quoted\\"', 'ends with \\"', '\\"starts', '\\"', '', 'a\\"b', '\\\\', 'tab\\t', "it's", '\\"\\"']
        src = ("class Q {\n  void m() {\n" + "".join('    log("%s", %d);\n' % (l, i) for i, l in enumerate(lits)) + "  }\n  void log(String a, int b) { }\n}\n").encode()
        real = S.real_build(h, src, "q/Q.java", timeout=120)
        run.count(("literal-arguments", len(lits)))
        if real.get("outcome") == "ok":
            calls = sorted([x for x in real["nodes"] if x["type"] == "method_invocation" and x["name"] == "log"], key=lambda x: x["line"])
            for l, x in zip(lits, calls):
                if (x.get("argValues") or [None])[0] != l:
                    run.violation("C06:method_invocation:arguments", "the literal argument \"%s\" at line %d is reported as %r (the text between its quotes is %r)" % (l, x["line"], (x.get("argValues") or [None])[0], l),
                                  dict(source=src.decode(), line=x["line"], generator="checks/c06.py long_texts"))
                    break
        else:
            run.violation("C06:scan-" + str(real.get("outcome")), "building the graph of the literal-argument source ends with %s" % real.get("outcome"), dict(source=src.decode()))
    finally:
        h.close()
