/-
  C02 — no spurious or duplicated matches; a query without WHERE reports exactly the cross product.
-/
import Cpf.Props.C01

namespace Cpf.Props.C02
open Cpf.Query Cpf.Props.C01

/-- **C02 (sound)**: every reported combination consists of entities of the project, of the FROM kinds in
    FROM order, and makes the condition true. (No hypothesis on `compiles`: a condition that fails to
    compile rejects every combination.) -/
theorem C02_sound (ρ : Nat → Tuple → Res) (g : List Node) (q : EQuery) (t : Tuple)
    (h : t ∈ queryEntities ρ g q) : InCross g q.kinds t ∧ Holds ρ q t := by
  unfold queryEntities at h
  rw [List.mem_filter] at h
  refine ⟨(mem_generate g q.kinds t).1 h.1, ?_⟩
  have h2 := h.2
  unfold filterEntities at h2
  unfold Holds
  cases hq : q.cond with
  | none => trivial
  | some c =>
      rw [hq] at h2
      simp at h2
      exact h2.2

theorem nodup_candidates (g : List Node) (hg : g.Nodup) (k : String) : (candidates g k).Nodup :=
  List.Nodup.sublist List.filter_sublist hg

/-- **C02 (exactly once)**: if the graph lists each entity once, each qualifying combination is reported once. -/
theorem C02_nodup (ρ : Nat → Tuple → Res) (g : List Node) (q : EQuery) (hg : g.Nodup) :
    (queryEntities ρ g q).Nodup := by
  unfold queryEntities generateCartesianProduct
  apply List.Nodup.sublist List.filter_sublist
  apply nodup_cartesianProduct
  intro s hs
  simp only [List.mem_map] at hs
  obtain ⟨k, _, rfl⟩ := hs
  exact nodup_candidates g hg k

/-- **C02 (no WHERE)**: exactly the cross product of the requested kinds. -/
theorem C02_no_where (ρ : Nat → Tuple → Res) (g : List Node) (kinds : List String) (b : Bool) :
    queryEntities ρ g ⟨kinds, none, b⟩ = generateCartesianProduct g kinds := by
  unfold queryEntities
  simp [filterEntities]

theorem C02_no_where_mem (ρ : Nat → Tuple → Res) (g : List Node) (kinds : List String) (b : Bool) (t : Tuple) :
    t ∈ queryEntities ρ g ⟨kinds, none, b⟩ ↔ InCross g kinds t := by
  rw [C02_no_where, mem_generate]

/-- A condition that does not compile reports nothing. -/
theorem C02_compile_error (ρ : Nat → Tuple → Res) (g : List Node) (kinds : List String) (c : Cond) :
    queryEntities ρ g ⟨kinds, some c, false⟩ = [] := by
  unfold queryEntities
  simp [filterEntities]

/-- Non-vacuity: two kinds, FROM order respected (method first, class second). -/
example :
    let g : List Node := [⟨1, "m"⟩, ⟨2, "c"⟩, ⟨3, "m"⟩]
    queryEntities (fun _ _ => .tt) g ⟨["m", "c"], none, true⟩ = [[⟨1, "m"⟩, ⟨2, "c"⟩], [⟨3, "m"⟩, ⟨2, "c"⟩]] := by
  decide

end Cpf.Props.C02
