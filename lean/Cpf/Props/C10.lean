/-
  C10 — any query string gets results or a diagnostic, never a crash; the console keeps going.

  The model carries every partial Go operation of the query path explicitly (`Outcome.panic`):
  the listener's unchecked child accesses. The rest of the pipeline (predicate expansion, condition
  structure, cartesian product, filter) is total by construction after the `fix:` commits (bounds-checked
  parameter lists, checked boolean assertion, candidates per FROM item instead of a two-entity pre-filter,
  no log.Fatal in SELECT evaluation) — the Lean definitions of those are plain total functions, which is the
  statement that no input can make them end abnormally.

  * `C10_walk_total`: the listener never panics on a tree whose mandatory children are present (`wfTree`);
  * `C10_accepted_trees_wf`: every tree the recogniser returns for the generated grammar is such a tree
    (conformance of parse results + inversion of the rules involved); the driver still re-validates it on
    every accepted parse of every run (checks/c10.py);
  * `C10_prepare_total`: hence **no character string** makes the model's processQuery front end panic.
  * `C10_console_survives`: a session answers as many lines as were submitted before `:quit`, whatever the
    individual answers are (diagnostics included).
  Panics inside the ANTLR runtime, expr-lang or encoding/json are outside the model; they are searched
  for by the malformed-query stream and Go native fuzzing (thorough tier).
-/
import Cpf.Query.WF
import Cpf.Query.Cli
import Cpf.Lemmas.Console
import Cpf.Lemmas.Conform

namespace Cpf.Props.C10
open Cpf.Query Cpf.Go Cpf.Generated

theorem selectItems_ok (l : List PT)
    (h : ∀ it ∈ l, ((it.child? "entity").isSome && (it.child? "alias").isSome) = true) :
    ∃ xs, selectItems l = .ok xs := by
  induction l with
  | nil => exact ⟨[], rfl⟩
  | cons it rest ih =>
      have hit := h it (by simp)
      simp only [Bool.and_eq_true] at hit
      obtain ⟨e, he⟩ := Option.isSome_iff_exists.1 hit.1
      obtain ⟨a, ha⟩ := Option.isSome_iff_exists.1 hit.2
      obtain ⟨xs, hxs⟩ := ih (fun x hx => h x (by simp [hx]))
      simp only [selectItems, he, ha, hxs]; exact ⟨_, rfl⟩

theorem declParams_ok (l : List PT)
    (h : ∀ q ∈ l, ((q.child? "type").isSome && (firstLeaf? q "IDENTIFIER").isSome) = true) :
    ∃ xs, declParams l = .ok xs := by
  induction l with
  | nil => exact ⟨[], rfl⟩
  | cons q rest ih =>
      have hq := h q (by simp)
      simp only [Bool.and_eq_true] at hq
      obtain ⟨t, ht⟩ := Option.isSome_iff_exists.1 hq.1
      obtain ⟨i, hi⟩ := Option.isSome_iff_exists.1 hq.2
      obtain ⟨xs, hxs⟩ := ih (fun x hx => h x (by simp [hx]))
      simp only [declParams, ht, hi, hxs]; exact ⟨_, rfl⟩

/-- Entering a node whose mandatory children are present never panics (it returns a state). -/
theorem enterRule_ok (p : PT) (s : LState) (h : nodeOk p = true) : ∃ s', enterRule p s = .ok s' := by
  cases p with
  | leaf t => exact ⟨s, rfl⟩
  | node rule cs =>
    unfold enterRule
    simp only
    by_cases h1 : rule = "query"
    · simp only [h1, ↓reduceIte]; split <;> exact ⟨_, rfl⟩
    · by_cases h2 : rule = "select_expression"
      · simp only [h1, h2, ↓reduceIte]; exact ⟨_, rfl⟩
      · by_cases h3 : rule = "select_list"
        · subst h3
          simp [nodeOk] at h
          obtain ⟨xs, hxs⟩ := selectItems_ok _ (by simpa using h)
          simp only [h1, h2, ↓reduceIte, hxs]; exact ⟨_, rfl⟩
        · by_cases h4 : rule = "predicate_invocation"
          · subst h4
            simp [nodeOk] at h
            obtain ⟨n, hn⟩ := Option.isSome_iff_exists.1 h
            simp only [h1, h2, h3, ↓reduceIte, hn]; exact ⟨_, rfl⟩
          · by_cases h5 : rule = "predicate_declaration"
            · subst h5
              simp [nodeOk] at h
              obtain ⟨n, hn'⟩ := Option.isSome_iff_exists.1 h.1.1
              obtain ⟨b, hb'⟩ := Option.isSome_iff_exists.1 h.1.2
              have hp := h.2
              simp only [h1, h2, h3, h4, ↓reduceIte, hn', hb']
              cases hpl : (PT.node "predicate_declaration" cs).child? "parameter_list" with
              | none => exact ⟨_, rfl⟩
              | some pl =>
                  rw [hpl] at hp
                  obtain ⟨ps, hps⟩ := declParams_ok _ (by simpa using hp)
                  simp only [hps]; exact ⟨_, rfl⟩
            · simp only [h1, h2, h3, h4, h5, ↓reduceIte]
              split
              · split <;> exact ⟨_, rfl⟩
              · exact ⟨_, rfl⟩

mutual
theorem walk_ok : ∀ (p : PT) (s : LState), wfTree p = true → ∃ s', walk p s = .ok s'
  | .leaf _, s, _ => ⟨s, rfl⟩
  | .node r cs, s, h => by
      simp only [wfTree, Bool.and_eq_true] at h
      obtain ⟨s1, h1⟩ := enterRule_ok (.node r cs) s h.1
      obtain ⟨s2, h2⟩ := walkList_ok cs s1 h.2
      exact ⟨exitRule (.node r cs) s2, by simp [walk, h1, h2]⟩
theorem walkList_ok : ∀ (ps : List PT) (s : LState), wfList ps = true → ∃ s', walkList ps s = .ok s'
  | [], s, _ => ⟨s, rfl⟩
  | c :: cs, s, h => by
      simp only [wfList, Bool.and_eq_true] at h
      obtain ⟨s1, h1⟩ := walk_ok c s h.1
      obtain ⟨s2, h2⟩ := walkList_ok cs s1 h.2
      exact ⟨s2, by simp [walkList, h1, h2]⟩
end

/-- **C10 (listener)**: on every well-formed tree the walk returns a state — no nil dereference. -/
theorem C10_walk_total (p : PT) (s : LState) (h : wfTree p = true) : (walk p s).isPanic = false := by
  obtain ⟨s', hs⟩ := walk_ok p s h
  simp [hs, Outcome.isPanic]

/-- The hypothesis the driver re-validates on every accepted input. -/
def AcceptedTreesWF : Prop :=
  ∀ ts : List Token, ∀ t ∈ parsesOf grammar (fuelFor ts) startRule ts, wfTree t = true

/-- **C10 (front end)**: no character string makes `processQuery`'s front end (lexer, parser, listener,
    predicate expansion, condition structure) end abnormally: it is `ok` or a diagnostic. -/
theorem C10_prepare_total_partial (hwf : AcceptedTreesWF) (cs : List Char) : (prepare cs).isPanic = false := by
  unfold prepare
  split
  · rename_i ts _
    unfold prepareTokens parseQueryTokens
    cases hh : (parsesOf grammar (fuelFor ts) startRule ts).head? with
    | none => rfl
    | some tree =>
        have hm : tree ∈ parsesOf grammar (fuelFor ts) startRule ts := List.mem_of_head? hh
        obtain ⟨s', hs⟩ := walk_ok tree {} (hwf ts tree hm)
        simp only [hs]
        split <;> rfl
  · rfl

/-- Every tree the recogniser returns for the grammar generated from Query.g4 has the children the listener
    dereferences (`Lemmas/Conform`: parse results conform to the grammar; inversion of the four rules involved,
    which are looked up in the *regenerated* grammar by `decide`). -/
theorem C10_accepted_trees_wf : AcceptedTreesWF := by
  intro ts t ht
  exact accepted_trees_wf _ _ ts t ht

/-- **C10 (front end), unconditional**: no character string makes the model of lexer + parser + listener +
    predicate expansion + condition structure end abnormally. -/
theorem C10_prepare_total (cs : List Char) : (prepare cs).isPanic = false :=
  C10_prepare_total_partial C10_accepted_trees_wf cs

/-- **C10 (console)**: the session answers every complete line submitted before `:quit`, whatever each
    answer is (results or a diagnostic) and however stdin delivers the bytes. -/
theorem C10_console_survives (answer : List Char → String) (chunks : List (List Char)) :
    (Console.console answer (chunks.flatten.length + 1) ⟨[], chunks⟩).length
      = ((Console.linesOf (chunks.flatten.length + 1) chunks.flatten).takeWhile (fun l => !Console.isQuit l)).length := by
  rw [Console.console_flat]
  simp

/-- Non-vacuity: a well-formed tree with a predicate call *without* arguments (the shape that crashed the
    pinned tree) walks fine. -/
example :
    (walk (.node "predicate_invocation" [.node "predicate_name" [.leaf ⟨"IDENTIFIER", "foo"⟩],
                                         .leaf ⟨"'('", "("⟩, .leaf ⟨"')'", ")"⟩]) {}).isOk = true := by
  decide

end Cpf.Props.C10
