/-
  C08 — what is reported for a file depends only on that file (fault isolation).

  * `C08_isolation` (proved in Cpf.Props.C07 next to the merge lemmas, restated here): in the merged project
    graph, every identity of a file's own graph is bound to exactly what that file's graph binds it to —
    whatever other per-file graphs are merged, in whatever order, including none. Together with
    `C07_merge_edges` (links are the concatenation of the per-file links) this is "the entities and call
    links reported for a file depend only on that file".
  * the per-file graph itself is a function of (path, bytes) only: `buildGraph t src file` has no other input
    (the model's type), and the regenerated identity formats all mention the file (`C07_ids_file_scoped`).
  * faults: which files take part at all is decided by getFiles / readFile; an unreadable or unparsable file
    contributes *no* per-file graph (`skipFaulty`), and removing members from the list of per-file graphs keeps
    `DisjointIds` (`disjoint_sublist`), so isolation holds for the remaining files. The directory walk (an
    unreadable sub-directory is skipped, after the `fix:`) is exercised with real permission faults as a
    non-root user in checks/c08.py; filepath.Walk itself is modelled-not-verified.
  * the goroutine pool (`Cpf.Scan.PoolF`, file-carrying transition system): `C08_scan` — under every schedule and
    whatever the siblings are, a readable file is merged exactly once and its identities are bound to its own
    graph's bindings. A worker that gives up on a file goes back to the loop head (`fail`), as the regenerated
    control shape `C07_pool_shape` says (`if[continue]`).
-/
import Cpf.Props.C07
import Cpf.Scan.Attrs
import Cpf.Lemmas.Walk

namespace Cpf.Props.C08
open Cpf.Scan.Merge Cpf.Props.C07

variable {Id V E : Type} [DecidableEq Id]

/-- **C08**: adding, removing or reordering other files never changes what is bound for this file's identities. -/
theorem C08_isolation (ls : List (Local Id V E)) (hd : DisjointIds ls) (l : Local Id V E) (hl : l ∈ ls)
    (i : Id) (hi : i ∈ ids l) : lookup (merge ls).nodes i = lookup l.nodes i :=
  Cpf.Props.C07.C08_isolation ls hd l hl i hi

/-- in particular the same as scanning the file alone -/
theorem C08_same_as_alone (ls : List (Local Id V E)) (hd : DisjointIds ls) (l : Local Id V E) (hl : l ∈ ls)
    (i : Id) (hi : i ∈ ids l) (hl1 : (ids l).Nodup) :
    lookup (merge ls).nodes i = lookup (merge [l]).nodes i := by
  rw [C08_isolation ls hd l hl i hi]
  have : DisjointIds [l] := by simpa [DisjointIds] using hl1
  rw [C08_isolation [l] this l (by simp) i hi]

/-- **what `DisjointIds` rests on.** Identities are SHA-256 of `kind ++ text ++ path` (no separator). Two entities of
    different files with one pre-image exist only when one file's path is a proper suffix of the other's — for the
    absolute paths of one scan: a directory chain inside the project that repeats the project's own absolute path.
    That contrived layout really collides on the unchanged tree (recorded finding C08:path-suffix-collision);
    everywhere else the identities of different files are disjoint, up to SHA-256 collisions. -/
theorem C08_collision_needs_suffix_path (k c₁ f₁ c₂ f₂ : List Char) (h : k ++ c₁ ++ f₁ = k ++ c₂ ++ f₂) (hne : f₁ ≠ f₂) :
    (∃ t, t ≠ [] ∧ f₁ = t ++ f₂) ∨ (∃ t, t ≠ [] ∧ f₂ = t ++ f₁) := by
  rw [List.append_assoc, List.append_assoc] at h
  have h' := List.append_cancel_left h
  rcases List.append_eq_append_iff.1 h' with ⟨a, _, h2⟩ | ⟨a, _, h2⟩
  · left
    refine ⟨a, ?_, h2⟩
    intro ha; subst ha; exact hne (by simpa using h2)
  · right
    refine ⟨a, ?_, h2⟩
    intro ha; subst ha; exact hne (by simpa using h2.symm)

/-- the witness of the finding: root `/x`, `a/b` in `/x/x/X.java`, `a/b/x` in `/x/X.java` — one pre-image -/
example : "div_expression".toList ++ "a/b".toList ++ "/x/x/X.java".toList
        = "div_expression".toList ++ "a/b/x".toList ++ "/x/X.java".toList := by decide

/-- a file that cannot be read or parsed contributes nothing: the list of per-file graphs is filtered -/
def skipFaulty (results : List (Option (Local Id V E))) : List (Local Id V E) := results.filterMap id

theorem sublist_flatten {α : Type} {L L' : List (List α)} (h : L'.Sublist L) : L'.flatten.Sublist L.flatten := by
  induction h with
  | slnil => simp
  | cons a _ ih => simpa using List.Sublist.trans ih (List.sublist_append_right a _)
  | cons_cons a _ ih => simpa using List.Sublist.append (List.Sublist.refl a) ih

theorem disjoint_sublist (ls ls' : List (Local Id V E)) (h : ls'.Sublist ls) (hd : DisjointIds ls) : DisjointIds ls' := by
  unfold DisjointIds at *
  exact List.Nodup.sublist (sublist_flatten (h.map ids)) hd

/-- **C08 (faults)**: dropping the faulty files leaves every other file's entities untouched -/
theorem C08_faults (results : List (Option (Local Id V E))) (hd : DisjointIds (skipFaulty results))
    (l : Local Id V E) (hl : some l ∈ results) (i : Id) (hi : i ∈ ids l) :
    lookup (merge (skipFaulty results)).nodes i = lookup l.nodes i := by
  apply C08_isolation _ hd l _ i hi
  simp only [skipFaulty, List.mem_filterMap, id]
  exact ⟨some l, hl, rfl⟩

/-- **C08 (the whole scan)**: restated from `Cpf.Props.C07.C08_scan_isolation` — over the file-carrying model of
    the goroutine pool: for every list of files, every assignment of "can be read and parsed", every number of
    workers ≥ 1 and every schedule, the returned graph binds the identities of a readable file to what that
    file's own graph binds them to. -/
theorem C08_scan {F : Type} [DecidableEq F] (files : List F) (ok : F → Bool) (g : F → Local Id V E)
    (hd : DisjointIds ((files.filter ok).map g)) (w : Nat) (hw : 0 < w) (s : Cpf.Scan.PoolF.StF F)
    (hr : Cpf.Scan.PoolF.ReachF (srcCfg files.length) ok files w s) (hret : s.mainPc = 4)
    (f : F) (hf : f ∈ files) (hok : ok f = true) (i : Id) (hi : i ∈ ids (g f)) :
    lookup (merge (s.collected.map g)).nodes i = lookup (g f).nodes i :=
  Cpf.Props.C07.C08_scan_isolation files ok g hd w hw s hr hret f hf hok i hi

/-! ### file discovery (`getFiles` over `filepath.Walk`, `Cpf.Scan.Walk`) -/

open Cpf.Scan.Walk in
/-- **C08/C03 (discovery)**: for every directory tree — entries whose `lstat` fails, directories that cannot be
    listed, files of any name — `getFiles` returns exactly the `.java` files that can be reached through listable
    directories, and reports an error only when the root itself cannot be inspected or listed. -/
theorem C08_discovery (root : Path) (e : Ent) :
    (getFiles root e).1 = (if e.lstatErr then [] else javaFiles root e) ∧
    (getFiles root e).2 = (e.lstatErr || match e with | .dir _ _ readErr _ => readErr | _ => false) :=
  ⟨getFiles_eq root e, getFiles_err root e⟩

open Cpf.Scan.Walk in
/-- **C08 (discovery is monotone)**: a file discovered in a directory is still discovered after any entries —
    empty files, unreadable files, unlistable directories, anything — are added before, between or after its
    siblings. -/
theorem C08_discovery_monotone (path : Path) (pre post xs ys : List Ent) (f : Path)
    (h : f ∈ javaFilesKids path (pre ++ post)) : f ∈ javaFilesKids path (xs ++ pre ++ ys ++ post) :=
  javaFilesKids_insert path pre post xs ys f h

/-- Regenerated: the decisions of the callback `getFiles` hands to `filepath.Walk` are the ones `getFilesCb` models:
    the root's own error is returned, an unreadable directory below the root is skipped (SkipDir), any other
    unreadable entry is passed over (nil), a regular entry is kept iff its extension is `.java`, and nothing else
    returns anything but nil. -/
theorem C08_walk_callback :
    Cpf.Generated.getFilesCallback =
      ["walk:filepath.Walk(directory)", "if:err != nil", "if:path == directory", "return:err",
       "if:info != nil && info.IsDir()", "return:filepath.SkipDir", "return:nil",
       "if:!info.IsDir()", "if:filepath.Ext(path) == \".java\"", "append:files<-path", "return:nil"] := by decide

open Cpf.Scan.Walk in
/-- Non-vacuity: an empty file, an entry whose lstat fails, an unlistable directory and a nested readable one. -/
example :
    getFiles ["p"] (.dir "p" false false [.file "A.java" false, .file "Gone.java" true, .file "notes.txt" false,
                    .dir "locked" false true [.file "U.java" false], .dir "src" false false [.file "F.java" false, .file "x.JAVA" false]])
      = ([["p", "A.java"], ["p", "src", "F.java"]], false) := by decide

/-- what the declaration x invocation pass derives for a method (`hasAccess`) is decided by the calls of the same
    file's tree alone: it holds exactly when that tree has a call with the method's name and parameter count -/
theorem C08_hasAccess_file_local (src : Cpf.Scan.Bytes) (t : Cpf.Scan.T) (name : Cpf.Scan.Bytes) (k : Nat) :
    Cpf.Scan.hasAccess (Cpf.Scan.callSigs src t) name k = true ↔ (name, k) ∈ Cpf.Scan.callSigs src t := by
  unfold Cpf.Scan.hasAccess
  simp only [List.any_eq_true, Bool.and_eq_true, beq_iff_eq]
  constructor
  · rintro ⟨⟨a, b⟩, hm, h1, h2⟩
    simp only at h1 h2
    subst h1; subst h2; exact hm
  · intro h; exact ⟨(name, k), h, rfl, rfl⟩

/-- Non-vacuity: F merged with a sibling and a faulty file. -/
example :
    let f : Local Nat String Nat := ⟨[(1, "f1"), (2, "f2")], [7]⟩
    let s : Local Nat String Nat := ⟨[(3, "s3")], []⟩
    lookup (merge (skipFaulty [some s, none, some f])).nodes 2 = some "f2" ∧ lookup (merge [f]).nodes 2 = some "f2" := by
  decide

end Cpf.Props.C08
