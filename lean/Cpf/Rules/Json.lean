/-
  Go's encoding/json string encoding (with HTML escaping, as json.Marshal / MarshalIndent do by default) and the
  decoder's inverse, on Unicode strings (`List Char`: every `Char` is a Unicode scalar value, i.e. valid UTF-8).
  Compared byte for byte with json.Marshal on generated strings (checks/c20.py).
-/
namespace Cpf.Rules.Json

def hexDigit (n : Nat) : Char := if n < 10 then Char.ofNat (48 + n) else Char.ofNat (87 + n)

def hex4 (n : Nat) : List Char :=
  [hexDigit (n / 4096 % 16), hexDigit (n / 256 % 16), hexDigit (n / 16 % 16), hexDigit (n % 16)]

/-- characters written as `\u00XX` / `\u20XX` (besides the two-character escapes) -/
def needsU (c : Char) : Bool :=
  c.toNat < 0x20 || c = '<' || c = '>' || c = '&' || c.toNat = 0x2028 || c.toNat = 0x2029

def escChar (c : Char) : List Char :=
  if c = '"' then ['\\', '"']
  else if c = '\\' then ['\\', '\\']
  else if c = '\n' then ['\\', 'n']
  else if c = '\r' then ['\\', 'r']
  else if c = '\t' then ['\\', 't']
  else if c.toNat = 8 then ['\\', 'b']
  else if c.toNat = 12 then ['\\', 'f']
  else if needsU c then '\\' :: 'u' :: hex4 c.toNat
  else [c]

/-- the body of the JSON string literal for `s` (without the surrounding quotes) -/
def escape (s : List Char) : List Char := s.flatMap escChar

def hexVal (c : Char) : Option Nat :=
  let n := c.toNat
  if 48 ≤ n ∧ n ≤ 57 then some (n - 48)
  else if 97 ≤ n ∧ n ≤ 102 then some (n - 87)
  else if 65 ≤ n ∧ n ≤ 70 then some (n - 55)
  else none

/-- the decoder on a string body: `none` for what the decoder rejects (raw quote, raw control character,
    bad escape). Surrogate pairs are not needed here: the encoder never writes them. -/
def unescape : List Char → Option (List Char)
  | [] => some []
  | '\\' :: rest =>
      match rest with
      | 'u' :: a :: b :: c :: d :: r =>
          match hexVal a, hexVal b, hexVal c, hexVal d, unescape r with
          | some x, some y, some z, some w, some t => some (Char.ofNat (((x * 16 + y) * 16 + z) * 16 + w) :: t)
          | _, _, _, _, _ => none
      | e :: r =>
          let ch : Option Char :=
            if e = '"' then some '"' else if e = '\\' then some '\\' else if e = '/' then some '/'
            else if e = 'n' then some '\n' else if e = 'r' then some '\r' else if e = 't' then some '\t'
            else if e = 'b' then some (Char.ofNat 8) else if e = 'f' then some (Char.ofNat 12) else none
          match ch, unescape r with
          | some x, some t => some (x :: t)
          | _, _ => none
      | [] => none
  | c :: r =>
      if c = '"' ∨ c.toNat < 0x20 then none
      else match unescape r with
        | some t => some (c :: t)
        | none => none

end Cpf.Rules.Json
