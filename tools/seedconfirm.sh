#!/bin/bash
# usage: seedconfirm.sh <worktree> <patch.diff> <demo command...>
# Confirms, in the scratch worktree: patch applies and builds, the baseline suite still passes with it,
# the demo FAILS with it and PASSES without it.
WT="$1"; P="$2"; shift 2
export GOPROXY=off GOSUMDB=off GOTOOLCHAIN=local
cd "$WT" || exit 2
git checkout -q -- . && git clean -fdq sourcecode-parser pathfinder-rules 2>/dev/null
# (a demonstration that parses the CLI's output may trip over its progress display now and then: up to three tries)
for try in 1 2 3; do
  echo "[without change] demo (try $try):"; ( "$@" ) > /tmp/seedconfirm.out 2>&1; RC0=$?; tail -2 /tmp/seedconfirm.out; echo "rc=$RC0"
  [ $RC0 -eq 0 ] && break
done
git apply "$P" || { echo "PATCH DOES NOT APPLY"; exit 2; }
(cd sourcecode-parser && go build ./... && go build -tags verif ./...) || { echo "DOES NOT BUILD"; exit 2; }
echo "[with change] baseline:"; REPO_DIR="$WT" /verif/tools/baseline.sh; RCB=$?
echo "[with change] demo:"; ( "$@" ) > /tmp/seedconfirm.out 2>&1; RC1=$?; tail -2 /tmp/seedconfirm.out; echo "rc=$RC1"
git checkout -q -- .
echo "SUMMARY baseline_with_change=$RCB demo_without=$RC0 demo_with=$RC1"
[ $RCB -eq 0 ] && [ $RC0 -eq 0 ] && [ $RC1 -ne 0 ]
