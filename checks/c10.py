"""C10 — any query string gets results or a diagnostic, never a crash; the console keeps going.

Proof: Cpf.Props.C10 (listener total on well-formed trees; front end never panics; console answers every
submitted line). The well-formedness hypothesis is re-validated here on every accepted input.
Correspondence: outcome class (ok / diag) of the real processQuery vs the model's front end, on the
malformed stream and on unusual-but-valid queries, against an empty and a non-empty graph.
Oracle: the real code must never panic, die (log.Fatal / os.Exit) or hang; the real console must answer
every line (piped and incrementally written stdin). Thorough: Go native fuzzing of ParseQuery/processQuery."""
import collections, json, os, random, re, subprocess, time
from vlib import common as C, engine as E, querygen as QG, genquery as GQ

LEAN_MODULES = ["Cpf.Props.C10"]

UNUSUAL = [
    'FROM method_declaration AS md WHERE md.getName() SELECT md',
    'FROM method_declaration AS md WHERE foo() SELECT md',
    'FROM method_declaration AS md WHERE undefinedPred(md) SELECT md',
    'FROM method_declaration AS md WHERE md.nosuch() == "x" SELECT md',
    'FROM method_declaration AS md SELECT foo',
    'FROM method_declaration AS md SELECT md.nosuch()',
    'FROM method_declaration AS a, class_declaration AS b, variable_declaration AS c WHERE a.getName() == b.getName() SELECT a',
    'FROM method_declaration AS a, class_declaration AS b, variable_declaration AS c, method_invocation AS d SELECT a',
    'FROM nosuchkind AS x SELECT x',
    'FROM nosuchkind AS x WHERE x.getName() == "a" SELECT x.getName()',
    'FROM method_declaration AS md WHERE 1 SELECT md',
    'FROM method_declaration AS md WHERE "s" SELECT md',
    'FROM method_declaration AS md WHERE -md.getName() SELECT md',
    'FROM method_declaration AS md WHERE !md.getName() SELECT md',
    'FROM method_declaration AS md WHERE md.getName() == 1 SELECT md',
    'FROM method_declaration AS md WHERE md.getName() < 1 SELECT md',
    'FROM method_declaration AS md WHERE md.getArgumentName() == "x" SELECT md',
    'FROM method_declaration AS md WHERE md SELECT md',
    'FROM method_declaration AS md WHERE md.getDoc().GetCommentAuthor() == "x" SELECT md.getDoc()',
    'FROM method_declaration AS md WHERE 1/0 == 1 SELECT md',
    'FROM method_declaration AS md WHERE [1,2] == md.getName() SELECT md',
    'FROM method_declaration AS md WHERE md.getName() in "abc" SELECT md',
    'FROM method_declaration AS md WHERE md.getName().x.y.z() SELECT md',
    'predicate p() { 1 == 1 } FROM method_declaration AS md WHERE p() SELECT md',
    'predicate p(method_declaration m) { p(m) } FROM method_declaration AS md WHERE p(md) SELECT md',
    'predicate p(method_declaration m) { q(m) } predicate q(method_declaration m) { p(m) } FROM method_declaration AS md WHERE p(md) SELECT md',
    'predicate p(method_declaration m) { m.getName() == "a" } predicate p(method_declaration m) { m.getName() == "b" } FROM method_declaration AS md WHERE p(md) SELECT md',
    'predicate p(method_declaration m, method_declaration m) { m.getName() == "a" } FROM method_declaration AS md WHERE p(md, md) SELECT md',
    'predicate p(class_declaration c) { c.getName() == "a" } FROM method_declaration AS md WHERE p(md) SELECT md',
    'FROM method_declaration AS md, method_declaration AS md SELECT md',
    'FROM method_declaration AS md WHERE md.toString() == md.toString() SELECT md.toString(), md, "x"',
    'FROM ClassInstanceExpr AS c WHERE c.getClassInstanceExpr().GetArg(5).NodeString == "x" SELECT c',
    'FROM binary_expression AS b WHERE b.getLeftOperand() == b.getRightOperand() SELECT b',
    'FROM method_declaration AS md WHERE md.getName() == "' + "x" * 5000 + '" SELECT md',
    'FROM method_declaration AS md WHERE ' + "(" * 300 + '1 == 1' + ")" * 300 + ' SELECT md',
    'FROM method_declaration AS md WHERE ' + "!" * 400 + '(1 == 1) SELECT md',
    # parentheses that are never closed (quadratic time in ANTLR's error recovery, then a diagnostic)
    'FROM method_declaration AS md WHERE ' + "(" * 1500, 'FROM WHERE***********\x00' + "(" * 1200,
    '', ' ', 'SELECT', 'FROM', 'FROM a AS b SELECT', ':quit', '\x00', '"', '"\\', "FROM a AS b WHERE \"unterminated SELECT b",
]


def mutate_tokens(rng, lexemes):
    l = list(lexemes)
    for _ in range(rng.randint(1, 3)):
        if not l:
            break
        k = rng.random()
        i = rng.randrange(len(l))
        if k < 0.3:
            del l[i]
        elif k < 0.55:
            l.insert(i, rng.choice(l))
        elif k < 0.8:
            j = rng.randrange(len(l))
            l[i], l[j] = l[j], l[i]
        else:
            l[i] = rng.choice(["(", ")", ",", ".", "==", "||", "&&", "!", "SELECT", "WHERE", "FROM", "AS", "predicate", "{", "}", "[", "]", "in", " in ", "LIKE", '"', "'", "\\", "1.5", "x", "%", "#", "é"])
    return l


def run(run):
    C.build_driver()
    h, d = C.Harness(), C.Driver()
    rng = run.rng
    quick = run.depth == "quick"
    stats = collections.Counter()
    mism = []
    wf_bad = []
    proj = E.small_project(rng, h, nfiles=2, extra={"src/Mk.java": "class Mk { void m() { Object a = new Foo(); Object b = new Bar(\"x\"); } }\n"})
    h.call(op="scan", dir=os.path.join(proj.dir, "nonexistent"), graph="empty", nonodes=True)
    try:
        kinds = [k for k in QG.KINDS_DEFAULT if proj.by_kind.get(k)]
        cases = list(UNUSUAL)
        nrand = 250 if quick else 4000
        for i in range(nrand):
            q = QG.random_query(rng, kinds=kinds, values=proj.values, depth=3, n_entities=rng.choice([1, 1, 2, 2, 3]))
            k = rng.random()
            if k < 0.25:
                cases.append(GQ.layout(q.lexemes, q.kinds, rng))
            elif k < 0.8:
                cases.append(" ".join(mutate_tokens(rng, q.lexemes)))
            else:
                cases.append("".join(rng.choice(list(" \t\n\"\\'()[]{}.,=!<>|&+-*/abzAZ_09") + ["FROM ", " AS ", "SELECT ", "WHERE ", "predicate "]) for _ in range(rng.randint(0, 40))))
        tiny = E.Project(h, {"T.java": "class T { int f = 1; void m(int a) { if (a > 0) { run(a); } } }\n"}, name="tiny")
        projs = {"empty": None, proj.name: proj, "tiny": tiny}

        def too_big(text, pr):
            if pr is None:
                return False
            r = h.call(op="parse", q=text)
            if r.get("outcome") != "ok":
                return False
            size = 1
            for e, _ in r["from"]:
                size *= max(1, len(pr.by_kind.get(e, [])))
            return size > 2500
        for ci, text in enumerate(cases):
            m = d.call("cond", text)
            model_class = m[0]
            if model_class == "ok":
                w = d.call("wf", text)
                if w[0] != "1":
                    wf_bad.append((text[:200], w))
            for gname in (("empty", "tiny") if ci < len(UNUSUAL) else ("empty", proj.name)):
                if too_big(text, projs[gname]):
                    stats["skipped_large_product"] += 1
                    continue
                for outmode in ("json", ""):
                    rr = h.call(op="query", graph=gname, q=text, output=outmode, timeout=120)
                    oc = rr.get("outcome")
                    stats[oc] += 1
                    run.count((gname, outmode, text[:300]))
                    if oc in ("panic", "died", "hang"):
                        run.violation("C10:abnormal-end:" + oc,
                                      "processQuery ended abnormally (%s) on %r against the %s graph: %s" % (oc, text[:300], gname, (rr.get("panic") or "")[:200]),
                                      dict(query=text, graph=gname, output=outmode, outcome=oc, panic=rr.get("panic"), stack=rr.get("stack"),
                                           java=E.java_files(proj) if gname != "empty" else {}))
                        if oc in ("died", "hang"):
                            proj.rescan()
                            tiny.rescan()
                            h.call(op="scan", dir=os.path.join(proj.dir, "nonexistent"), graph="empty", nonodes=True)
                        continue
                    if oc == "ok" and outmode == "json":
                        try:
                            json.loads(rr["result"])
                        except Exception:
                            run.violation("C10:bad-json", "JSON result is not a well-formed document for %r" % text[:300], dict(query=text, result=rr["result"][:500]))
                    if (oc == "ok") != (model_class == "ok"):
                        mism.append(dict(query=text[:300], real=oc, model=m[:2]))
        # ---- every accessor of every kind as a SELECT item and inside WHERE, text and JSON output, over a program
        #      that has every statement with and without its optional parts (a value that cannot be rendered or
        #      evaluated for one entity is a diagnostic or an empty cell, never the end of the process)
        tables = json.load(open(os.path.join(C.LEAN, "Cpf", "Generated", "tables.json")))
        from vlib import genjava as G
        shapes = E.Project(h, {"Sink.java": G.kitchen_sink(), "Optional.java": G.optional_parts(2)}, name="shapes")
        projs["shapes"] = shapes
        try:
            vars_ = dict((k, v) for k, v in tables["envCases"])
            for k in sorted(shapes.by_kind):
                for acc, impl in tables["envAccessors"].get(vars_.get(k), []):
                    item = "x.%s" % acc if impl.startswith("lit:") else "x.%s()" % acc
                    for q in ("FROM %s AS x SELECT %s" % (k, item), "FROM %s AS x SELECT x, %s, x.toString()" % (k, item),
                              "FROM %s AS x WHERE %s == %s SELECT %s" % (k, item, item, item)):
                        for outmode in ("", "json"):
                            rr = h.call(op="query", graph="shapes", q=q, output=outmode, timeout=120)
                            oc = rr.get("outcome")
                            stats["accessor_select:" + str(oc)] += 1
                            run.count(("accessor-select", outmode, q))
                            if oc in ("panic", "died", "hang"):
                                run.violation("C10:abnormal-end:" + oc,
                                              "processQuery ended abnormally (%s) on %r (%s output): %s" % (oc, q, outmode or "text", (rr.get("panic") or "")[:200]),
                                              dict(query=q, graph="shapes", output=outmode, outcome=oc, panic=rr.get("panic"), stack=rr.get("stack"),
                                                   java=E.java_files(shapes)))
                                if oc in ("died", "hang"):
                                    proj.rescan()
                                    tiny.rescan()
                                    shapes.rescan()
                                    h.call(op="scan", dir=os.path.join(proj.dir, "nonexistent"), graph="empty", nonodes=True)
        finally:
            shapes.close()
        run.sample(dict(query=cases[len(UNUSUAL)], outcome="see histogram"))
        run.sample(dict(query=UNUSUAL[1], note="zero-argument predicate call"))
        # ---- console transcripts through the real CLI
        nsess = 4 if quick else 40
        for s in range(nsess):
            lines = []
            for _ in range(rng.randint(1, 8)):
                k = rng.random()
                if k < 0.5:
                    q = QG.random_query(rng, kinds=kinds, values=proj.values, depth=2)
                    lines.append(QG.plain(q))
                elif k < 0.8:
                    lines.append(rng.choice(UNUSUAL[:33]))
                else:
                    lines.append(" ".join(mutate_tokens(rng, QG.random_query(rng, kinds=kinds, values=proj.values).lexemes)))
            if s % 2 == 1 or rng.random() < 0.3:
                # a line longer than any read buffer (4 KiB, 64 KiB): a valid query with a long condition, then more lines
                k0 = rng.choice(kinds)
                for size in ([5000] if s % 4 == 1 else [70000]):
                    n = size // 30 + 1
                    long_q = "FROM %s AS x WHERE %s SELECT x" % (k0, " && ".join('x.toString() != "pad%06d"' % i for i in range(n)))
                    lines.insert(rng.randrange(len(lines) + 1), long_q)
                    stats["console_long_lines"] += 1
                lines.append(QG.plain(QG.random_query(rng, kinds=kinds, values=proj.values, depth=1)))
            lines = [l.replace("\n", " ") for l in lines]
            quit_at = rng.choice([None, len(lines)])
            payload = "".join(l + "\n" for l in lines) + (":quit\n" if quit_at is not None else "")
            expected = [l for l in lines if True]
            for mode in ("piped", "incremental"):
                args = ["query", "--project", proj.dir, "--stdin", "--output", "json", "--disable-metrics"]
                env = dict(os.environ, HOME=os.path.join(C.BUILD, "home"))
                out, rc_console = C.run_console([os.path.join(C.BUILD, "pathfinder")] + args, payload.encode(), rng=rng,
                                                chunks=(None if mode == "piped" else [1, 3, 7, 50, 500]), timeout=120, env=env)
                if rc_console is None:
                    run.violation("C10:console-hang", "console session hangs (no end within 120 s)", dict(stdin=payload[:20000], mode=mode))
                    continue
                text = out.decode("utf-8", "replace")
                answered = [m.group(1) for m in re.finditer(r"Executing query: (.*)", text)]
                run.count(("console", mode, payload))
                stats["console_sessions"] += 1
                ended_ok = ("Okay, Bye!" in text) if quit_at is not None else ("error processing query" in text)
                if rc_console not in (0,) or "panic:" in text or "goroutine " in text:
                    run.violation("C10:console-crash", "console session ended abnormally (rc=%s)" % rc_console,
                                  dict(stdin=payload, mode=mode, tail=text[-800:], java=E.java_files(proj)))
                elif [a.strip() for a in answered] != [l.strip() for l in expected] or not ended_ok:
                    run.violation("C10:console-unanswered", "console answered %d of %d submitted lines (%s stdin)" % (len(answered), len(expected), mode),
                                  dict(stdin=payload, mode=mode, answered=answered, tail=text[-500:]))
                # model transcript
                mt = d.call("console", payload)
                model_lines = [x for x in mt if x != ""]
                if [x.rstrip("\n") for x in model_lines] != [a for a in expected]:
                    mism.append(dict(console=payload[:200], model=model_lines[:3]))
            if s == 0:
                run.sample(dict(console_stdin=payload[:400], answered=len(expected)))
        # ---- thorough: native fuzzing of the query path
        if run.tier == "thorough":
            fz = C.HARNESS_DIR
            env = dict(C.GOENV, GOFLAGS="-mod=mod")
            rc, out = C.sh(["go", "test", "-tags", "verif", "-run", "^$", "-fuzz", "FuzzQuery", "-fuzztime", "120s", "."], cwd=fz, env=env, timeout=900)
            run.extra["fuzz_tail"] = out[-600:]
            if rc != 0 and ("panic" in out or "FAIL" in out):
                corpus = re.findall(r"testdata/fuzz/\S+", out)
                run.violation("C10:fuzz-crash", "native fuzzing found a crashing query", dict(output=out[-3000:], corpus=corpus))
    finally:
        proj.close()
        try:
            tiny.close()
        except Exception:
            pass
        h.close()
        d.close()
    run.extra["outcome_histogram"] = dict(stats)
    run.extra["wf_validated"] = "every accepted input's parse trees satisfy wfTree" if not wf_bad else "VIOLATED"
    if wf_bad:
        run.broken_obligation("hypothesis:AcceptedTreesWF", "accepted input with a parse tree that is not well-formed: %r" % (wf_bad[:2],))
    if mism:
        run.broken_obligation("correspondence:outcome-class", "model and implementation disagree on ok/diag or on the console transcript: %s" % json.dumps(mism[:3])[:1500])
