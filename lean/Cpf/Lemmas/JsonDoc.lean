import Cpf.Rules.JsonDoc
import Cpf.Lemmas.JsonRoundtrip

namespace Cpf.Rules.JsonDoc
open Cpf.Rules.Json

/-! ### string literals -/

theorem splitStr_plain (c : Char) (r : List Char) (h1 : c ≠ '"') (h2 : c ≠ '\\') :
    splitStr (c :: r) = (splitStr r).map (fun p => (c :: p.1, p.2)) := by
  rw [splitStr.eq_def]
  split
  · rename_i heq; simp at heq
  · rename_i r' heq
    simp only [List.cons.injEq] at heq
    exact absurd heq.1 h1
  · rename_i c' r' heq
    simp only [List.cons.injEq] at heq
    exact absurd heq.1 h2
  · rename_i heq
    simp only [List.cons.injEq] at heq
    exact absurd heq.1 h2
  · rename_i c' r' hq hb1 hb2 heq
    simp only [List.cons.injEq] at heq
    obtain ⟨rfl, rfl⟩ := heq
    rfl

theorem hexDigit_plain : ∀ k : Fin 16, hexDigit k.val ≠ '"' ∧ hexDigit k.val ≠ '\\' := by decide

theorem splitStr_hex (k : Nat) (hk : k < 16) (r : List Char) :
    splitStr (hexDigit k :: r) = (splitStr r).map (fun p => (hexDigit k :: p.1, p.2)) :=
  splitStr_plain _ r (hexDigit_plain ⟨k, hk⟩).1 (hexDigit_plain ⟨k, hk⟩).2

theorem splitStr_pair (x : Char) (r : List Char) :
    splitStr ('\\' :: x :: r) = (splitStr r).map (fun p => ('\\' :: x :: p.1, p.2)) := by
  simp [splitStr]

theorem splitStr_step (c : Char) (r : List Char) :
    splitStr (escChar c ++ r) = (splitStr r).map (fun p => (escChar c ++ p.1, p.2)) := by
  unfold escChar
  by_cases h1 : c = '"'
  · subst h1; simp [splitStr_pair]
  · by_cases h2 : c = '\\'
    · subst h2; simp [splitStr_pair]
    · by_cases h3 : c = '\n'
      · subst h3; simp [splitStr_pair]
      · by_cases h4 : c = '\r'
        · subst h4; simp [splitStr_pair]
        · by_cases h5 : c = '\t'
          · subst h5; simp [splitStr_pair]
          · by_cases h6 : c.toNat = 8
            · simp [h1, h2, h3, h4, h5, h6, splitStr_pair]
            · by_cases h7 : c.toNat = 12
              · simp [h1, h2, h3, h4, h5, h6, h7, splitStr_pair]
              · simp only [h1, h2, h3, h4, h5, h6, h7, ↓reduceIte]
                by_cases h8 : needsU c = true
                · simp only [h8, ↓reduceIte, hex4, List.cons_append, List.nil_append]
                  rw [splitStr_pair, splitStr_hex _ (Nat.mod_lt _ (by decide)), splitStr_hex _ (Nat.mod_lt _ (by decide)),
                      splitStr_hex _ (Nat.mod_lt _ (by decide)), splitStr_hex _ (Nat.mod_lt _ (by decide))]
                  cases splitStr r <;> simp
                · simp only [h8, Bool.false_eq_true, ↓reduceIte, List.singleton_append]
                  exact splitStr_plain c r h1 h2

theorem splitStr_escape (s rest : List Char) : splitStr (escape s ++ '"' :: rest) = some (escape s, rest) := by
  induction s with
  | nil => simp [escape, splitStr]
  | cons c cs ih =>
      simp only [escape, List.flatMap_cons, List.append_assoc] at ih ⊢
      rw [splitStr_step, ih]
      simp

/-- a string literal is read back, whatever follows its closing quote -/
theorem decStr_escape (s rest : List Char) : decStr (escape s ++ '"' :: rest) = some (s, rest) := by
  simp [decStr, splitStr_escape, json_roundtrip]

/-! ### numbers -/

theorem takeWhile_digits (ds rest : List Char) (hd : ds.all isDigit = true) (hr : ∀ c ∈ rest.head?, isDigit c = false) :
    (ds ++ rest).takeWhile isDigit = ds ∧ (ds ++ rest).dropWhile isDigit = rest := by
  induction ds with
  | nil =>
      cases rest with
      | nil => simp
      | cons c t =>
          have : isDigit c = false := hr c (by simp)
          simp [List.takeWhile, List.dropWhile, this]
  | cons d t ih =>
      simp only [List.all_cons, Bool.and_eq_true] at hd
      obtain ⟨i1, i2⟩ := ih hd.2
      simp [List.takeWhile, List.dropWhile, hd.1, i1, i2]

theorem digit_not_special (c : Char) (h : isDigit c = true) : c ≠ '"' ∧ c ≠ '[' ∧ c ≠ '{' ∧ c ≠ ']' ∧ c ≠ '}' := by
  refine ⟨?_, ?_, ?_, ?_, ?_⟩ <;> (intro e; subst e; revert h; decide)

/-! ### documents -/

def HeadOk (rest : List Char) : Prop := ∀ c ∈ rest.head?, isDigit c = false

theorem headOk_cons (c : Char) (t : List Char) (h : isDigit c = false) : HeadOk (c :: t) := by
  intro x hx; simp at hx; subst hx; exact h

theorem headOk_nil : HeadOk [] := by intro x hx; simp at hx

/-- the first character of an encoded value is a quote, an opening bracket or brace, or a digit -/
theorem enc_head (v : JV) (hw : wf v = true) :
    ∃ c t, enc v = c :: t ∧ c ≠ ']' ∧ c ≠ '}' := by
  cases v with
  | str s => exact ⟨'"', escape s ++ ['"'], by simp [enc], by decide, by decide⟩
  | num ds =>
      simp only [wf, Bool.and_eq_true, Bool.not_eq_true', List.isEmpty_eq_false_iff] at hw
      cases ds with
      | nil => exact absurd rfl hw.1
      | cons d t =>
          have hd : isDigit d = true := by simpa using (List.all_eq_true.1 hw.2) d (by simp)
          exact ⟨d, t, by simp [enc], (digit_not_special d hd).2.2.2.1, (digit_not_special d hd).2.2.2.2⟩
  | arr xs => exact ⟨'[', encElems xs ++ [']'], by simp [enc], by decide, by decide⟩
  | obj kvs => exact ⟨'{', encMembers kvs ++ ['}'], by simp [enc], by decide, by decide⟩

mutual
theorem dec_enc : ∀ (v : JV) (f : Nat) (rest : List Char), size v ≤ f → wf v = true → HeadOk rest →
    dec f (enc v ++ rest) = some (v, rest)
  | .str s, f, rest, hf, _, _ => by
      obtain ⟨f', rfl⟩ : ∃ f', f = f' + 1 := ⟨f - 1, by simp [size] at hf; omega⟩
      simp [enc, dec, decStr_escape]
  | .num ds, f, rest, hf, hw, hr => by
      obtain ⟨f', rfl⟩ : ∃ f', f = f' + 1 := ⟨f - 1, by simp [size] at hf; omega⟩
      simp only [wf, Bool.and_eq_true, Bool.not_eq_true', List.isEmpty_eq_false_iff] at hw
      cases ds with
      | nil => exact absurd rfl hw.1
      | cons d t =>
          have hd : isDigit d = true := by simpa using (List.all_eq_true.1 hw.2) d (by simp)
          obtain ⟨n1, n2, n3, _, _⟩ := digit_not_special d hd
          have htw := takeWhile_digits (d :: t) rest hw.2 hr
          simp only [enc, List.cons_append, dec, n1, n2, n3, ↓reduceIte, hd]
          simp only [List.cons_append] at htw
          rw [htw.1, htw.2]
  | .arr xs, f, rest, hf, hw, _ => by
      obtain ⟨f', rfl⟩ : ∃ f', f = f' + 1 := ⟨f - 1, by simp [size] at hf; omega⟩
      cases xs with
      | nil => simp [enc, encElems, dec]
      | cons x r =>
          have hwx : wf x = true := by simp [wf, wfElems] at hw; exact hw.1
          have hsz : sizeElems (x :: r) ≤ f' := by simp [size] at hf; omega
          have he := decElems_enc (x :: r) f' rest (by simp) hsz (by simpa [wf] using hw)
          obtain ⟨c, t, hc, h1, _⟩ : ∃ c t, encElems (x :: r) = c :: t ∧ c ≠ ']' ∧ c ≠ '}' := by
            obtain ⟨c, t, hc, h1, h2⟩ := enc_head x hwx
            cases r with
            | nil => exact ⟨c, t, by simp [encElems, hc], h1, h2⟩
            | cons y r' => exact ⟨c, t ++ ',' :: encElems (y :: r'), by simp [encElems, hc], h1, h2⟩
          simp only [enc, List.cons_append, List.append_assoc, dec]
          have : ('[' = '"') = False := by decide
          simp only [this, ↓reduceIte]
          rw [hc] at he ⊢
          simp only [List.cons_append] at he ⊢
          have hne : ∀ r', (c :: (t ++ (']' :: rest))) ≠ ']' :: r' := by
            intro r' e; simp at e; exact h1 e.1
          split
          · rename_i r' heq; exact absurd heq (hne r')
          · simp only [List.nil_append] at he ⊢
            rw [he]; rfl
  | .obj kvs, f, rest, hf, hw, _ => by
      obtain ⟨f', rfl⟩ : ∃ f', f = f' + 1 := ⟨f - 1, by simp [size] at hf; omega⟩
      cases kvs with
      | nil => simp [enc, encMembers, dec]
      | cons kv r =>
          obtain ⟨k, v⟩ := kv
          have hsz : sizeMembers ((k, v) :: r) ≤ f' := by simp [size] at hf; omega
          have he := decMembers_enc ((k, v) :: r) f' rest (by simp) hsz (by simpa [wf] using hw)
          have hc : ∃ t, encMembers ((k, v) :: r) = '"' :: t := by
            cases r with
            | nil => exact ⟨escape k ++ '"' :: ':' :: enc v, by simp [encMembers]⟩
            | cons m r' =>
                obtain ⟨k2, v2⟩ := m
                exact ⟨escape k ++ '"' :: ':' :: enc v ++ ',' :: encMembers ((k2, v2) :: r'), by simp [encMembers]⟩
          obtain ⟨t, hc⟩ := hc
          simp only [enc, List.cons_append, List.append_assoc, dec]
          have e1 : ('{' = '"') = False := by decide
          have e2 : ('{' = '[') = False := by decide
          simp only [e1, e2, ↓reduceIte]
          rw [hc] at he ⊢
          simp only [List.cons_append] at he ⊢
          split
          · rename_i r' heq; simp at heq
          · simp only [List.nil_append] at he ⊢
            rw [he]; rfl
theorem decElems_enc : ∀ (xs : List JV) (f : Nat) (rest : List Char), xs ≠ [] → sizeElems xs ≤ f → wfElems xs = true →
    decElems f (encElems xs ++ (']' :: rest)) = some (xs, rest)
  | [], _, _, hne, _, _ => absurd rfl hne
  | [x], f, rest, _, hf, hw => by
      obtain ⟨f', rfl⟩ : ∃ f', f = f' + 1 := ⟨f - 1, by simp [sizeElems] at hf; omega⟩
      have hx := dec_enc x f' (']' :: rest) (by simp [sizeElems] at hf; omega) (by simpa [wfElems] using hw) (headOk_cons _ _ (by decide))
      simp only [encElems, decElems, hx]
  | x :: y :: r, f, rest, _, hf, hw => by
      obtain ⟨f', rfl⟩ : ∃ f', f = f' + 1 := ⟨f - 1, by simp [sizeElems] at hf; omega⟩
      simp only [wfElems, Bool.and_eq_true] at hw
      have hx := dec_enc x f' (',' :: (encElems (y :: r) ++ (']' :: rest))) (by simp [sizeElems] at hf; omega) hw.1 (headOk_cons _ _ (by decide))
      have hr := decElems_enc (y :: r) f' rest (by simp) (by simp [sizeElems] at hf ⊢; omega) (by simpa [wfElems] using hw.2)
      simp only [encElems, List.append_assoc, List.cons_append, decElems]
      rw [hx]
      simp only [hr, Option.map_some]
theorem decMembers_enc : ∀ (kvs : List (List Char × JV)) (f : Nat) (rest : List Char), kvs ≠ [] →
    sizeMembers kvs ≤ f → wfMembers kvs = true →
    decMembers f (encMembers kvs ++ ('}' :: rest)) = some (kvs, rest)
  | [], _, _, hne, _, _ => absurd rfl hne
  | [(k, v)], f, rest, _, hf, hw => by
      obtain ⟨f', rfl⟩ : ∃ f', f = f' + 1 := ⟨f - 1, by simp [sizeMembers] at hf; omega⟩
      have hv := dec_enc v f' ('}' :: rest) (by simp [sizeMembers] at hf; omega) (by simpa [wfMembers] using hw) (headOk_cons _ _ (by decide))
      simp only [encMembers, List.cons_append, List.append_assoc, decMembers, decStr_escape]
      rw [hv]
      rfl
  | (k, v) :: (k2, v2) :: r, f, rest, _, hf, hw => by
      obtain ⟨f', rfl⟩ : ∃ f', f = f' + 1 := ⟨f - 1, by simp [sizeMembers] at hf; omega⟩
      simp only [wfMembers, Bool.and_eq_true] at hw
      have hv := dec_enc v f' (',' :: (encMembers ((k2, v2) :: r) ++ ('}' :: rest))) (by simp [sizeMembers] at hf; omega) hw.1 (headOk_cons _ _ (by decide))
      have hr := decMembers_enc ((k2, v2) :: r) f' rest (by simp) (by simp [sizeMembers] at hf ⊢; omega) (by simpa [wfMembers] using hw.2)
      simp only [encMembers, List.cons_append, List.append_assoc, decMembers, decStr_escape]
      rw [hv]
      simp only [hr, Option.map_some]
end

/-! ### fuel: the encoding is at least as long as the value is big -/

mutual
theorem size_le_length : ∀ (v : JV), wf v = true → size v ≤ (enc v).length
  | .str s, _ => by simp [size, enc]
  | .num ds, hw => by
      simp only [wf, Bool.and_eq_true, Bool.not_eq_true', List.isEmpty_eq_false_iff] at hw
      cases ds with
      | nil => exact absurd rfl hw.1
      | cons d t => simp [size, enc]
  | .arr xs, hw => by
      have := sizeElems_le xs (by simpa [wf] using hw)
      simp only [size, enc, List.length_cons, List.length_append, List.length_nil]
      omega
  | .obj kvs, hw => by
      have := sizeMembers_le kvs (by simpa [wf] using hw)
      simp only [size, enc, List.length_cons, List.length_append, List.length_nil]
      omega
theorem sizeElems_le : ∀ (xs : List JV), wfElems xs = true → sizeElems xs ≤ (encElems xs).length + 1
  | [], _ => by simp [sizeElems]
  | [x], hw => by
      have := size_le_length x (by simpa [wfElems] using hw)
      simp only [sizeElems, encElems]
      omega
  | x :: y :: r, hw => by
      simp only [wfElems, Bool.and_eq_true] at hw
      have h1 := size_le_length x hw.1
      have h2 := sizeElems_le (y :: r) (by simpa [wfElems] using hw.2)
      simp only [sizeElems, encElems, List.length_cons, List.length_append] at h2 ⊢
      omega
theorem sizeMembers_le : ∀ (kvs : List (List Char × JV)), wfMembers kvs = true → sizeMembers kvs ≤ (encMembers kvs).length + 1
  | [], _ => by simp [sizeMembers]
  | [(k, v)], hw => by
      have := size_le_length v (by simpa [wfMembers] using hw)
      simp only [sizeMembers, encMembers, List.length_cons, List.length_append]
      omega
  | (k, v) :: (k2, v2) :: r, hw => by
      simp only [wfMembers, Bool.and_eq_true] at hw
      have h1 := size_le_length v hw.1
      have h2 := sizeMembers_le ((k2, v2) :: r) (by simpa [wfMembers] using hw.2)
      simp only [sizeMembers, encMembers, List.length_cons, List.length_append] at h2 ⊢
      omega
end

/-- **JSON documents round-trip**: decoding what the encoder writes for a document gives the document back — for
    every nesting of arrays and objects and every string content. -/
theorem decode_enc (v : JV) (hw : wf v = true) : decode (enc v) = some v := by
  have h := dec_enc v ((enc v).length + 1) [] (by have := size_le_length v hw; omega) hw headOk_nil
  simp only [List.append_nil] at h
  simp [decode, h]

/-! ### the indented form -/

theorem strip_in_plain (c : Char) (r : List Char) (h1 : c ≠ '"') (h2 : c ≠ '\\') :
    stripWs true false (c :: r) = c :: stripWs true false r := by
  simp [stripWs, h1, h2]

theorem strip_in_pair (x : Char) (r : List Char) :
    stripWs true false ('\\' :: x :: r) = '\\' :: x :: stripWs true false r := by
  simp [stripWs]

theorem strip_in_hex (k : Nat) (hk : k < 16) (r : List Char) :
    stripWs true false (hexDigit k :: r) = hexDigit k :: stripWs true false r :=
  strip_in_plain _ r (hexDigit_plain ⟨k, hk⟩).1 (hexDigit_plain ⟨k, hk⟩).2

theorem strip_in_step (c : Char) (r : List Char) :
    stripWs true false (escChar c ++ r) = escChar c ++ stripWs true false r := by
  unfold escChar
  by_cases h1 : c = '"'
  · subst h1; simp [strip_in_pair]
  · by_cases h2 : c = '\\'
    · subst h2; simp [strip_in_pair]
    · by_cases h3 : c = '\n'
      · subst h3; simp [strip_in_pair]
      · by_cases h4 : c = '\r'
        · subst h4; simp [strip_in_pair]
        · by_cases h5 : c = '\t'
          · subst h5; simp [strip_in_pair]
          · by_cases h6 : c.toNat = 8
            · simp [h1, h2, h3, h4, h5, h6, strip_in_pair]
            · by_cases h7 : c.toNat = 12
              · simp [h1, h2, h3, h4, h5, h6, h7, strip_in_pair]
              · simp only [h1, h2, h3, h4, h5, h6, h7, ↓reduceIte]
                by_cases h8 : needsU c = true
                · simp only [h8, ↓reduceIte, hex4, List.cons_append, List.nil_append]
                  rw [strip_in_pair, strip_in_hex _ (Nat.mod_lt _ (by decide)), strip_in_hex _ (Nat.mod_lt _ (by decide)),
                      strip_in_hex _ (Nat.mod_lt _ (by decide)), strip_in_hex _ (Nat.mod_lt _ (by decide))]
                · simp only [h8, Bool.false_eq_true, ↓reduceIte, List.singleton_append]
                  exact strip_in_plain c r h1 h2

theorem strip_in_escape (s rest : List Char) :
    stripWs true false (escape s ++ '"' :: rest) = escape s ++ '"' :: stripWs false false rest := by
  induction s with
  | nil => simp [escape, stripWs]
  | cons c cs ih =>
      simp only [escape, List.flatMap_cons, List.append_assoc] at ih ⊢
      rw [strip_in_step, ih]

theorem strip_out_indent (d : Nat) (r : List Char) : stripWs false false (indent d ++ r) = stripWs false false r := by
  induction d with
  | zero => simp [indent]
  | succ k ih =>
      simp only [indent, List.replicate_succ, List.flatten_cons, List.cons_append, List.nil_append, List.append_assoc] at ih ⊢
      simp [stripWs, isWs, ih]

theorem digit_plain (c : Char) (h : isDigit c = true) : c ≠ '"' ∧ isWs c = false := by
  constructor
  · intro e; subst e; revert h; decide
  · simp only [isWs, Bool.or_eq_false_iff, decide_eq_false_iff_not]
    refine ⟨⟨⟨?_, ?_⟩, ?_⟩, ?_⟩ <;> (intro e; subst e; revert h; decide)

theorem strip_out_digits (ds rest : List Char) (hd : ds.all isDigit = true) :
    stripWs false false (ds ++ rest) = ds ++ stripWs false false rest := by
  induction ds with
  | nil => simp
  | cons d t ih =>
      simp only [List.all_cons, Bool.and_eq_true] at hd
      obtain ⟨h1, h2⟩ := digit_plain d hd.1
      simp [stripWs, h1, h2, ih hd.2]

theorem strip_out_char (c : Char) (r : List Char) (h1 : c ≠ '"') (h2 : isWs c = false) :
    stripWs false false (c :: r) = c :: stripWs false false r := by
  simp [stripWs, h1, h2]

theorem strip_out_nl (r : List Char) : stripWs false false ('\n' :: r) = stripWs false false r := by
  simp [stripWs, isWs]

theorem strip_out_sp (r : List Char) : stripWs false false (' ' :: r) = stripWs false false r := by
  simp [stripWs, isWs]

theorem strip_out_quote (r : List Char) : stripWs false false ('"' :: r) = '"' :: stripWs true false r := by
  simp [stripWs]

mutual
theorem strip_encIndent : ∀ (v : JV) (d : Nat) (rest : List Char), wf v = true →
    stripWs false false (encIndent d v ++ rest) = enc v ++ stripWs false false rest
  | .str s, d, rest, _ => by
      simp only [encIndent, enc, List.cons_append, List.append_assoc, List.nil_append]
      rw [strip_out_quote, strip_in_escape]
  | .num ds, d, rest, hw => by
      simp only [wf, Bool.and_eq_true] at hw
      simp only [encIndent, enc]
      exact strip_out_digits ds rest hw.2
  | .arr [], d, rest, _ => by
      simp [encIndent, enc, encElems, strip_out_char]
      rw [strip_out_char _ _ (by decide) (by decide), strip_out_char _ _ (by decide) (by decide)]
  | .arr (x :: r), d, rest, hw => by
      have he := strip_encIndentElems (x :: r) (d + 1) ('\n' :: (indent d ++ ']' :: rest)) (by simpa [wf] using hw)
      simp only [encIndent, enc, List.cons_append, List.append_assoc, List.nil_append]
      rw [strip_out_char _ _ (by decide) (by decide), strip_out_nl, he, strip_out_nl, strip_out_indent,
          strip_out_char _ _ (by decide) (by decide)]
  | .obj [], d, rest, _ => by
      simp only [encIndent, enc, encMembers, List.cons_append, List.nil_append]
      rw [strip_out_char _ _ (by decide) (by decide), strip_out_char _ _ (by decide) (by decide)]
  | .obj (m :: r), d, rest, hw => by
      have he := strip_encIndentMembers (m :: r) (d + 1) ('\n' :: (indent d ++ '}' :: rest)) (by simpa [wf] using hw)
      simp only [encIndent, enc, List.cons_append, List.append_assoc, List.nil_append]
      rw [strip_out_char _ _ (by decide) (by decide), strip_out_nl, he, strip_out_nl, strip_out_indent,
          strip_out_char _ _ (by decide) (by decide)]
theorem strip_encIndentElems : ∀ (xs : List JV) (d : Nat) (rest : List Char), wfElems xs = true →
    stripWs false false (encIndentElems d xs ++ rest) = encElems xs ++ stripWs false false rest
  | [], d, rest, _ => by simp [encIndentElems, encElems]
  | [x], d, rest, hw => by
      simp only [encIndentElems, encElems, List.append_assoc]
      rw [strip_out_indent, strip_encIndent x d rest (by simpa [wfElems] using hw)]
  | x :: y :: r, d, rest, hw => by
      simp only [wfElems, Bool.and_eq_true] at hw
      simp only [encIndentElems, encElems, List.append_assoc, List.cons_append]
      rw [strip_out_indent, strip_encIndent x d _ hw.1, strip_out_char _ _ (by decide) (by decide), strip_out_nl,
          strip_encIndentElems (y :: r) d rest (by simpa [wfElems] using hw.2)]
theorem strip_encIndentMembers : ∀ (kvs : List (List Char × JV)) (d : Nat) (rest : List Char), wfMembers kvs = true →
    stripWs false false (encIndentMembers d kvs ++ rest) = encMembers kvs ++ stripWs false false rest
  | [], d, rest, _ => by simp [encIndentMembers, encMembers]
  | [(k, v)], d, rest, hw => by
      simp only [encIndentMembers, encMembers, List.append_assoc, List.cons_append]
      rw [strip_out_indent, strip_out_quote, strip_in_escape, strip_out_char _ _ (by decide) (by decide), strip_out_sp,
          strip_encIndent v d rest (by simpa [wfMembers] using hw)]
  | (k, v) :: (k2, v2) :: r, d, rest, hw => by
      simp only [wfMembers, Bool.and_eq_true] at hw
      simp only [encIndentMembers, encMembers, List.append_assoc, List.cons_append]
      rw [strip_out_indent, strip_out_quote, strip_in_escape, strip_out_char _ _ (by decide) (by decide), strip_out_sp,
          strip_encIndent v d _ hw.1, strip_out_char _ _ (by decide) (by decide), strip_out_nl,
          strip_encIndentMembers ((k2, v2) :: r) d rest (by simpa [wfMembers] using hw.2)]
end

/-- **indented documents are read back**: `json.MarshalIndent`'s layout, with white space ignored outside string
    literals, decodes to the document -/
theorem decodeWs_encIndent (v : JV) (hw : wf v = true) : decodeWs (encIndent 0 v) = some v := by
  have h := strip_encIndent v 0 [] hw
  simp only [List.append_nil] at h
  have h0 : stripWs false false [] = [] := rfl
  rw [h0, List.append_nil] at h
  simp [decodeWs, h, decode_enc v hw]

end Cpf.Rules.JsonDoc
