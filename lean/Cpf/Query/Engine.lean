/-
  Model of graph/query.go's evaluation pipeline (QueryEntities, generateCartesianProduct,
  cartesianProduct, FilterEntities) over *opaque atoms*.

  A condition is a boolean combination of atoms. An atom is any sub-expression that is not `||`, `&&`,
  `!` or a parenthesis: a comparison, an `in` test, an accessor chain … Its meaning is a parameter
  `ρ : Nat → Tuple → Res`: on a tuple it is true, false, or *fails* (expr-lang aborts the evaluation of the
  whole condition: a nil dereference inside an accessor chain, an index out of range, a non-boolean value).
  All theorems are stated for arbitrary `ρ`, so they cover accessor expressions outside any fragment.
-/
namespace Cpf.Query

structure Node where
  id   : Nat
  kind : String
  deriving Repr, DecidableEq, Inhabited

abbrev Tuple := List Node

inductive Res where
  | tt | ff | err
  deriving Repr, DecidableEq, Inhabited

inductive Cond where
  | atom (i : Nat)
  | not (c : Cond)
  | and (a b : Cond)
  | or (a b : Cond)
  deriving Repr, Inhabited

/-- expr-lang's evaluation order: left to right, short-circuit, the first failure aborts. -/
def Cond.eval (ρ : Nat → Tuple → Res) : Cond → Tuple → Res
  | .atom i, t => ρ i t
  | .not c, t =>
      match c.eval ρ t with
      | .tt => .ff
      | .ff => .tt
      | .err => .err
  | .and a b, t =>
      match a.eval ρ t with
      | .ff => .ff
      | .err => .err
      | .tt => b.eval ρ t
  | .or a b, t =>
      match a.eval ρ t with
      | .tt => .tt
      | .err => .err
      | .ff => b.eval ρ t

/-- A query as the engine sees it: FROM kinds in order, optional condition, whether it compiles. -/
structure EQuery where
  kinds    : List String
  cond     : Option Cond
  compiles : Bool := true      -- expr.Compile succeeded (unknown names / type errors make it fail)

/-- `FilterEntities`: no condition ⇒ true; compile error ⇒ false; failure or non-boolean ⇒ false. -/
def filterEntities (ρ : Nat → Tuple → Res) (q : EQuery) (t : Tuple) : Bool :=
  match q.cond with
  | none => true
  | some c => q.compiles && (c.eval ρ t == .tt)

/-- `cartesianProduct`, the same left fold as the Go code (the last set varies slowest). -/
def cartesianProduct {α : Type} (sets : List (List α)) : List (List α) :=
  sets.foldl (fun result set => set.flatMap (fun item => result.map (fun sub => sub ++ [item]))) [[]]

/-- `FindNodesByType` / the type index of `generateCartesianProduct` (after the fix: every node of the kind). -/
def candidates (g : List Node) (k : String) : List Node := g.filter (fun n => n.kind == k)

def generateCartesianProduct (g : List Node) (kinds : List String) : List Tuple :=
  cartesianProduct (kinds.map (candidates g))

/-- `QueryEntities` (the node part). -/
def queryEntities (ρ : Nat → Tuple → Res) (g : List Node) (q : EQuery) : List Tuple :=
  (generateCartesianProduct g q.kinds).filter (filterEntities ρ q)

end Cpf.Query
