/-
  Line-protocol driver of the Lean model (DESIGN.md §2.2). One request per line, fields separated
  by TAB with `\t \n \r \\` escaped; one response line per request. Imports core-only modules.
-/
import Cpf.Query.Listener
import Cpf.Query.Cli
import Cpf.Lemmas.LexLayoutQ
import Cpf.Query.WF
import Cpf.Query.Console
import Cpf.Query.Output
import Cpf.Scan.Build
import Cpf.Scan.Attrs
import Cpf.Rules.RuleFile
import Cpf.Rules.Ci
import Cpf.Rules.Bundle
import Cpf.Scan.Walk
import Cpf.Rules.JsonDoc
import Cpf.Generated.Grammar

open Cpf.Query Cpf.Go Cpf.Generated
open Cpf.Scan (T Bytes)

def unescape (s : String) : String :=
  let rec go : List Char → List Char → List Char
    | [], acc => acc.reverse
    | '\\' :: 't' :: r, acc => go r ('\t' :: acc)
    | '\\' :: 'n' :: r, acc => go r ('\n' :: acc)
    | '\\' :: 'r' :: r, acc => go r ('\r' :: acc)
    | '\\' :: '\\' :: r, acc => go r ('\\' :: acc)
    | c :: r, acc => go r (c :: acc)
  String.ofList (go s.toList [])

def escape (s : String) : String :=
  String.ofList (s.toList.flatMap (fun c =>
    if c == '\t' then ['\\', 't'] else if c == '\n' then ['\\', 'n'] else if c == '\r' then ['\\', 'r']
    else if c == '\\' then ['\\', '\\'] else [c]))

def params (ps : List Param) : List String :=
  toString ps.length :: ps.flatMap (fun p => [p.type, p.name])

def renderParsed (q : ParsedQuery) : List String :=
  ["ok", toString q.selectList.length] ++ q.selectList.flatMap (fun s => [s.entity, s.alias])
  ++ [toString q.selectOutput.length] ++ q.selectOutput.flatMap (fun s => [s.ty, s.text])
  ++ [toString q.predicates.length] ++ q.predicates.flatMap (fun p => [p.name] ++ params p.params ++ [p.body])
  ++ [toString q.invocations.length] ++ q.invocations.flatMap (fun i =>
        [i.name] ++ params i.args ++ [i.matched.name] ++ params i.matched.params ++ [i.matched.body])
  ++ [toString q.condition.length] ++ q.condition ++ [q.expression]

def hexVal (c : Char) : Nat :=
  if '0' ≤ c ∧ c ≤ '9' then c.toNat - '0'.toNat
  else if 'a' ≤ c ∧ c ≤ 'f' then c.toNat - 'a'.toNat + 10
  else if 'A' ≤ c ∧ c ≤ 'F' then c.toNat - 'A'.toNat + 10 else 0

def unhex (s : String) : Bytes :=
  let rec go : List Char → List UInt8 → List UInt8
    | a :: b :: r, acc => go r (UInt8.ofNat (hexVal a * 16 + hexVal b) :: acc)
    | _, acc => acc.reverse
  go s.toList []

def hexDigit (n : Nat) : Char := if n < 10 then Char.ofNat (48 + n) else Char.ofNat (87 + n)

def tohex (b : Bytes) : String :=
  String.ofList (b.flatMap (fun x => [hexDigit (x.toNat / 16), hexDigit (x.toNat % 16)]))

/-- parse a tree from its flat preorder rendering: ty, field, sb, eb, sr, sc, named, nchildren -/
partial def parseTree : List String → Option (T × List String)
  | ty :: field :: sb :: eb :: sr :: sc :: named :: nc :: rest =>
      let rec kids (k : Nat) (r : List String) (acc : List T) : Option (List T × List String) :=
        match k with
        | 0 => some (acc.reverse, r)
        | k + 1 =>
            match parseTree r with
            | some (c, r') => kids k r' (c :: acc)
            | none => none
      match kids nc.toNat! rest [] with
      | some (cs, r) => some (T.mk ty field sb.toNat! eb.toNat! sr.toNat! sc.toNat! (named == "1") cs, r)
      | none => none
  | _ => none

open Cpf.Scan in
/-- flat attribute view of the entities produced at node `n` (kind-specific), values hex-encoded -/
def attrFields (sigs : List (Bytes × Nat)) (n : T) (prev : Option T) (src : Bytes) (kind : String) : List (String × String) :=
  let s (b : Bytes) : String := "s:" ++ tohex b
  let l (bs : List Bytes) : String := "l:" ++ ",".intercalate (bs.map tohex)
  let o (ob : Option Bytes) : String := match ob with | some b => "s:" ++ tohex b | none => "n"
  let tags (ts : List Tag) : List (String × String) :=
    [("tags.name", l (ts.map (·.name))), ("tags.text", l (ts.map (·.text))), ("tags.type", l (ts.map (·.docType)))]
  if kind = "method_declaration" then
    let a := methodAttrs n src
    [("name", s a.name), ("modifier", s a.modifier), ("returnType", s a.returnType), ("argTypes", l a.argTypes),
     ("argValues", l a.argValues), ("throws", l a.throws), ("annotations", l a.annotations),
     ("hasAccess", s (str (if hasAccess sigs a.name a.argTypes.length then "true" else "false")))]
    ++ (match javadocOf prev src with | some ts => tags ts | none => [("tags", "n")])
  else if kind = "class_declaration" then
    let a := classAttrs n src
    [("name", s a.name), ("modifier", s a.modifier), ("superClass", s a.superClass), ("interfaces", l a.interfaces),
     ("annotations", l a.annotations)]
    ++ (match javadocOf prev src with | some ts => tags ts | none => [("tags", "n")])
  else if kind = "variable_declaration" then
    let a := varAttrs n src
    [("name", s a.name), ("modifier", s a.modifier), ("dataType", s a.dataType), ("scope", s a.scope), ("value", s a.value)]
  else if kind = "method_invocation" then
    [("name", s (invocationName n src)), ("argValues", l (callArgs n src))]
  else if kind = "ClassInstanceExpr" then
    [("name", s (classNameOf n src)), ("classInst.name", s (classNameOf n src)),
     ("classInst.args.type", l ((newArgs n src).map (fun a => str a.1))), ("classInst.args.text", l ((newArgs n src).map (·.2)))]
  else if kind = "block_comment" then tags (parseJavadocTags (n.content src))
  else if kind = "IfStmt" then
    [("if.cond", o (childContent n 1 src)), ("if.then", s ((childContent n 2 src).getD [])), ("if.else", s ((childContent n 4 src).getD []))]
  else if kind = "WhileStmt" then [("while.cond", o (childContent n 1 src))]
  else if kind = "DoStmt" then [("do.cond", o (fieldContent n "condition" src))]
  else if kind = "ForStmt" then
    [("for.init", o (fieldContent n "init" src)), ("for.cond", o (fieldContent n "condition" src)), ("for.incr", o (fieldContent n "update" src))]
  else if kind = "BreakStmt" then [("break.label", s (labelOf n src))]
  else if kind = "ContinueStmt" then [("continue.label", s (labelOf n src))]
  else if kind = "YieldStmt" then [("yield.value", o (childContent n 1 src))]
  else if kind = "AssertStmt" then [("assert.expr", o (childContent n 1 src)), ("assert.msg", o (assertMessage n src))]
  else if kind = "ReturnStmt" then [("return.result", o (returnResult n src))]
  else if kind = "BlockStmt" then [("block.stmts", l (blockStmts n src))]
  else if n.ty = "binary_expression" then
    [("binary.op", s (((n.childByField "operator").map (fun x => str x.ty)).getD [])),
     ("binary.left", o (fieldContent n "left" src)), ("binary.right", o (fieldContent n "right" src))]
  else []

open Cpf.Scan in
partial def attrWalk (sigs : List (Bytes × Nat)) (src file : Bytes) (n : T) (prev : Option T) : List String :=
  let here :=
    match emitAt n src file with
    | .ok es => es.flatMap (fun e =>
        let fs := attrFields sigs n prev src e.kind
        [tohex e.pre, toString fs.length] ++ fs.flatMap (fun p => [p.1, p.2]))
    | _ => []
  let rec kids (cs : List T) (p : Option T) : List String :=
    match cs with
    | [] => []
    | c :: rest => attrWalk sigs src file c p ++ kids rest (some c)
  here ++ kids n.children none

/-- fields: per rule: text, then `fail` or `ok n (file line)*` -/
def sarifEntries : Nat → List String → List Cpf.Rules.Entry → List Cpf.Rules.Entry
  | 0, _, acc => acc
  | fuel + 1, fs, acc =>
      match fs with
      | text :: "fail" :: rest => sarifEntries fuel rest (acc ++ [{ rule := Cpf.Rules.ciParse text.toList, result := none }])
      | text :: "ok" :: n :: rest =>
          let k := n.toNat!
          let fl := (List.range k).map (fun i => ({ file := rest[2 * i]!, line := (rest[2 * i + 1]!).toNat! } : Cpf.Rules.Finding))
          sarifEntries fuel (rest.drop (2 * k)) (acc ++ [{ rule := Cpf.Rules.ciParse text.toList, result := some fl }])
      | _ => acc

def handle (fields : List String) : List String :=
  match fields with
  | ["ping"] => ["pong"]
  | ["lex", q] =>
      let (ts, errs) := lex lexRules q.toList
      toString errs :: ts.flatMap (fun t => [t.kind, t.text])
  | ["relayout", a, b] =>
      [toString (Cpf.Lemmas.LexLayoutQ.relayoutB (a.length + b.length + 2) a.toList b.toList)]
  | ["accept", q] =>
      match lex lexRules q.toList with
      | (ts, 0) => [if accepts grammar (fuelFor ts) startRule ts then "accept" else "reject"]
      | _ => ["reject-lex"]
  | ["parse", q] =>
      match parseQuery lexRules grammar startRule q.toList with
      | .ok pq => renderParsed pq
      | .diag m => ["diag", m]
      | .panic m => ["panic", m]
  | ["wf", q] =>
      match lex lexRules q.toList with
      | (ts, 0) =>
          match (parsesOf grammar (fuelFor ts) startRule ts) with
          | [] => ["reject"]
          | trees => [if trees.all wfTree then "1" else "0", toString trees.length]
      | _ => ["reject-lex"]
  | "console" :: chunks =>
      -- transcript of the console model with the identity as `answer` (the lines that get answered)
      let cs := chunks.map String.toList
      (Console.console String.ofList (cs.flatten.length + 1) ⟨[], cs⟩)
  | ["output", q] =>
      -- the row layout the model predicts for one combination: per SELECT item `lit:<text>` or `val:<expr>`
      match prepare q.toList with
      | .ok p =>
          "ok" :: (p.pq.selectOutput.flatMap (itemCells [])).map (fun c =>
            match c with
            | .lit s => "lit:" ++ s
            | .val e _ => "val:" ++ e)
      | .diag m => ["diag", m]
      | .panic m => ["panic", m]
  | "scan-model" :: file :: srcHex :: tree =>
      match parseTree tree with
      | none => ["bad-tree"]
      | some (t, _) =>
          match Cpf.Scan.buildGraph t (unhex srcHex) (Cpf.Scan.str file) with
          | .ok st =>
              let ents := Cpf.Scan.dedup st.ents
              ["ok", toString st.ents.length, toString ents.length, toString (Cpf.Scan.passOps st)]
                ++ ents.flatMap (fun e => [e.kind, toString e.line, toString e.sb, toString e.eb, tohex e.pre])
                ++ [toString st.edges.length] ++ st.edges.flatMap (fun e => [tohex e.1, tohex e.2])
          | .diag m => ["diag", m]
          | .panic m => ["panic", m]
  | "scan-attrs" :: file :: srcHex :: tree =>
      match parseTree tree with
      | none => ["bad-tree"]
      | some (t, _) => "ok" :: attrWalk (Cpf.Scan.callSigs (unhex srcHex) t) (unhex srcHex) (Cpf.Scan.str file) t none
  | ["rulefile", text] =>
      let r := Cpf.Rules.ciParse text.toList
      [r.id, r.description, r.severity, r.impact, r.provider, r.query].map String.ofList
  | ["extract", text] => [String.ofList (Cpf.Rules.extractQuery text.toList)]
  | "sarif" :: fields =>
      let es := sarifEntries fields.length fields []
      (Cpf.Rules.sarifRules es).map String.ofList ++ ["--"] ++
        (Cpf.Rules.sarifResults es).flatMap (fun r => [String.ofList r.ruleId, String.ofList r.level, String.ofList r.message, r.file, toString r.line])
  | "jsonescape" :: strs => strs.map (fun s => "\"" ++ String.ofList (Cpf.Rules.Json.escape s.toList) ++ "\"")
  | "bundle" :: fields =>
      -- fields: name, content, name, content … (sorted by name) -> the contents the loader is predicted to see
      let rec files (fs : List String) : List Cpf.Rules.Bundle.File :=
        match fs with
        | n :: c :: rest => { name := n.toList, content := c.toList } :: files rest
        | _ => []
      (Cpf.Rules.Bundle.consume (Cpf.Rules.Bundle.produce (files fields))).map (fun o =>
        match o with
        | some c => String.ofList c
        | none => "<undecodable>")
  | "bundle-doc" :: name :: fields =>
      -- fields: file name, content, … (in directory order): the bytes the bundling script is predicted to write and
      -- what the hosted loader is predicted to get out of them
      let rec dfiles (fs : List String) : List Cpf.Rules.Bundle.File :=
        match fs with
        | n :: c :: rest => { name := n.toList, content := c.toList } :: dfiles rest
        | _ => []
      let bytes := Cpf.Rules.Bundle.bundleBytes name.toList (dfiles fields)
      match Cpf.Rules.Bundle.loadHosted bytes with
      | some rules => String.ofList bytes :: rules.map String.ofList
      | none => [String.ofList bytes, "<undecodable>"]
  | "jsondoc" :: fields =>
      -- fields: preorder of a document: "S" text | "N" digits | "A" n | "O" n (then n times: key, value)
      -- answer: the compact encoding, whether it decodes back to the same document
      let rec val (fuel : Nat) (fs : List String) : Option (Cpf.Rules.JsonDoc.JV × List String) :=
        match fuel, fs with
        | 0, _ => none
        | _ + 1, "S" :: t :: rest => some (.str t.toList, rest)
        | _ + 1, "N" :: d :: rest => some (.num d.toList, rest)
        | fuel + 1, "A" :: n :: rest =>
            let rec elems (m : Nat) (i : Nat) (fs : List String) (acc : List Cpf.Rules.JsonDoc.JV) : Option (List Cpf.Rules.JsonDoc.JV × List String) :=
              match m, i with
              | _, 0 => some (acc.reverse, fs)
              | 0, _ => none
              | m + 1, i + 1 =>
                  match val fuel fs with
                  | some (v, rest') => elems m i rest' (v :: acc)
                  | none => none
            (elems (rest.length + 1) (n.toNat?.getD 0) rest []).map (fun p => (Cpf.Rules.JsonDoc.JV.arr p.1, p.2))
        | fuel + 1, "O" :: n :: rest =>
            let rec membs (m : Nat) (i : Nat) (fs : List String) (acc : List (List Char × Cpf.Rules.JsonDoc.JV)) : Option (List (List Char × Cpf.Rules.JsonDoc.JV) × List String) :=
              match m, i, fs with
              | _, 0, fs => some (acc.reverse, fs)
              | 0, _, _ => none
              | m + 1, i + 1, k :: fs' =>
                  match val fuel fs' with
                  | some (v, rest') => membs m i rest' ((k.toList, v) :: acc)
                  | none => none
              | _, _, [] => none
            (membs (rest.length + 1) (n.toNat?.getD 0) rest []).map (fun p => (Cpf.Rules.JsonDoc.JV.obj p.1, p.2))
        | _, _ => none
      match val (fields.length + 1) fields with
      | some (v, _) =>
          let text := Cpf.Rules.JsonDoc.enc v
          let back := match Cpf.Rules.JsonDoc.decode text with
            | some v' => if Cpf.Rules.JsonDoc.enc v' == text then "roundtrip" else "differs"
            | none => "undecodable"
          [String.ofList text, back, if Cpf.Rules.JsonDoc.wf v then "wf" else "not-wf"]
      | none => ["bad-doc"]
  | "walk-model" :: root :: ents =>
      -- ents: preorder of the tree below and including the root: "F" name lstatErr | "D" name lstatErr readErr nkids
      let rec ent (fuel : Nat) (fs : List String) : Option (Cpf.Scan.Walk.Ent × List String) :=
        match fuel, fs with
        | 0, _ => none
        | fuel + 1, "F" :: n :: le :: rest => some (.file n (le == "1"), rest)
        | fuel + 1, "D" :: n :: le :: re :: k :: rest =>
            let rec kids (m : Nat) (i : Nat) (fs : List String) (acc : List Cpf.Scan.Walk.Ent) : Option (List Cpf.Scan.Walk.Ent × List String) :=
              match m, i with
              | _, 0 => some (acc.reverse, fs)
              | 0, _ => none
              | m + 1, i + 1 =>
                  match ent fuel fs with
                  | some (e, rest') => kids m i rest' (e :: acc)
                  | none => none
            match kids (fs.length + 1) (k.toNat?.getD 0) rest [] with
            | some (ks, rest') => some (.dir n (le == "1") (re == "1") ks, rest')
            | none => none
        | _, _ => none
      match ent (ents.length + 1) ents with
      | some (e, _) =>
          let (files, err) := Cpf.Scan.Walk.getFiles (root.splitOn "/") e
          (if err then "err" else "ok") :: files.map (fun p => "/".intercalate p)
      | none => ["bad-tree"]
  | ["cond", q] =>
      match prepare q.toList with
      | .ok p =>
          ["ok", p.expanded, (match p.cond with | some c => c.render | none => "-"), toString p.atoms.length] ++ p.atoms
      | .diag m => ["diag", m]
      | .panic m => ["panic", m]
  | "engine" :: q :: nodes :: compiles :: tables =>
      match prepare q.toList with
      | .ok p =>
          let g : List Node := (nodes.splitOn ",").filterMap (fun s =>
            match s.splitOn ":" with
            | [i, k] => i.toNat?.map (fun n => ({ id := n, kind := k } : Node))
            | _ => none)
          let tabs : List (List (String × Res)) := tables.map (fun tb =>
            (tb.splitOn ",").filterMap (fun e =>
              match e.splitOn "=" with
              | [k, "t"] => some (k, Res.tt)
              | [k, "f"] => some (k, Res.ff)
              | [k, _] => some (k, Res.err)
              | _ => none))
          let key (t : Tuple) : String := ".".intercalate (t.map (fun n => toString n.id))
          let ρ : Nat → Tuple → Res := fun i t =>
            match tabs[i]? with
            | some tb => ((tb.find? (fun e => e.1 == key t)).map (·.2)).getD Res.err
            | none => Res.err
          let eq : EQuery := { kinds := p.pq.selectList.map (·.entity), cond := p.cond, compiles := compiles == "1" }
          "ok" :: (queryEntities ρ g eq).map key
      | .diag m => ["diag", m]
      | .panic m => ["panic", m]
  | _ => ["bad-op"]

partial def loop (h : IO.FS.Stream) (out : IO.FS.Stream) : IO Unit := do
  let line ← h.getLine
  if line.isEmpty then return ()
  let l := if line.endsWith "\n" then (line.dropEnd 1).toString else line
  let fields := (l.splitOn "\t").map unescape
  let resp := handle fields
  out.putStrLn ("\t".intercalate (resp.map escape))
  out.flush
  loop h out

def main : IO Unit := do
  loop (← IO.getStdin) (← IO.getStdout)
