"""C20 — hosted ruleset bundles round-trip the rules directory.

Proof: Cpf.Props.C20 (JSON string round trip for every Unicode string; the producer's and the local loader's
file-name tests agree; bundle -> loader = local loader, entry by entry; regenerated key/type agreement).
Correspondence: the model's `escape` vs json.Marshal on generated strings; the model's prediction of what the
loader sees vs the real loader. Oracle: the real gen-script binary (built from the working tree) packages
generated flat directories in a scratch tree; the resulting bundle is served to the real
loadRules(..., hosted=true) through a stub http.RoundTripper; the real local loader reads the same directory;
both must yield the same multiset of byte-identical texts = the files' contents."""
import collections, json, os, random, shutil, subprocess
from vlib import common as C

LEAN_MODULES = ["Cpf.Props.C20"]

PIECES = ['"', "\\", "\n", "\r\n", "\t", "<", ">", "&", " ", " ", "\x00", "\x01", "\x08", "\x0c", "\x1f", "\x7f", "é", "日本", "😀", "'", "/", "\\u0041", "\\n",
          "\\u003c", "\\u003e", "\\u0026", "\\u2028", "\\\\", "\\\"", "\\", "u003c", "&lt;", "\u2028", "\u2029", "\ufeff", "\\/",
          "FROM a AS b SELECT b", "/* c */", "{", "}", "[", "]", ":", ",", " ", "%", "</script>"]


def rand_text(rng, n=None):
    n = rng.randint(0, 30) if n is None else n
    return "".join(rng.choice(PIECES) for _ in range(n))


def rand_name(rng):
    stem = "".join(rng.choice(list("abcXYZ019_-. ") + ["é", "日", "😀", "'", "&", "<"]) for _ in range(rng.randint(1, 8))).strip() or "r"
    stem = stem.replace("/", "_")
    if stem in (".", ".."):
        stem = "r"
    ext = rng.choice([".cql", ".cql", ".cql", ".txt", ".CQL", ".cql.bak", "", ".cq", "cql", ".json"])
    return stem + ext


def run(run):
    C.build_driver()
    h, d = C.Harness(), C.Driver()
    rng = run.rng
    quick = run.depth == "quick"
    stats = collections.Counter()
    mism = []
    try:
        # ---- the model's string encoding vs encoding/json
        strs = [rand_text(rng) for _ in range(200 if quick else 5000)] + PIECES + ["".join(PIECES)]
        B = 200
        for i in range(0, len(strs), B):
            chunk = strs[i:i + B]
            r = h.call(op="jsonmarshal", strs=chunk)
            m = d.call("jsonescape", *chunk)
            for s_, a, b in zip(chunk, r["out"], m):
                run.count(("str", s_))
                stats["strings"] += 1
                if a != b:
                    mism.append(dict(string=s_, go=a, model=b))
        # ---- the real round trip
        for case in range(6 if quick else 80):
            root = C.scratch("c20")
            try:
                # (ruleset names of every shape, in turn: also ones that begin with the letters of the `cpf/` prefix)
                NAMES = ["java", "python", "my-rules", "cpp", "android", "frontend", "r2", "crypto-rules", "cpf", "c", "fcp.v2", "pf_rules"]
                name = NAMES[case % len(NAMES)]
                rdir = os.path.join(root, "pathfinder-rules", name)
                os.makedirs(rdir)
                os.makedirs(os.path.join(root, "pathfinder-rules", "gen-script"))
                files = {}
                for _ in range(rng.randint(0, 10)):
                    fn = rand_name(rng)
                    if fn in files:
                        continue
                    files[fn] = rand_text(rng) if rng.random() < 0.8 else "/**\n * @id x\n */\nFROM method_declaration AS md\nSELECT md.getName(), \"<&>\"\n"
                # always: one file per look-alike of the extension (other case, a suffix after it, a name that is only the extension)
                for j, look in enumerate(["SECOND.CQL", "x.Cql", "old.cql.bak", "notes.cqlx", ".cql", "cql", "dir.cql.d"]):
                    if (case + j) % 2 == 0 and look not in files:
                        files[look] = "look-alike %d of case %d" % (j, case)
                # always, in every second ruleset: a zero-byte rule file (an empty text is a rule text like any other)
                if case % 2 == 1:
                    files["placeholder.cql"] = ""
                # equal contents under different names (a rule copied under a second name, two empty files): the
                # property speaks of the *multiset* of rule texts
                if case % 2 == 0:
                    cqls = [fn for fn in files if fn.endswith(".cql")]
                    for j in range(rng.randint(1, 3)):
                        src_text = files[rng.choice(cqls)] if cqls and rng.random() < 0.7 else rng.choice(["", "", rand_text(rng, 3)])
                        files["dup%d_%s.cql" % (j, rng.choice(["a", "é", "x y"]))] = src_text
                        files["dup%d_b.cql" % j] = src_text
                        stats["duplicate_content_pairs"] += 1
                if case == 1 or (not quick and case % 9 == 4):
                    # a ruleset whose bundle is larger than a megabyte: one long rule text, and texts that grow when
                    # they are written as JSON (every < > & quote and line break takes two to six bytes)
                    files["big_rule.cql"] = "/**\n * @id big/one\n */\nFROM method_declaration AS md\nWHERE " + " || ".join('md.getName() == "name%06d"' % j for j in range(32000)) + "\nSELECT md\n"
                    for j in range(4):
                        files["escapes%d.cql" % j] = ("<&>\"\\\n" * 9000) + str(j)
                    stats["bundles_over_a_megabyte"] += 1
                for fn, text in files.items():
                    with open(os.path.join(rdir, fn), "wb") as f:
                        f.write(text.encode("utf-8"))
                run.count(("dir", case, tuple(sorted(files))))
                p = subprocess.run([os.path.join(C.BUILD, "gen-script")], cwd=os.path.join(root, "pathfinder-rules", "gen-script"),
                                   stdout=subprocess.PIPE, stderr=subprocess.STDOUT, timeout=60)
                bundle_path = os.path.join(root, "docs", "public", "rules", name + ".json")
                want = collections.Counter(text for fn, text in files.items() if fn.endswith(".cql"))
                local = h.call(op="loadrules", dir=rdir)
                if local.get("outcome") != "ok":
                    run.violation("C20:local-loader-failed", "loadRules on the directory ends with %s" % local.get("outcome"), dict(files=files))
                    continue
                got_local = collections.Counter(local["rules"] or [])
                if not want:
                    stats["dirs_without_rules"] += 1
                    if os.path.exists(bundle_path):
                        hosted = h.call(op="hosted", text="cpf/" + name, bundle=open(bundle_path, encoding="utf-8").read())
                        if collections.Counter(hosted.get("rules") or []) != got_local:
                            run.violation("C20:bundle-differs-from-directory", "a directory without .cql files yields rules through the bundle", dict(files=files))
                    continue
                if p.returncode != 0 or not os.path.exists(bundle_path):
                    run.violation("C20:bundler-failed", "the bundling script wrote no bundle for a directory with %d .cql files (rc=%s): %s" %
                                  (sum(want.values()), p.returncode, p.stdout.decode("utf-8", "replace")[-300:]), dict(files=files))
                    continue
                bundle = open(bundle_path, encoding="utf-8").read()
                hosted = h.call(op="hosted", text="cpf/" + name, bundle=bundle)
                stats["roundtrips"] += 1
                if hosted.get("outcome") != "ok":
                    run.violation("C20:hosted-loader-failed", "loading the bundle ends with %s: %s" % (hosted.get("outcome"), hosted.get("err")), dict(files=files, bundle=bundle[:2000]))
                    continue
                if hosted.get("urls") != ["https://codepathfinder.dev/rules/%s.json" % name]:
                    run.violation("C20:wrong-url", "the loader requested %s" % hosted.get("urls"), dict(name=name))
                got_hosted = collections.Counter(hosted["rules"] or [])
                if got_hosted != got_local or got_hosted != want:
                    only_h = list((got_hosted - got_local).elements())[:2]
                    only_l = list((got_local - got_hosted).elements())[:2]
                    run.violation("C20:bundle-differs-from-directory",
                                  "the bundle yields %d rule texts, the directory %d (written: %d); e.g. only via bundle %r, only from disk %r" %
                                  (sum(got_hosted.values()), sum(got_local.values()), sum(want.values()), only_h, only_l),
                                  dict(files=files, bundle=bundle[:3000]))
                # model prediction
                flat = []
                for fn in sorted(files, key=lambda s: s.encode("utf-8")):
                    flat += [fn, files[fn]]
                pred = d.call("bundle", *flat) if flat else []
                pred = [] if pred == [""] and not any(fn.endswith(".cql") for fn in files) else pred
                if collections.Counter(pred) != got_hosted:
                    mism.append(dict(files=sorted(files), model=pred[:3], real=list(got_hosted)[:3]))
                # document level: the bytes the script wrote vs the Lean model of MarshalIndent on the same directory,
                # and what the Lean loader model reads out of them
                dd = d.call("bundle-doc", name, *flat)
                stats["bundle_documents_compared"] += 1
                if dd[0] != bundle or list(dd[1:]) != list(hosted["rules"] or []):
                    k = next((i for i, (a, b) in enumerate(zip(dd[0], bundle)) if a != b), min(len(dd[0]), len(bundle)))
                    mism.append(dict(what="bundle document", files=sorted(files), first_difference_at=k, model=dd[0][max(0, k - 40):k + 40], real=bundle[max(0, k - 40):k + 40],
                                     model_rules=len(dd) - 1, real_rules=len(hosted["rules"] or [])))
                if case < 2:
                    run.sample(dict(directory=sorted(files), cql_files=sum(want.values()), bundle_bytes=len(bundle)))
                # ---- the directory shrinks and is bundled again into the same place (a rule was removed, a text got
                #      shorter): the new bundle stands for the new directory
                cqls = [fn for fn in files if fn.endswith(".cql")]
                if len(cqls) >= 2:
                    victim = max(cqls, key=lambda fn: len(files[fn].encode("utf-8")))
                    os.remove(os.path.join(rdir, victim))
                    files2 = {fn: t for fn, t in files.items() if fn != victim}
                    other = next(fn for fn in cqls if fn != victim)
                    files2[other] = files2[other][: len(files2[other]) // 2]
                    open(os.path.join(rdir, other), "wb").write(files2[other].encode("utf-8"))
                    p2 = subprocess.run([os.path.join(C.BUILD, "gen-script")], cwd=os.path.join(root, "pathfinder-rules", "gen-script"),
                                        stdout=subprocess.PIPE, stderr=subprocess.STDOUT, timeout=60)
                    stats["rebundled_after_shrinking"] += 1
                    run.count(("rebundle", case))
                    want2 = collections.Counter(t for fn, t in files2.items() if fn.endswith(".cql"))
                    try:
                        bundle2 = open(bundle_path, encoding="utf-8").read()
                    except Exception:
                        bundle2 = None
                    hosted2 = h.call(op="hosted", text="cpf/" + name, bundle=bundle2) if bundle2 is not None else dict(outcome="no-bundle")
                    got2 = collections.Counter(hosted2.get("rules") or []) if hosted2.get("outcome") == "ok" else None
                    if p2.returncode != 0 or got2 != want2:
                        run.violation("C20:rebundle-differs-from-directory",
                                      "after a rule file was removed and another shortened, bundling again into the same place gives a bundle that %s (directory: %d rule texts)" %
                                      ("the loader cannot read: %s" % str(hosted2.get("err") or hosted2.get("outcome"))[:120] if got2 is None else "yields %d rule texts" % sum(got2.values()), sum(want2.values())),
                                      dict(files_before=files, files_after=files2, first_bundle_bytes=len(bundle), second_bundle_bytes=None if bundle2 is None else len(bundle2)))
            finally:
                shutil.rmtree(root, ignore_errors=True)
    finally:
        h.close()
        d.close()
    run.extra["histogram"] = dict(stats)
    if mism:
        run.broken_obligation("correspondence:bundle", "the Lean model and the implementation disagree: %s" % json.dumps(mism[:3])[:1500])
