/-
  From the expression text handed to the evaluator to the boolean structure the evaluator sees:
  `||`, `&&`, `!`, parentheses; everything else is an opaque atom identified by its token text.
  The text is parsed with the `expression` rule of the (generated) query grammar; expr-lang's own
  parser agrees with it on the precedence of these operators (assumption, validated differentially).
-/
import Cpf.Query.Subst
import Cpf.Query.Engine

namespace Cpf.Query

/-- index of `x` in `xs` (appending it when new) -/
def internAtom (atoms : List String) (x : String) : List String × Nat :=
  match atoms.findIdx? (· == x) with
  | some i => (atoms, i)
  | none => (atoms ++ [x], atoms.length)

def isOpLeaf (s : String) : PT → Bool
  | .leaf t => t.text == s
  | _ => false

mutual
/-- conversion of an `expression` parse tree -/
def toCond : PT → List String → Option (Cond × List String)
  | .leaf _, _ => none
  | .node rule cs, atoms =>
      if rule = "expression" then
        match cs with
        | [c] => toCond c atoms
        | _ => none
      else if rule = "orExpression" then chainCond true cs atoms
      else if rule = "andExpression" then chainCond false cs atoms
      else if rule = "equalityExpression" ∨ rule = "relationalExpression" ∨ rule = "additiveExpression"
              ∨ rule = "multiplicativeExpression" then
        match cs with
        | [c] => toCond c atoms
        | _ => let (a, i) := internAtom atoms (PT.textList cs); some (Cond.atom i, a)
      else if rule = "unaryExpression" then
        match cs with
        | [c] => toCond c atoms
        | [op, c] =>
            if isOpLeaf "!" op then
              match toCond c atoms with
              | some (x, a) => some (Cond.not x, a)
              | none => none
            else let (a, i) := internAtom atoms (PT.textList cs); some (Cond.atom i, a)
        | _ => none
      else if rule = "primary" then
        match cs with
        | [_, e, _] => toCond e atoms
        | _ => let (a, i) := internAtom atoms (PT.textList cs); some (Cond.atom i, a)
      else let (a, i) := internAtom atoms (PT.textList cs); some (Cond.atom i, a)
/-- `x (op x)*` chains, left-associative -/
def chainCond (isOr : Bool) : List PT → List String → Option (Cond × List String)
  | [], _ => none
  | [c], atoms => toCond c atoms
  | c :: _op :: rest, atoms =>
      match toCond c atoms with
      | none => none
      | some (x, a) =>
          match chainCond isOr rest a with
          | none => none
          | some (y, a') => some (if isOr then Cond.or x y else Cond.and x y, a')
  end

/-- prefix rendering for the line protocol -/
def Cond.render : Cond → String
  | .atom i => "a" ++ toString i
  | .not c => "!(" ++ c.render ++ ")"
  | .and a b => "&(" ++ a.render ++ "," ++ b.render ++ ")"
  | .or a b => "|(" ++ a.render ++ "," ++ b.render ++ ")"

end Cpf.Query
