"""C12 — boolean connectives in WHERE behave as set operations on results.

Proof: Cpf.Props.C12 (and = intersection unconditionally; or/not = union/complement where the operand does
not fail; De Morgan, double negation, absorption, distribution, association unconditionally; the
full or/not statements are refuted by a witness = the recorded finding).
Correspondence + oracle: related queries are run through the real engine and the *set laws* are checked
on the real results; the same queries go through the Lean model (vlib/engine.py)."""
import collections, json, random
from vlib import common as C, engine as E, querygen as QG, genjava as G
from checks import c01

LEAN_MODULES = ["Cpf.Props.C12"]

RAISING = """package gen;
class Mk { void m() { Object a = new Foo(); Object b = new Bar("x"); Object c = new Baz("x", 1); Object d = new Qux(); } }
"""


def atom_text(a):
    return "".join(t for _, t in a[1])


def run(run):
    stats = c01.sweep(run, "C12")
    C.build_driver()
    h, d = C.Harness(), C.Driver()
    rng = run.rng
    nproj = 2 if run.depth == "quick" else 8
    mism = []
    try:
        for pi in range(nproj):
            proj = E.small_project(rng, h, nfiles=2, extra={"src/Mk.java": RAISING})
            try:
                groups = []
                # plain atoms over one kind
                k1 = rng.choice([k for k in ("method_declaration", "variable_declaration", "class_declaration") if proj.by_kind.get(k)])
                plain = []
                while len(plain) < 3:
                    a = QG.accessor_atom(rng, "x", k1, proj.values)
                    if atom_text(a) not in [atom_text(b) for b in plain]:
                        plain.append(a)
                groups.append((k1, plain))
                # comparisons of one accessor with different literals (mutually exclusive equalities): nothing can be
                # concluded from them once a `!` is involved
                nm = (proj.values.get((k1, "getName")) or ["a", "b"])
                v1, v2 = (rng.sample(nm, 2) if len(nm) >= 2 else (nm[0], "zz"))
                eq = lambda v: ("atom", (QG.ident("x"), QG.sym("."), QG.ident("getName"), QG.sym("("), QG.sym(")"), QG.sym("=="), QG.strlit(QG.esc_lit(v))))
                groups.append((k1, [eq(v1), eq(v2), eq("no such name")]))
                # atoms outside the reference fragment, one of which raises at run time on some entities
                ci = [("atom", (QG.ident("x"), QG.sym("."), QG.ident("getClassInstanceExpr"), QG.sym("("), QG.sym(")"), QG.sym("."), QG.ident("GetArg"),
                                QG.sym("("), ("NUMBER", "0"), QG.sym(")"), QG.sym("."), QG.ident("NodeString"), QG.sym("=="), QG.strlit('\\"x\\"'))),
                      ("atom", (QG.ident("x"), QG.sym("."), QG.ident("getClassInstanceExpr"), QG.sym("("), QG.sym(")"), QG.sym("."), QG.ident("GetNumArgs"),
                                QG.sym("("), QG.sym(")"), QG.sym(">="), ("NUMBER", "1"))),
                      ("atom", (QG.ident("x"), QG.sym("."), QG.ident("getName"), QG.sym("("), QG.sym(")"), QG.sym("!="), QG.strlit("Foo")))]
                groups.append(("ClassInstanceExpr", ci))
                for kind, atoms in groups:
                    def results(cond):
                        q = c01.make_query([(kind, "x")], cond, "x")
                        text = QG.plain(q)
                        res = E.engine_case(proj, d, text, q)
                        run.count(("law", pi, kind, text))
                        if res["model"] is not None and res["real"] is not None and res["model"] != res["real"]:
                            mism.append(dict(query=text, real=len(res["real"]), model=len(res["model"])))
                        return res, text
                    allr, _ = results(None)
                    universe = set(allr["real"] or [])
                    base = {}
                    for a in atoms:
                        r, t = results(a)
                        base[atom_text(a)] = (set(r["real"] or []), r, t)
                    subs = list(atoms)
                    if run.depth == "thorough":
                        subs += [QG.mk("and", atoms[0], atoms[1]), QG.mk("or", atoms[1], atoms[2]), QG.mk("not", atoms[2])]
                    cache = {}

                    def R(cond):
                        k = QG.canonical(cond)
                        if k not in cache:
                            r, t = results(cond)
                            cache[k] = (set(r["real"] or []), r, t)
                        return cache[k]

                    def fails_somewhere(cond, tuples):
                        """does some atom of cond raise on one of these tuples? (then the recorded finding applies)"""
                        texts = E.atoms_of(cond, [])
                        if not tuples:
                            return False
                        er = h.call(op="eval-atoms", graph=proj.name, q=R(cond)[2], strs=texts, results=[list(t) for t in tuples])
                        return er.get("outcome") == "ok" and any(c in "enp" for row in er["tables"] for c in row)

                    def law(name, lhs_cond, expected_set, involved):
                        got = R(lhs_cond)[0]
                        if got != expected_set:
                            diff = (got ^ expected_set)
                            if fails_somewhere(involved, sorted(diff)):
                                sig = "C12:runtime-error-in-operand"
                            else:
                                sig = "C12:set-law:" + name
                            run.violation(sig, "%s fails on the real engine for %r: %d combination(s) differ, e.g. %s" %
                                          (name, R(lhs_cond)[2], len(diff), E.describe(proj, sorted(diff), 2)),
                                          dict(law=name, query=R(lhs_cond)[2], java=E.java_files(proj), differing=E.describe(proj, sorted(diff))))
                    for a in subs:
                        law("results(!A) = all - results(A)", QG.mk("not", a), universe - R(a)[0], a)
                        law("results(!!A) = results(A)", QG.mk("not", QG.mk("not", a)), R(a)[0], a)
                        law("results((A)) = results(A)", ("paren", a), R(a)[0], a)
                        for b in subs:
                            both = QG.mk("and", a, b)
                            law("results(A && B) = results(A) ∩ results(B)", both, R(a)[0] & R(b)[0], both)
                            law("results(A || B) = results(A) ∪ results(B)", QG.mk("or", a, b), R(a)[0] | R(b)[0], both)
                            law("De Morgan !(A && B) = !A || !B", QG.mk("not", both), R(QG.mk("or", QG.mk("not", a), QG.mk("not", b)))[0], both)
                            law("De Morgan !(A || B) = !A && !B", QG.mk("not", QG.mk("or", a, b)), R(QG.mk("and", QG.mk("not", a), QG.mk("not", b)))[0], both)
                            law("commutation A || B = B || A", QG.mk("or", a, b), R(QG.mk("or", b, a))[0], both)
                            law("commutation A && B = B && A", both, R(QG.mk("and", b, a))[0], both)
                            law("absorption A || (A && B) = A", QG.mk("or", a, both), R(a)[0], both)
                            # a negated group whose first / last operand is itself negated
                            na, nb = QG.mk("not", a), QG.mk("not", b)
                            law("!(!A && B) = A ∪ (all - B)", ("not", ("paren", QG.mk("and", na, b))), R(a)[0] | (universe - R(b)[0]), both)
                            law("!(!A || B) = A ∩ (all - B)", ("not", ("paren", QG.mk("or", na, b))), R(a)[0] & (universe - R(b)[0]), both)
                            law("!(A && !B) = (all - A) ∪ B", ("not", ("paren", QG.mk("and", a, nb))), (universe - R(a)[0]) | R(b)[0], both)
                            law("!(!A && !B) = A ∪ B", ("not", ("paren", QG.mk("and", na, nb))), R(a)[0] | R(b)[0], both)
                            # parentheses only group: every operand written in its own parentheses
                            P = lambda x: ("paren", x)
                            law("parentheses !((A) && (B)) = all - (A ∩ B)", ("not", P(("and", P(a), P(b)))), universe - (R(a)[0] & R(b)[0]), both)
                            law("parentheses !((A) || (B)) = all - (A ∪ B)", ("not", P(("or", P(a), P(b)))), universe - (R(a)[0] | R(b)[0]), both)
                            law("parentheses ((A) && (B)) = A ∩ B", P(("and", P(a), P(b))), R(a)[0] & R(b)[0], both)
                            law("parentheses ((A)) || (B) = A ∪ B", ("or", P(P(a)), P(b)), R(a)[0] | R(b)[0], both)
                            for c in atoms[:2]:
                                abc = QG.mk("and", both, c)
                                law("parentheses ((A) || (B)) && (C) = (A ∪ B) ∩ C", ("and", P(("or", P(a), P(b))), P(c)), (R(a)[0] | R(b)[0]) & R(c)[0], abc)
                                law("parentheses (C) && ((A) || (B)) = C ∩ (A ∪ B)", ("and", P(c), P(("or", P(a), P(b)))), (R(a)[0] | R(b)[0]) & R(c)[0], abc)
                                law("parentheses (C) || ((A) && (B)) = C ∪ (A ∩ B)", ("or", P(c), P(("and", P(a), P(b)))), (R(a)[0] & R(b)[0]) | R(c)[0], abc)
                            for c in atoms[:2]:
                                law("distribution A && (B || C) = (A && B) || (A && C)", QG.mk("and", a, QG.mk("or", b, c)),
                                    R(QG.mk("or", QG.mk("and", a, b), QG.mk("and", a, c)))[0], QG.mk("and", both, c))
                    run.sample(dict(kind=kind, atoms=[atom_text(a) for a in atoms], universe=len(universe),
                                    result_sizes={atom_text(a): len(base[atom_text(a)][0]) for a in atoms}))
                # --- operands that are calls of declared predicates, over two kinds: an alias may occur in the condition
                #     only as an argument of a call (never dereferenced there); the laws hold all the same
                small = [k for k in ("class_declaration", "method_declaration", "variable_declaration") if 1 <= len(proj.by_kind.get(k, [])) <= 40]
                # (odd rounds: the formal is spelled like the other FROM alias, and the other operand speaks of that alias)
                for rep in range(4 if run.depth == "quick" else 12):
                    if len(small) < 2:
                        break
                    ka, kb = rng.sample(small, 2)
                    a1, a2 = rng.choice([("c", "m"), ("x", "y"), ("a", "b")])
                    vb = rng.choice(proj.values.get((kb, "getName")) or ["zz"])
                    va = rng.choice(proj.values.get((ka, "getName")) or ["zz"])
                    fz = a1 if rep % 2 == 1 else "z"
                    body = rng.choice(['%s.getName() == "%s"' % (fz, vb), '%s.getName() != "%s"' % (fz, vb), '%s.getVisibility() == "public"' % fz])
                    decl = "predicate isP(%s %s) { %s } " % (kb, fz, body)
                    inl = "(" + body.replace(fz + ".", a2 + ".", 1) + ")"
                    B = "isP(%s)" % a2
                    A = rng.choice(['%s.getName() != "%s"' % (a2, vb), '%s.getVisibility() != "private"' % a2, '%s.getName() == "%s"' % (a1, va)])
                    if rep % 2 == 1:
                        A = rng.choice(['%s.getName() == "%s"' % (a1, va), '%s.getName() != "%s"' % (a1, va)])
                    T = '%s.getName() != "no such name"' % a1

                    def RS(cond, with_decl=True):
                        text = "%sFROM %s AS %s, %s AS %s %sSELECT %s" % (decl if with_decl else "", ka, a1, kb, a2, ("WHERE %s " % cond) if cond else "", a1)
                        rr = h.call(op="query-entities", graph=proj.name, q=text, timeout=120)
                        run.count(("pred-law", pi, rep, text))
                        stats["predicate_operand_cases"] += 1
                        if rr.get("outcome") != "ok":
                            return None, text
                        return {tuple(t) for t in rr["tuples"]}, text
                    U, _ = RS(None)
                    rB, tB = RS(B)
                    rA, _ = RS(A)
                    rI, _ = RS(inl, with_decl=False)
                    if None in (U, rB, rA, rI):
                        continue
                    checks = [("results(p(y)) = results(body of p on y)", RS(B), rI),
                              ("results(!p(y)) = all - results(body)", RS("!" + B), U - rI),
                              ("results(A && p(y)) = results(A) ∩ results(body)", RS("%s && %s" % (A, B)), rA & rI),
                              ("results(p(y) && A) = results(A) ∩ results(body)", RS("%s && %s" % (B, A)), rA & rI),
                              ("results(A || p(y)) = results(A) ∪ results(body)", RS("%s || %s" % (A, B)), rA | rI),
                              ("results(p(y) && T) = results(body), T true everywhere", RS("%s && %s" % (B, T)), rI),
                              ("results(!(A || p(y))) = all - (A ∪ body)", RS("!(%s || %s)" % (A, B)), U - (rA | rI))]
                    for name, (got, text), want in checks:
                        if got is not None and got != want:
                            diff = sorted(got ^ want)
                            run.violation("C12:set-law:" + name.split(" =")[0], "%s fails on the real engine for %r: %d combination(s) differ, e.g. %s" %
                                          (name, text, len(diff), E.describe(proj, diff, 2)),
                                          dict(law=name, query=text, java=E.java_files(proj), differing=E.describe(proj, diff)))
            finally:
                proj.close()
    finally:
        h.close()
        d.close()
    if mism:
        run.broken_obligation("correspondence:engine", "Lean engine model and QueryEntities disagree: %s" % json.dumps(mism[:3]))
