/-
  Abstract tree-sitter syntax trees and the structural part of graph/construct.go's
  buildGraphFromAST ("L1"): which entities a tree produces, in which order, with which location,
  identity pre-image and call links. Attribute extraction ("L2") is in Cpf/Scan/Attrs.lean.

  Which tree-sitter node type / operator produces which kind, the guard, the `LineNumber` /
  `CodeSnippet` / `File` expressions and the identity formats are NOT written here: they are the tables
  `Cpf.Generated.nodeLits`, regenerated from the Go source on every run. Bytes are `UInt8`.
-/
import Cpf.Go.Outcome
import Cpf.Generated.Tables

namespace Cpf.Scan
open Cpf.Go Cpf.Facts

abbrev Bytes := List UInt8

/-- UTF-8 encoding of one character (kernel-reducible, unlike `String.toUTF8`) -/
def utf8 (c : Char) : Bytes :=
  let n := c.toNat
  if n < 0x80 then [UInt8.ofNat n]
  else if n < 0x800 then [UInt8.ofNat (0xC0 + n / 64), UInt8.ofNat (0x80 + n % 64)]
  else if n < 0x10000 then [UInt8.ofNat (0xE0 + n / 4096), UInt8.ofNat (0x80 + (n / 64) % 64), UInt8.ofNat (0x80 + n % 64)]
  else [UInt8.ofNat (0xF0 + n / 262144), UInt8.ofNat (0x80 + (n / 4096) % 64), UInt8.ofNat (0x80 + (n / 64) % 64), UInt8.ofNat (0x80 + n % 64)]

def str (s : String) : Bytes := s.toList.flatMap utf8

/-- a syntax node: type, field name in its parent, byte range, start row/column, named?, children -/
inductive T where
  | mk (ty field : String) (sb eb sr sc : Nat) (named : Bool) (children : List T)
  deriving Repr, Inhabited

namespace T
def ty : T → String | mk t _ _ _ _ _ _ _ => t
def field : T → String | mk _ f _ _ _ _ _ _ => f
def sb : T → Nat | mk _ _ b _ _ _ _ _ => b
def eb : T → Nat | mk _ _ _ e _ _ _ _ => e
def sr : T → Nat | mk _ _ _ _ r _ _ _ => r
def sc : T → Nat | mk _ _ _ _ _ c _ _ => c
def named : T → Bool | mk _ _ _ _ _ _ n _ => n
def children : T → List T | mk _ _ _ _ _ _ _ cs => cs

/-- `node.Content(sourceCode)` -/
def content (n : T) (src : Bytes) : Bytes := (src.drop n.sb).take (n.eb - n.sb)

/-- `node.ChildByFieldName(f)` -/
def childByField (n : T) (f : String) : Option T := n.children.find? (fun c => c.field == f)

/-- `node.Child(i)` -/
def child (n : T) (i : Nat) : Option T := n.children[i]?

def namedChildren (n : T) : List T := n.children.filter (·.named)

mutual
def size : T → Nat
  | mk _ _ _ _ _ _ _ cs => 1 + sizeList cs
def sizeList : List T → Nat
  | [] => 0
  | c :: cs => size c + sizeList cs
end

mutual
/-- all nodes in the order the recursive visitor enters them -/
def preorder : T → List T
  | mk t f b e r c n cs => mk t f b e r c n cs :: preorderList cs
def preorderList : List T → List T
  | [] => []
  | c :: cs => preorder c ++ preorderList cs
end
end T

def hasPrefixB : Bytes → Bytes → Bool
  | _, [] => true
  | [], _ :: _ => false
  | c :: cs, p :: ps => c == p && hasPrefixB cs ps

end Cpf.Scan
