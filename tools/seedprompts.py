#!/usr/bin/env python3
"""seedprompts.py <round-dir> <Cxx>...  : one scratch worktree of /repo and one prompt file per property, for the
sub-agents that produce deliberately property-breaking changes (DESIGN.md §11.5). The agent gets the property text
and its worktree only — nothing from /verif."""
import glob, json, os, subprocess, sys

TMPL = '''You are helping test a verification setup for the open-source Go project shivasurya/code-pathfinder (a CLI that parses Java with tree-sitter into a node graph and evaluates a small FROM/WHERE/SELECT query language over it).

PURPOSE (please read): I maintain a set of automated checks that are supposed to detect when a code change breaks a stated behavioural property of this project. To find out whether my checks actually work, I need realistic *deliberately faulty* changes to run them against. Your change is used only for that: it is kept as a patch file together with your demonstration, is applied temporarily to a scratch copy to see whether the checks notice, and never becomes part of the project or of any release.

THE PROPERTY your change should break:
  id: {id}
  title: {title}
  statement: {statement}
  (what it quantifies over: {quant})
  (code areas involved: {files}; mechanisms: {mech})

YOUR WORKSPACE: a scratch git worktree of the project at {wt} (work only there; do NOT touch /repo or /verif, do not read /verif). Put your deliverables in {out}.
Environment: no network. Use `export GOPROXY=off GOSUMDB=off GOTOOLCHAIN=local` and do NOT set GOFLAGS=-mod=mod (the module uses a go.work). The Go module is in {wt}/sourcecode-parser. Build: `cd {wt}/sourcecode-parser && go build ./...`. Existing tests: `go test -vet=off -count=1 ./...` (takes ~30-60 s; the tests TestLoadRules, TestLoadRules/Hosted_rules and TestCartesianProductPerformance already fail/flake on the unchanged tree — ignore those three). A sample Java project is at {wt}/test-src/android. The CLI: `go build -o {round}/{id}-pf . && {round}/{id}-pf query --project <dir> --query '<q>' --output json` (also `ci`, `scan`, `query --stdin`).

WHAT I NEED:
1. A small source change (a few lines to a few dozen, in non-test .go files of the project, no new dependencies) that makes the project violate the property above for SOME inputs, while it still compiles and all existing tests that pass on the unchanged tree still pass.
2. It should look like a plausible mistake or "optimisation" a developer could make, and it should need something SPECIFIC to manifest — an unusual input, a particular multi-step sequence, a particular interleaving or arrival order, a fault at a particular point, or two code sites that each look fine alone — NOT something that ordinary use or the simplest query would expose at once.
3. A demonstration: a Go test file or a small shell/Go/Python program in {out} (with the inputs it needs) that FAILS with your change applied and PASSES on the unchanged tree. Verify both directions yourself with `git -C {wt} diff > {out}/patch.diff; git -C {wt} checkout -- .; <run demo>; git -C {wt} apply {out}/patch.diff` — do NOT use `git stash` (the stash is shared with other worktrees of the same repository that other people are using right now).
4. Deliverables in {out}: `patch.diff` (output of `git -C {wt} diff` — only your source change, not the demo), the demonstration file(s) (name the entry point demo.sh or demo.py), and `README.md` saying: what the change does, why it violates the property, what exactly is needed for it to manifest, the exact commands you ran for (a) the existing test-suite with the change and (b) the demo with and without the change, and their results.
Do not commit anything. Leave the worktree with your change applied (uncommitted). Keep it to ONE change. If some step is refused by a permission or safety layer, stop and say so in README.md rather than working around it.
'''

NOTES = {
    "C07": "\nNote: the package sourcecode-parser/graph has build-tagged test hooks (files verif_on.go / verif_off.go, build tag `verif`): `verifBeforeFile(path)` is called before a worker processes a file, `verifOnMerge(localGraph)` where a per-file graph is merged, `verifCountOp()` inside the declaration/invocation matching loop. With `-tags verif` they call the settable variables graph.VerifBeforeFile / VerifOnMerge / VerifCountOp; you may use them in your demonstration (e.g. to delay particular files and so force an arrival order). Do not remove the hook calls.\n",
    "C20": "\nNote: the bundling script is the separate Go module pathfinder-rules/gen-script (build it with `cd pathfinder-rules/gen-script && go build -o {round}/C20-gen .`; it reads ../../pathfinder-rules relative to its working directory and writes ../../docs/public/rules/<dir>.json). The loader fetches https://codepathfinder.dev/rules/<name>.json through net/http; there is no network, so a demonstration should replace http.DefaultTransport with a stub (a Go test inside package cmd can call loadRules(\"cpf/<name>\", true) directly).\n",
}
NOTES["C09"] = NOTES["C07"]


def main():
    rnd = sys.argv[1]
    os.makedirs(rnd, exist_ok=True)
    props = {}
    for l in open("/verif/properties.jsonl"):
        p = json.loads(l)
        props[p["id"]] = p
    prev = {}
    for d in sorted(glob.glob("/verif/seeded/*/meta.json")):
        m = json.load(open(d))
        prev.setdefault(m["property"], []).append(m["name"].split("-", 1)[1].replace("-", " ") + " (needs: " + m["needs_to_manifest"][:140] + ")")
    for pid in sys.argv[2:]:
        p = props[pid]
        wt, out = "%s/%s-wt" % (rnd, pid), "%s/%s-out" % (rnd, pid)
        os.makedirs(out, exist_ok=True)
        subprocess.run(["git", "-C", "/repo", "worktree", "add", "--detach", wt, "HEAD"], check=True, stdout=subprocess.DEVNULL, stderr=subprocess.DEVNULL)
        t = TMPL.format(id=pid, title=p["title"], statement=p["statement"], quant=p["quantifier"]["text"], files=", ".join(p["anchors"]["files"]),
                        mech="; ".join(m["name"] + " @ " + m["where"] for m in p["anchors"]["mechanism"]), wt=wt, out=out, round=rnd)
        t += NOTES.get(pid, "").replace("{round}", rnd)
        if prev.get(pid):
            t += ("\nNOTE: earlier experiments for this property already used these kinds of change: " + "; ".join(prev[pid]) +
                  ". Please choose a DIFFERENT mechanism and a different code site from all of them, so that the experiments do not overlap.\n")
        open("%s/%s-prompt.txt" % (rnd, pid), "w").write(t)
        print(pid, wt)


main()
