/-
  Attribute extraction of graph/construct.go and graph/java/parse_statement.go ("L2"), as it is after the
  `fix:` commits listed in known_findings.json (fields instead of child positions, named children instead of
  punctuation). Functions over abstract trees and source bytes; compared entity by entity with the real
  Node fields on the real tree (driver op `scan-attrs`, checks/c05.py and c06.py).
-/
import Cpf.Scan.Build

namespace Cpf.Scan
open Cpf.Go

/-! ### Go string helpers on bytes -/

def isSpaceB (b : UInt8) : Bool := b == 32 || b == 9 || b == 10 || b == 13 || b == 11 || b == 12

def trimLeftB : Bytes → Bytes
  | [] => []
  | b :: bs => if isSpaceB b then trimLeftB bs else b :: bs

/-- `strings.TrimSpace` (ASCII white space; U+0085 / U+00A0 and other Unicode spaces are not modelled) -/
def trimSpaceB (s : Bytes) : Bytes := (trimLeftB (trimLeftB s).reverse).reverse

/-- `strings.TrimPrefix` -/
def trimPrefixB (s p : Bytes) : Bytes := if hasPrefixB s p then s.drop p.length else s

def hasSuffixB (s p : Bytes) : Bool := hasPrefixB s.reverse p.reverse

def trimSuffixB (s p : Bytes) : Bytes := if hasSuffixB s p then s.take (s.length - p.length) else s

/-- `strings.Split(s, "\n")` and friends for a one-byte separator -/
def splitB (sep : UInt8) : Bytes → List Bytes
  | [] => [[]]
  | b :: bs =>
      if b == sep then [] :: splitB sep bs
      else match splitB sep bs with
        | [] => [[b]]
        | w :: ws => (b :: w) :: ws

/-- `strings.SplitN(s, " ", 2)` -/
def splitFirstB (sep : UInt8) : Bytes → List Bytes
  | [] => [[]]
  | b :: bs =>
      if b == sep then [[], bs]
      else match splitFirstB sep bs with
        | [w] => [b :: w]
        | w :: rest => (b :: w) :: rest
        | [] => [[b]]

/-- `strings.Fields` -/
def fieldsAux : Bytes → Bytes → List Bytes
  | [], cur => if cur.isEmpty then [] else [cur.reverse]
  | b :: bs, cur =>
      if isSpaceB b then (if cur.isEmpty then fieldsAux bs [] else cur.reverse :: fieldsAux bs [])
      else fieldsAux bs (b :: cur)

def fieldsB (s : Bytes) : List Bytes := fieldsAux s []

def removeB (x : UInt8) (s : Bytes) : Bytes := s.filter (· != x)

def containsB : Bytes → Bytes → Bool
  | s, p => hasPrefixB s p || match s with
    | [] => false
    | _ :: cs => containsB cs p

/-! ### extractVisibilityModifier, parseJavadocTags -/

def extractVisibility (modifiers : Bytes) : Bytes :=
  ((fieldsB modifiers).find? (fun w => w == str "public" || w == str "private" || w == str "protected")).getD []

structure Tag where
  name : Bytes
  text : Bytes
  docType : Bytes
  deriving Repr, DecidableEq

def knownTags : List String := ["author", "param", "see", "throws", "version", "since"]

def parseJavadocLine (line : Bytes) : Option Tag :=
  let l := trimSpaceB (trimPrefixB (trimSpaceB line) (str "*"))
  if hasPrefixB l (str "@") then
    match splitFirstB 32 l with
    | [a, b] =>
        let name := trimPrefixB a (str "@")
        let text := trimSpaceB b
        some { name := name, text := text,
               docType := if knownTags.any (fun k => str k == name) then name else str "unknown" }
    | _ => none
  else none

def parseJavadocTags (comment : Bytes) : List Tag := (splitB 10 comment).filterMap parseJavadocLine

/-- `(*Javadoc).GetCommentAuthor` and its siblings (model/javadoc.go): the text of the first tag of that name,
    the empty string when there is none -/
def docAccessor (tags : List Tag) (name : String) : Bytes :=
  ((tags.find? (fun t => t.name == str name)).map (·.text)).getD []

/-- `GetCommentParam`: the texts of all `@param` tags, in order -/
def docParams (tags : List Tag) : List Bytes := (tags.filter (fun t => t.name == str "param")).map (·.text)

/-- the Javadoc attached to a declaration: the previous sibling, if it is a block comment starting with `/*` -/
def javadocOf (prev : Option T) (src : Bytes) : Option (List Tag) :=
  match prev with
  | some p => if p.ty = "block_comment" ∧ hasPrefixB (p.content src) (str "/*") then some (parseJavadocTags (p.content src)) else none
  | none => none

/-! ### per-kind attributes -/

def markerAnnotations (n : T) (src : Bytes) : List Bytes :=
  (n.children.filter (fun c => c.ty = "modifiers")).flatMap (fun m =>
    (m.children.filter (fun c => c.ty = "marker_annotation")).map (·.content src))

/-- content of the last `modifiers` child ("" if none) -/
def modifiersText (n : T) (src : Bytes) : Bytes :=
  ((n.children.filter (fun c => c.ty = "modifiers")).getLast?.map (·.content src)).getD []

structure MethodAttrs where
  name : Bytes
  modifier : Bytes
  returnType : Bytes
  argTypes : List Bytes
  argValues : List Bytes
  throws : List Bytes
  annotations : List Bytes
  deriving Repr

def methodAttrs (n : T) (src : Bytes) : MethodAttrs :=
  { name := (n.children.filter (fun c => c.ty = "identifier")).getLast?.map (·.content src) |>.getD [],
    modifier := extractVisibility (modifiersText n src),
    returnType := ((n.childByField "type").map (·.content src)).getD [],
    argTypes := (n.children.filter (fun c => c.ty = "formal_parameters")).flatMap (fun fp =>
      (fp.namedChildren.filter (fun p => p.ty = "formal_parameter")).filterMap (fun p =>
        match p.childByField "type", p.childByField "name" with
        | some t, some _ => some (t.content src)
        | _, _ => none)),
    argValues := (n.children.filter (fun c => c.ty = "formal_parameters")).flatMap (fun fp =>
      (fp.namedChildren.filter (fun p => p.ty = "formal_parameter")).filterMap (fun p =>
        match p.childByField "type", p.childByField "name" with
        | some _, some v => some (v.content src)
        | _, _ => none)),
    throws := (n.children.filter (fun c => c.ty = "throws")).flatMap (fun t => t.namedChildren.map (·.content src)),
    annotations := markerAnnotations n src }

structure ClassAttrs where
  name : Bytes
  modifier : Bytes
  superClass : Bytes
  interfaces : List Bytes
  annotations : List Bytes
  deriving Repr

def classAttrs (n : T) (src : Bytes) : ClassAttrs :=
  { name := ((n.childByField "name").map (·.content src)).getD [],
    modifier := extractVisibility (modifiersText n src),
    superClass := (((n.children.filter (fun c => c.ty = "superclass")).flatMap (·.namedChildren)).getLast?.map (·.content src)).getD [],
    interfaces := (n.children.filter (fun c => c.ty = "super_interfaces")).flatMap (fun si =>
      si.children.flatMap (fun tl => tl.namedChildren.map (·.content src))),
    annotations := markerAnnotations n src }

structure VarAttrs where
  name : Bytes
  modifier : Bytes
  dataType : Bytes
  scope : Bytes
  value : Bytes
  deriving Repr

/-- text after the `=` of every declarator, concatenated; blanks and newlines removed -/
def initializerOf (n : T) (src : Bytes) : Bytes :=
  let raw := (n.children.filter (fun c => c.ty = "variable_declarator")).flatMap (fun d =>
    let rec after : List T → Bytes
      | [] => []
      | c :: cs => if c.ty = "=" then (cs.flatMap (·.content src)) ++ after cs else after cs
    after d.children)
  removeB 10 (removeB 32 raw)

def varAttrs (n : T) (src : Bytes) : VarAttrs :=
  { name := variableNameOf n src,
    modifier := extractVisibility (modifiersText n src),
    dataType := ((n.children.filter (fun c => containsB (str c.ty) (str "type"))).getLast?.map (·.content src)).getD [],
    scope := if n.ty = "local_variable_declaration" then str "local" else str "field",
    value := initializerOf n src }

/-- call arguments: named children of every `argument_list` child, string literals without their quotes -/
def callArgs (n : T) (src : Bytes) : List Bytes :=
  (n.children.filter (fun c => c.ty = "argument_list")).flatMap (fun al =>
    al.namedChildren.map (fun a =>
      if a.ty = "string_literal" then trimSuffixB (trimPrefixB (a.content src) (str "\"")) (str "\"") else a.content src))

def argumentStopWords : List String := ["(", ")", "{", "}", "[", "]", ","]

/-- object creation: class name and (type, text) of the arguments -/
def newArgs (n : T) (src : Bytes) : List (String × Bytes) :=
  ((n.children.filter (fun c => c.ty = "argument_list")).getLast?.map (fun al =>
    (al.children.filter (fun a => !argumentStopWords.contains a.ty)).map (fun a => (a.ty, a.content src)))).getD []

def childContent (n : T) (i : Nat) (src : Bytes) : Option Bytes := (n.child i).map (·.content src)
def fieldContent (n : T) (f : String) (src : Bytes) : Option Bytes := (n.childByField f).map (·.content src)

/-- label of break / continue: the last `identifier` child -/
def labelOf (n : T) (src : Bytes) : Bytes :=
  ((n.children.filter (fun c => c.ty = "identifier")).getLast?.map (·.content src)).getD []

def assertMessage (n : T) (src : Bytes) : Option Bytes :=
  match n.child 3 with
  | some m => if m.ty = "string_literal" then some (m.content src) else none
  | none => none

def returnResult (n : T) (src : Bytes) : Option Bytes := (n.namedChildren.head?).map (·.content src)

/-- block statements: every child's text (braces included — recorded finding C06:BlockStmt:statements) -/
def blockStmts (n : T) (src : Bytes) : List Bytes := n.children.map (·.content src)

/-! ### markInvokedMethods: the declaration x invocation pass on one file's graph -/

mutual
/-- (name, number of arguments) of every call in the tree -/
def callSigs (src : Bytes) : T → List (Bytes × Nat)
  | .mk ty f sb eb sr sc nm cs =>
      (if ty = "method_invocation" then
        [(invocationName (.mk ty f sb eb sr sc nm cs) src, (callArgs (.mk ty f sb eb sr sc nm cs) src).length)] else [])
      ++ callSigsList src cs
def callSigsList (src : Bytes) : List T → List (Bytes × Nat)
  | [] => []
  | c :: r => callSigs src c ++ callSigsList src r
end

/-- `node.hasAccess` of a method declaration after the pass: some call of this file has its name and as many
    arguments as it has parameters — a function of this file's tree only -/
def hasAccess (sigs : List (Bytes × Nat)) (name : Bytes) (nparams : Nat) : Bool :=
  sigs.any (fun s => s.1 == name && s.2 == nparams)

end Cpf.Scan
