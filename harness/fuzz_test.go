//go:build verif

package main

import (
	"testing"

	parser "github.com/shivasurya/code-pathfinder/sourcecode-parser/antlr"
	"github.com/shivasurya/code-pathfinder/sourcecode-parser/cmd"
	"github.com/shivasurya/code-pathfinder/sourcecode-parser/graph"
)

// FuzzQuery: any string through ParseQuery and processQuery on a small graph must not panic.
func FuzzQuery(f *testing.F) {
	for _, s := range []string{
		`FROM method_declaration AS md WHERE md.getName() == "a" SELECT md.getName()`,
		`predicate p(method_declaration m) { m.getName() == "a" } FROM method_declaration AS md WHERE p(md) || !(md.getVisibility() in ["x"]) SELECT md, "s"`,
		`FROM a AS b, c AS d WHERE foo() SELECT b`,
	} {
		f.Add(s)
	}
	g := graph.NewCodeGraph()
	g.AddNode(&graph.Node{ID: "1", Type: "method_declaration", Name: "a", File: "f.java", LineNumber: 1, CodeSnippet: "void a(){}"})
	g.AddNode(&graph.Node{ID: "2", Type: "class_declaration", Name: "B", File: "f.java", LineNumber: 2, CodeSnippet: "class B{}"})
	f.Fuzz(func(t *testing.T, q string) {
		_, _ = parser.ParseQuery(q)
		_, _ = cmd.VerifProcessQuery(q, g, "json")
	})
}
