#!/bin/bash
# usage: seedrun.sh <patch.diff> <check-id>...   : apply a seeded change to /repo, run the quick checks, undo.
# Each check runs first at plain quick depth (CPF_NO_ADAPTIVE=1); when that misses, again with the adaptive
# depth the registered command has (changed functions deepen the generators).
# With CPF_REPO set (a scratch worktree of the repository) the patch is applied there and the checks read that tree.
P="$1"; shift
R="${CPF_REPO:-/repo}"
cd "$R" || exit 2
if [ -n "$(git status --porcelain --untracked-files=no)" ]; then echo "repo not clean"; exit 2; fi
git apply "$P" || { echo "patch does not apply"; exit 2; }
trap 'git -C "$R" checkout -- . ' EXIT
cd /verif
for id in "$@"; do
  echo "--- $id (plain quick)"
  CPF_NO_ADAPTIVE=1 ./check "$id" quick 2>&1 | grep -a "^VIOLATION\|Traceback" | cut -c1-330 | head -6
  rc=${PIPESTATUS[0]}; echo "rc=$rc"
  if [ "$rc" = "0" ]; then
    echo "--- $id (adaptive depth)"
    ./check "$id" quick 2>&1 | grep -a "VIOLATION\|KNOWN-FINDING\|Traceback\|adaptive depth" | cut -c1-330 | head -6
    echo "rc=${PIPESTATUS[0]}"
  fi
done
