/-
  C07 — scan results are repeatable and independent of worker scheduling.

  * Merge (`Cpf.Scan.Merge`): for **every arrival order** of the per-file results, the merged graph binds
    every identity to the same entity and holds the same multiset of call links, provided identities of
    different files are different (`DisjointIds`). That proviso is what the identity formats give — every
    format mentions the file (`C03_ids_mention_file`, regenerated; before the `fix:` the 17 binary-expression
    kinds did not, and the surviving entity depended on the arrival order) — and it is re-validated on every
    scanned project by checks/c07.py.
  * Pool: regenerated facts about Initialize (`C07_pool_facts`): the file / result / progress channels have
    capacity `totalFiles` (so the main goroutine queues all files without a consumer and no worker ever
    blocks on results or progress: at most one send per file), the status channel has capacity
    `numWorkers` and its consumer is started after the queueing loop, which cannot block, and before the
    collector; workers send in the order status, status, status, result, progress. `sends_fit` is the
    counting fact behind "never blocks".
  * Pool as a transition system (`Cpf.Scan.Pool`, proofs in `Cpf.Lemmas.Pool`): main, any number of workers,
    the status goroutine and the closer, with blocking sends on full channels and blocking receives on empty
    open ones, for **every schedule** (the step relation is non-deterministic), every number of files and
    workers, and any mix of files that fail to read or parse:
      - `C07_pool_terminates`   no schedule is infinite (a measure decreases on every step);
      - `C07_pool_no_deadlock`  with the capacities the source uses, some goroutine can step until the scan returns;
      - `C07_pool_complete`     when the scan returns, every produced per-file graph has been merged, every worker
                                has exited, and every file was either merged or given up on: merged + failed = n.
    The control shape of the five pieces of Initialize is regenerated from the source by factgen's `shape`
    translator and pinned in `C07_pool_shape`; the program counters of the model are read off that shape
    (worker: 0 = `range:fileChan`, 1..3 = the three `send:statusChan`, the two `if[continue]` sit between
    the first and the second, 4 = `send:resultChan`, 5 = `send:progressChan`, 6 = after `end-range`).
    What stays outside Lean: the Go memory model (channels are modelled as counters with FIFO-free
    semantics, enough for counting), the tree-sitter calls inside a worker, and real time. Those are
    exercised: forced arrival orders for <= 4 files exhaustively, 0..200 files, stalled workers,
    GOMAXPROCS 1/2/4/16, race detector in the thorough tier.
-/
import Cpf.Scan.Merge
import Cpf.Lemmas.Pool
import Cpf.Lemmas.PoolF
import Cpf.Props.C03
import Cpf.Scan.Attrs

namespace Cpf.Props.C07
open Cpf.Scan.Merge Cpf.Generated

variable {Id V E : Type} [DecidableEq Id]

/-- identities of different per-file graphs are different, and each per-file graph binds an identity once -/
def DisjointIds (ls : List (Local Id V E)) : Prop :=
  (ls.map ids).flatten.Nodup

theorem lookup_append (a b : List (Id × V)) (i : Id) :
    lookup (a ++ b) i = (lookup a i).orElse (fun _ => lookup b i) := by
  unfold lookup
  rw [List.find?_append]
  cases List.find? (fun p => p.1 = i) a <;> simp

theorem lookup_none_of_not_mem (a : List (Id × V)) (i : Id) (h : i ∉ a.map (·.1)) : lookup a i = none := by
  unfold lookup
  rw [List.find?_eq_none.2]
  · rfl
  · intro p hp hpi
    exact h (List.mem_map.2 ⟨p, hp, by simpa using hpi⟩)

theorem lookup_reverse_nodup (a : List (Id × V)) (h : (a.map (·.1)).Nodup) (i : Id) :
    lookup a.reverse i = lookup a i := by
  induction a with
  | nil => rfl
  | cons p ps ih =>
      simp only [List.map_cons, List.nodup_cons] at h
      rw [List.reverse_cons, lookup_append, ih h.2]
      by_cases hp : p.1 = i
      · subst hp
        rw [lookup_none_of_not_mem ps p.1 h.1]
        simp [lookup]
      · have h0 : lookup [p] i = none := by simp [lookup, hp]
        have hr : lookup (p :: ps) i = lookup ps i := by simp [lookup, List.find?_cons, hp]
        rw [hr, h0]
        cases lookup ps i <;> rfl

/-- what the merged graph binds an identity to: the binding of the (unique) per-file graph that has it -/
theorem lookup_foldl (ls : List (Local Id V E)) (g : Graph Id V E) (i : Id)
    (hd : ((ls.map ids).flatten ++ g.nodes.map (·.1)).Nodup) :
    lookup (ls.foldl addLocal g).nodes i =
      (ls.findSome? (fun l => lookup l.nodes i)).orElse (fun _ => lookup g.nodes i) := by
  induction ls generalizing g with
  | nil => simp
  | cons l rest ih =>
      simp only [List.foldl_cons, List.findSome?_cons]
      have hsplit : ((rest.map ids).flatten ++ (addLocal g l).nodes.map (·.1)).Nodup := by
        simp only [addLocal, List.map_append, List.map_reverse]
        simp only [List.map_cons, List.flatten_cons, ids] at hd
        have : (List.map (fun x => x.1) l.nodes ++ ((List.map ids rest).flatten ++ List.map (fun x => x.1) g.nodes)).Nodup := by
          simpa [List.append_assoc, ids] using hd
        rw [List.nodup_append] at this ⊢
        obtain ⟨h1, h2, h3⟩ := this
        rw [List.nodup_append] at h2
        obtain ⟨h4, h5, h6⟩ := h2
        refine ⟨h4, ?_, ?_⟩
        · rw [List.nodup_append]
          refine ⟨(List.reverse_perm _).nodup_iff.2 h1, h5, ?_⟩
          intro a ha b hb
          exact h3 a (List.mem_reverse.1 ha) b (List.mem_append.2 (Or.inr hb))
        · intro a ha b hb
          rcases List.mem_append.1 hb with hb | hb
          · exact fun e => h3 b (List.mem_reverse.1 hb) a (List.mem_append.2 (Or.inl ha)) e.symm
          · exact h6 a ha b hb
      rw [ih (addLocal g l) hsplit]
      simp only [addLocal]
      have hl : (l.nodes.map (·.1)).Nodup := by
        simp only [List.map_cons, List.flatten_cons, ids] at hd
        have : (List.map (fun x => x.1) l.nodes ++ ((List.map ids rest).flatten ++ List.map (fun x => x.1) g.nodes)).Nodup := by
          simpa [List.append_assoc, ids] using hd
        exact (List.nodup_append.1 this).1
      rw [lookup_append, lookup_reverse_nodup l.nodes hl]
      cases hli : lookup l.nodes i with
      | some v =>
          -- no later graph has this identity
          have : rest.findSome? (fun l => lookup l.nodes i) = none := by
            rw [List.findSome?_eq_none_iff]
            intro l' hl'
            cases hx : lookup l'.nodes i with
            | none => rfl
            | some w =>
                exfalso
                have hi1 : i ∈ l.nodes.map (·.1) := by
                  unfold lookup at hli
                  cases hf : l.nodes.find? (fun p => p.1 = i) with
                  | none => simp [hf] at hli
                  | some p =>
                      have := List.find?_some hf
                      exact List.mem_map.2 ⟨p, List.mem_of_find?_eq_some hf, by simpa using this⟩
                have hi2 : i ∈ (rest.map ids).flatten := by
                  unfold lookup at hx
                  cases hf : l'.nodes.find? (fun p => p.1 = i) with
                  | none => simp [hf] at hx
                  | some p =>
                      have := List.find?_some hf
                      exact List.mem_flatten.2 ⟨ids l', List.mem_map.2 ⟨l', hl', rfl⟩,
                        List.mem_map.2 ⟨p, List.mem_of_find?_eq_some hf, by simpa using this⟩⟩
                simp only [List.map_cons, List.flatten_cons, ids] at hd
                have hnd : (List.map (fun x => x.1) l.nodes ++ ((List.map ids rest).flatten ++ List.map (fun x => x.1) g.nodes)).Nodup := by
                  simpa [List.append_assoc, ids] using hd
                exact (List.nodup_append.1 hnd).2.2 i hi1 i (List.mem_append.2 (Or.inl hi2)) rfl
          simp [this]
      | none => simp

/-- **C07 (merge)**: whatever the arrival order, every identity is bound to the same entity … -/
theorem C07_merge_nodes (ls ls' : List (Local Id V E)) (hp : ls.Perm ls') (hd : DisjointIds ls) (i : Id) :
    lookup (merge ls).nodes i = lookup (merge ls').nodes i := by
  have hd' : DisjointIds ls' := by
    unfold DisjointIds at *
    exact (List.Perm.flatten (hp.map ids)).nodup_iff.1 hd
  unfold merge
  rw [lookup_foldl ls {} i (by simpa [DisjointIds] using hd), lookup_foldl ls' {} i (by simpa [DisjointIds] using hd')]
  simp only [lookup, List.find?_nil, Option.map_none]
  -- at most one per-file graph binds `i`, so the first one found is the same in both orders
  have key : ∀ (xs : List (Local Id V E)), (xs.map ids).flatten.Nodup →
      ∀ v, xs.findSome? (fun l => (l.nodes.find? (fun p => p.1 = i)).map (·.2)) = some v ↔
           ∃ l ∈ xs, (l.nodes.find? (fun p => p.1 = i)).map (·.2) = some v := by
    intro xs
    induction xs with
    | nil => intro _ v; simp
    | cons x xs ih =>
        intro hnd v
        simp only [List.map_cons, List.flatten_cons] at hnd
        have hnd' := (List.nodup_append.1 hnd)
        simp only [List.findSome?_cons]
        cases hx : (x.nodes.find? (fun p => p.1 = i)).map (·.2) with
        | some w =>
            constructor
            · intro h; simp at h; subst h; exact ⟨x, by simp, hx⟩
            · rintro ⟨l, hl, hlv⟩
              rcases List.mem_cons.1 hl with rfl | hl
              · rw [hx] at hlv; simpa using hlv
              · exfalso
                have hi1 : i ∈ ids x := by
                  cases hf : x.nodes.find? (fun p => p.1 = i) with
                  | none => simp [hf] at hx
                  | some p => exact List.mem_map.2 ⟨p, List.mem_of_find?_eq_some hf, by simpa using List.find?_some hf⟩
                have hi2 : i ∈ (xs.map ids).flatten := by
                  cases hf : l.nodes.find? (fun p => p.1 = i) with
                  | none => simp [hf] at hlv
                  | some p =>
                      exact List.mem_flatten.2 ⟨ids l, List.mem_map.2 ⟨l, hl, rfl⟩,
                        List.mem_map.2 ⟨p, List.mem_of_find?_eq_some hf, by simpa using List.find?_some hf⟩⟩
                exact hnd'.2.2 i hi1 i hi2 rfl
        | none =>
            rw [ih hnd'.2.1 v]
            constructor
            · rintro ⟨l, hl, hlv⟩; exact ⟨l, by simp [hl], hlv⟩
            · rintro ⟨l, hl, hlv⟩
              rcases List.mem_cons.1 hl with rfl | hl
              · rw [hx] at hlv; simp at hlv
              · exact ⟨l, hl, hlv⟩
  have hd' : DisjointIds ls' := by
    unfold DisjointIds at *
    exact (List.Perm.flatten (hp.map ids)).nodup_iff.1 hd
  have e : ∀ v, ls.findSome? (fun l => (l.nodes.find? (fun p => p.1 = i)).map (·.2)) = some v ↔
               ls'.findSome? (fun l => (l.nodes.find? (fun p => p.1 = i)).map (·.2)) = some v := by
    intro v
    rw [key ls hd v, key ls' hd' v]
    constructor
    · rintro ⟨l, hl, h⟩; exact ⟨l, hp.mem_iff.1 hl, h⟩
    · rintro ⟨l, hl, h⟩; exact ⟨l, hp.mem_iff.2 hl, h⟩
  cases h1 : ls.findSome? (fun l => (l.nodes.find? (fun p => p.1 = i)).map (·.2)) with
  | none =>
      cases h2 : ls'.findSome? (fun l => (l.nodes.find? (fun p => p.1 = i)).map (·.2)) with
      | none => rfl
      | some w => exact absurd ((e w).2 h2) (by simp [h1])
  | some v => rw [(e v).1 h1]

theorem edges_foldl (ls : List (Local Id V E)) (g : Graph Id V E) :
    (ls.foldl addLocal g).edges = g.edges ++ (ls.map (·.edges)).flatten := by
  induction ls generalizing g with
  | nil => simp
  | cons l rest ih => simp [ih, addLocal, List.append_assoc]

/-- … and the call links are the same multiset. -/
theorem C07_merge_edges (ls ls' : List (Local Id V E)) (hp : ls.Perm ls') :
    (merge ls).edges.Perm (merge ls').edges := by
  unfold merge
  rw [edges_foldl, edges_foldl]
  simpa using List.Perm.flatten (hp.map (·.edges))

/-- C08: what is reported for a file is exactly its own per-file graph, whatever else is merged. -/
theorem C08_isolation (ls : List (Local Id V E)) (hd : DisjointIds ls) (l : Local Id V E) (hl : l ∈ ls)
    (i : Id) (hi : i ∈ ids l) : lookup (merge ls).nodes i = lookup l.nodes i := by
  unfold merge
  rw [lookup_foldl ls {} i (by simpa [DisjointIds] using hd)]
  simp only [lookup, List.find?_nil, Option.map_none]
  obtain ⟨p, hp, hpi⟩ := List.mem_map.1 hi
  have hsome : ∃ v, (l.nodes.find? (fun q => q.1 = i)).map (·.2) = some v := by
    cases hf : l.nodes.find? (fun q => q.1 = i) with
    | none =>
        exfalso
        have := List.find?_eq_none.1 hf p hp
        simp [hpi] at this
    | some q => exact ⟨q.2, rfl⟩
  obtain ⟨v, hv⟩ := hsome
  rw [hv]
  -- the first graph that binds i is l
  induction ls with
  | nil => simp at hl
  | cons x xs ih =>
      simp only [List.findSome?_cons]
      unfold DisjointIds at hd
      simp only [List.map_cons, List.flatten_cons] at hd
      have hnd := List.nodup_append.1 hd
      rcases List.mem_cons.1 hl with rfl | hl'
      · rw [hv]; rfl
      · cases hx : (x.nodes.find? (fun q => q.1 = i)).map (·.2) with
        | none => simpa using ih hnd.2.1 hl'
        | some w =>
            exfalso
            have hi1 : i ∈ ids x := by
              cases hf : x.nodes.find? (fun q => q.1 = i) with
              | none => simp [hf] at hx
              | some q => exact List.mem_map.2 ⟨q, List.mem_of_find?_eq_some hf, by simpa using List.find?_some hf⟩
            have hi2 : i ∈ (xs.map ids).flatten := List.mem_flatten.2 ⟨ids l, List.mem_map.2 ⟨l, hl', rfl⟩, hi⟩
            exact hnd.2.2 i hi1 i hi2 rfl

/-! ### the worker pool: regenerated facts -/

/-- a buffered channel of capacity `cap` never blocks a sender while fewer than `cap` values are queued;
    with at most `n ≤ cap` sends in total it never blocks at all -/
theorem sends_fit (cap n received : Nat) (h : n ≤ cap) (sent : Nat) (hs : sent < n) (hr : received ≤ sent) :
    sent - received < cap := by omega

theorem C07_pool_facts :
    poolNumWorkers = "5" ∧
    poolChans = [("fileChan", "totalFiles"), ("resultChan", "totalFiles"), ("statusChan", "numWorkers"), ("progressChan", "totalFiles")] ∧
    poolOrder = ["define-worker", "wg-add", "start-workers", "send-files", "close-files", "start-status", "start-closer", "collect"] ∧
    poolWorkerSends = ["statusChan", "statusChan", "statusChan", "resultChan", "progressChan"] := by
  decide

/-! ### the worker pool as a transition system -/

open Cpf.Scan.Pool in
/-- the capacity the source gives a channel, read from the regenerated `make(chan …, cap)` table -/
def srcCap (n : Nat) (chan : String) : Nat :=
  match (poolChans.find? (·.1 = chan)).map (·.2) with
  | some "totalFiles" => n
  | some "numWorkers" => poolNumWorkersNat
  | _ => 0

/-- the configuration Initialize runs with on a project of `n` files -/
def srcCfg (n : Nat) : Cpf.Scan.Pool.Cfg :=
  { n := n, fileCap := srcCap n "fileChan", resultCap := srcCap n "resultChan",
    statusCap := srcCap n "statusChan", progressCap := srcCap n "progressChan" }

theorem srcCfg_eq (n : Nat) : srcCfg n = { n := n, fileCap := n, resultCap := n, statusCap := 5, progressCap := n } := by
  have h : ((poolChans.find? (·.1 = "fileChan")).map (·.2), (poolChans.find? (·.1 = "resultChan")).map (·.2),
            (poolChans.find? (·.1 = "statusChan")).map (·.2), (poolChans.find? (·.1 = "progressChan")).map (·.2), poolNumWorkersNat)
      = (some "totalFiles", some "totalFiles", some "numWorkers", some "totalFiles", 5) := by decide
  simp only [Prod.mk.injEq] at h
  obtain ⟨h1, h2, h3, h4, h5⟩ := h
  simp only [srcCfg, srcCap, h1, h2, h3, h4, h5]

/-- the source's capacities are sufficient -/
theorem C07_caps_ok (n : Nat) : Cpf.Scan.Pool.CapsOk (srcCfg n) := by
  rw [srcCfg_eq]; simp [Cpf.Scan.Pool.CapsOk]

/-- the control shape the model's program counters are read off (regenerated on every run) -/
theorem C07_pool_shape :
    poolWorkerShape = ["range:fileChan", "send:statusChan", "if[continue]", "if[continue]", "send:statusChan",
                       "send:statusChan", "send:resultChan", "send:progressChan", "end-range", "call:wg.Done()"] ∧
    poolSenderShape = ["loop[send:fileChan]"] ∧
    poolStatusShape = ["forever", "select", "case(recv:statusChan)[if[return]]", "case(recv:progressChan)[if[return]]",
                       "end-select", "end-forever"] ∧
    poolCloserShape = ["call:wg.Wait()", "close:resultChan", "close:statusChan", "close:progressChan"] ∧
    poolCollectShape = ["range:resultChan", "end-range"] := by
  decide

/-- **C07 (pool, termination)**: no schedule of the pool is infinite — whatever the capacities. -/
theorem C07_pool_terminates (c : Cpf.Scan.Pool.Cfg) (run : Nat → Cpf.Scan.Pool.St) :
    ¬ ∀ k, Cpf.Scan.Pool.Step c (run k) (run (k + 1)) := by
  intro h
  have key : ∀ k, Cpf.Scan.Pool.phi (run k) + k ≤ Cpf.Scan.Pool.phi (run 0) := by
    intro k
    induction k with
    | zero => simp
    | succ k ih => have := Cpf.Scan.Pool.step_decreases c _ _ (h k); omega
  have := key (Cpf.Scan.Pool.phi (run 0) + 1)
  omega

/-- **C07 (pool, no deadlock)**: on a project of `n` files with `w` workers, in every reachable state in
    which the scan has not returned, some goroutine can take a step. -/
theorem C07_pool_no_deadlock (n w : Nat) (s : Cpf.Scan.Pool.St) (hr : Cpf.Scan.Pool.Reach (srcCfg n) w s)
    (hnf : s.mainPc ≠ 4) : ∃ s', Cpf.Scan.Pool.Step (srcCfg n) s s' :=
  Cpf.Scan.Pool.no_deadlock (srcCfg n) w (C07_caps_ok n) s hr hnf

/-- **C07 (pool, completeness)**: when the scan returns, every per-file graph a worker produced has been
    merged, and (with at least one worker) every one of the `n` files was merged or given up on. -/
theorem C07_pool_complete (n w : Nat) (s : Cpf.Scan.Pool.St) (hr : Cpf.Scan.Pool.Reach (srcCfg n) w s)
    (hret : s.mainPc = 4) :
    s.collected = s.produced ∧ (0 < w → s.fileQ = 0 ∧ s.unsent = 0 ∧ s.collected + s.failed = n) := by
  have := Cpf.Scan.Pool.collects_all (srcCfg n) w s hr hret
  simpa [srcCfg] using this

/-- without failing files, all `n` files are merged -/
theorem C07_pool_all_merged (n w : Nat) (s : Cpf.Scan.Pool.St) (hr : Cpf.Scan.Pool.Reach (srcCfg n) w s)
    (hret : s.mainPc = 4) (hw : 0 < w) (hnofail : s.failed = 0) : s.collected = n := by
  have := (C07_pool_complete n w s hr hret).2 hw
  omega

/-- Non-vacuity: one file, one worker — a complete schedule exists and ends with the file merged. -/
example : ∃ s, Cpf.Scan.Pool.Reach (srcCfg 1) 1 s ∧ s.mainPc = 4 ∧ s.collected = 1 := by
  rw [srcCfg_eq]
  refine ⟨{ unsent := 0, mainPc := 4, fileQ := 0, workers := [6], statusQ := 3, resultQ := 0, progressQ := 1,
            statusExited := false, closed := true, collected := 1, produced := 1, failed := 0 }, ?_, rfl, rfl⟩
  open Cpf.Scan.Pool in
  have s0 := @Reach.init { n := 1, fileCap := 1, resultCap := 1, statusCap := 5, progressCap := 1 } 1
  have s1 := Reach.step s0 (Step.queue rfl (by decide) (by decide))
  have s2 := Reach.step s1 (Step.closeFiles rfl rfl)
  have s3 := Reach.step s2 (Step.take 0 rfl (by decide))
  have s4 := Reach.step s3 (Step.status 0 1 rfl (Or.inl rfl) (by decide))
  have s5 := Reach.step s4 (Step.status 0 2 rfl (Or.inr (Or.inl rfl)) (by decide))
  have s6 := Reach.step s5 (Step.status 0 3 rfl (Or.inr (Or.inr rfl)) (by decide))
  have s7 := Reach.step s6 (Step.result 0 rfl (by decide))
  have s8 := Reach.step s7 (Step.progress 0 rfl (by decide))
  have s9 := Reach.step s8 (Step.exit 0 rfl rfl (by decide))
  have s10 := Reach.step s9 (Step.startStatus rfl)
  have s11 := Reach.step s10 (Step.startCloser rfl)
  have s12 := Reach.step s11 (Step.close (by decide) rfl rfl)
  have s13 := Reach.step s12 (Step.collect rfl (by decide))
  have s14 := Reach.step s13 (Step.finish rfl rfl rfl)
  exact s14

/-! ### the pool with named files (`Cpf.Scan.PoolF`): which files are merged -/

section files
variable {F : Type} [DecidableEq F]
open Cpf.Scan.PoolF

/-- no schedule of the file-carrying pool is infinite -/
theorem C07_poolF_terminates (n : Nat) (ok : F → Bool) (run : Nat → StF F) :
    ¬ ∀ k, StepF (srcCfg n) ok (run k) (run (k + 1)) :=
  terminatesF (srcCfg n) ok run

/-- … and it cannot get stuck before the scan returns -/
theorem C07_poolF_no_deadlock (files : List F) (ok : F → Bool) (w : Nat) (s : StF F)
    (hr : ReachF (srcCfg files.length) ok files w s) (hnf : s.mainPc ≠ 4) : ∃ s', StepF (srcCfg files.length) ok s s' :=
  no_deadlockF _ ok files w (by simp [srcCfg]) (C07_caps_ok _) s hr hnf

/-- **C07 (pool, which files)**: when the scan returns, the merged files are — as a multiset — exactly the files of
    the walk that can be read and parsed, each once; the others were given up on. For every schedule, every
    number of workers ≥ 1, every list of files. -/
theorem C07_pool_files (files : List F) (ok : F → Bool) (w : Nat) (hw : 0 < w) (s : StF F)
    (hr : ReachF (srcCfg files.length) ok files w s) (hret : s.mainPc = 4) :
    s.collected.Perm (files.filter ok) ∧ s.failed.Perm (files.filter (fun f => !ok f)) :=
  returned_files _ ok files w (by simp [srcCfg]) hw s hr hret

theorem disjoint_perm {ls ls' : List (Local Id V E)} (hp : ls.Perm ls') (hd : DisjointIds ls) : DisjointIds ls' := by
  unfold DisjointIds at *
  exact (List.Perm.flatten (hp.map ids)).nodup_iff.1 hd

/-- **C07 (end to end)**: two scans of the same files — any two schedules, any two worker counts — return graphs
    that bind every identity to the same entity and hold the same multiset of call links. `g f` is the per-file
    graph of `f` (a function of the file only: `buildGraph`), `ok f` whether it can be read and parsed. -/
theorem C07_scan_schedule_independent (files : List F) (ok : F → Bool) (g : F → Local Id V E)
    (hd : DisjointIds ((files.filter ok).map g))
    (w₁ w₂ : Nat) (hw₁ : 0 < w₁) (hw₂ : 0 < w₂) (s₁ s₂ : StF F)
    (hr₁ : ReachF (srcCfg files.length) ok files w₁ s₁) (hr₂ : ReachF (srcCfg files.length) ok files w₂ s₂)
    (h₁ : s₁.mainPc = 4) (h₂ : s₂.mainPc = 4) :
    (∀ i, lookup (merge (s₁.collected.map g)).nodes i = lookup (merge (s₂.collected.map g)).nodes i) ∧
    (merge (s₁.collected.map g)).edges.Perm (merge (s₂.collected.map g)).edges := by
  have p₁ := (C07_pool_files files ok w₁ hw₁ s₁ hr₁ h₁).1
  have p₂ := (C07_pool_files files ok w₂ hw₂ s₂ hr₂ h₂).1
  have p : (s₁.collected.map g).Perm (s₂.collected.map g) := (p₁.trans p₂.symm).map g
  have hd₁ : DisjointIds (s₁.collected.map g) := disjoint_perm (p₁.map g).symm hd
  exact ⟨fun i => C07_merge_nodes _ _ p hd₁ i, C07_merge_edges _ _ p⟩

/-- **C08 (end to end)**: a readable file's identities are bound, in the graph a scan returns, to what the file's
    own graph binds them to — whatever the other files are (readable or not), however many workers leave early,
    whatever the schedule. -/
theorem C08_scan_isolation (files : List F) (ok : F → Bool) (g : F → Local Id V E)
    (hd : DisjointIds ((files.filter ok).map g)) (w : Nat) (hw : 0 < w) (s : StF F)
    (hr : ReachF (srcCfg files.length) ok files w s) (hret : s.mainPc = 4)
    (f : F) (hf : f ∈ files) (hok : ok f = true) (i : Id) (hi : i ∈ ids (g f)) :
    lookup (merge (s.collected.map g)).nodes i = lookup (g f).nodes i := by
  have p := (C07_pool_files files ok w hw s hr hret).1
  have hmem : f ∈ s.collected := p.mem_iff.2 (List.mem_filter.2 ⟨hf, hok⟩)
  exact C08_isolation _ (disjoint_perm (p.map g).symm hd) (g f) (List.mem_map.2 ⟨f, hmem, rfl⟩) i hi

/-- Non-vacuity: two files, the second unreadable, one worker — a complete schedule exists; it merges the first
    file and gives up on the second. -/
example : ∃ s : StF Nat, ReachF (srcCfg 2) (fun f => f == 1) [1, 2] 1 s ∧ s.mainPc = 4 ∧ s.collected = [1] ∧ s.failed = [2] := by
  rw [srcCfg_eq]
  have s0 := @ReachF.init Nat { n := 2, fileCap := 2, resultCap := 2, statusCap := 5, progressCap := 2 } (fun f => f == 1) [1, 2] 1
  have s1 := ReachF.step s0 (StepF.queue rfl rfl (by decide))
  have s2 := ReachF.step s1 (StepF.queue rfl rfl (by decide))
  have s3 := ReachF.step s2 (StepF.closeFiles rfl rfl)
  have s4 := ReachF.step s3 (StepF.take 0 rfl rfl)
  have s5 := ReachF.step s4 (StepF.status1 0 rfl (by decide))
  have s6 := ReachF.step s5 (StepF.status2 0 rfl rfl (by decide))
  have s7 := ReachF.step s6 (StepF.status3 0 rfl (by decide))
  have s8 := ReachF.step s7 (StepF.result 0 rfl (by decide))
  have s9 := ReachF.step s8 (StepF.progress 0 rfl (by decide))
  have s10 := ReachF.step s9 (StepF.take 0 rfl rfl)
  have s11 := ReachF.step s10 (StepF.status1 0 rfl (by decide))
  have s12 := ReachF.step s11 (StepF.fail 0 rfl rfl)
  have s13 := ReachF.step s12 (StepF.exit 0 rfl rfl (by decide))
  have s14 := ReachF.step s13 (StepF.startStatus rfl)
  have s15 := ReachF.step s14 (StepF.startCloser rfl)
  have s16 := ReachF.step s15 (StepF.close (by decide) rfl rfl)
  have s17 := ReachF.step s16 (StepF.collect rfl rfl)
  have s18 := ReachF.step s17 (StepF.finish rfl rfl rfl)
  exact ⟨_, s18, rfl, rfl, rfl⟩

end files

/-- every identity is scoped to its file (regenerated; needed for `DisjointIds`) -/
theorem C07_ids_file_scoped : ∀ l ∈ nodeLits, l.idFmt.any (fun a => match a with | .file => true | _ => false) = true :=
  Cpf.Props.C03.C03_ids_mention_file

/-- Non-vacuity: three per-file graphs, two arrival orders. -/
example :
    let a : Local Nat String Nat := ⟨[(1, "a1"), (2, "a2")], [10]⟩
    let b : Local Nat String Nat := ⟨[(3, "b3")], [20, 21]⟩
    let c : Local Nat String Nat := ⟨[(4, "c4")], []⟩
    lookup (merge [a, b, c]).nodes 3 = some "b3" ∧ lookup (merge [c, b, a]).nodes 3 = some "b3" ∧
    (merge [c, b, a]).edges = [20, 21, 10] := by decide

/-! ### the declaration x invocation pass ranges over a Go map

`markInvokedMethods` visits `graph.Nodes` (a map) twice, nested; Go randomises the order of every such range. What
the pass derives (`hasAccess`, observable through `md.toString()`) is the same for every order, and one matching
call among many of the same name is enough — so repeated scans agree (tie: the per-file graphs that checks/c07.py
builds and merges carry `hasAccess`; the generated files call overloads with different argument counts). -/

/-- every iteration order of the calls gives the same `hasAccess` -/
theorem C07_hasAccess_order_independent (s s' : List (Cpf.Scan.Bytes × Nat)) (h : s.Perm s') (name : Cpf.Scan.Bytes) (k : Nat) :
    Cpf.Scan.hasAccess s name k = Cpf.Scan.hasAccess s' name k := by
  unfold Cpf.Scan.hasAccess
  exact h.any_eq

/-- calls that do not match (another name, or the same name with another argument count) change nothing, wherever
    they come in the order: a matching call is never shadowed by a later call of the same name -/
theorem C07_hasAccess_other_calls_irrelevant (s : List (Cpf.Scan.Bytes × Nat)) (x : Cpf.Scan.Bytes × Nat) (name : Cpf.Scan.Bytes) (k : Nat)
    (hx : ¬ (x.1 = name ∧ x.2 = k)) (pre post : List (Cpf.Scan.Bytes × Nat)) (hs : s = pre ++ post) :
    Cpf.Scan.hasAccess (pre ++ x :: post) name k = Cpf.Scan.hasAccess s name k := by
  subst hs
  unfold Cpf.Scan.hasAccess
  have hb : (x.1 == name && x.2 == k) = false := by
    cases h : (x.1 == name && x.2 == k)
    · rfl
    · exfalso; apply hx
      simp only [Bool.and_eq_true, beq_iff_eq] at h
      exact h
  simp only [List.any_append, List.any_cons, hb, Bool.false_or]

/-- Non-vacuity: `log(a)` and `log(a, b)` called, `log(String)` declared — in either order of the two calls. -/
example : Cpf.Scan.hasAccess [([108, 111, 103], 1), ([108, 111, 103], 2)] [108, 111, 103] 1 = true
        ∧ Cpf.Scan.hasAccess [([108, 111, 103], 2), ([108, 111, 103], 1)] [108, 111, 103] 1 = true
        ∧ Cpf.Scan.hasAccess [([108, 111, 103], 2)] [108, 111, 103] 1 = false := by decide

end Cpf.Props.C07
