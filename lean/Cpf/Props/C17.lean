/-
  C17 — CI reports conserve per-rule findings and survive a bad rule.

  Model: Cpf.Rules.Ci. For **all** rulesets (any number of rules, bad rules at any position) and any evaluator
  `run` (the stand-alone answer to a query):
  * `C17_json`: the JSON report has exactly one entry per rule, in order, carrying the rule's extracted query and
    metadata and the stand-alone result of that query;
  * `C17_sarif_count` / `C17_sarif_results`: the SARIF report has one result per finding — Σ over rules of the
    number of findings — each with the rule's id, lower-cased severity as level, description as message, and the
    finding's file and line; a failed rule contributes its rule entry and no result;
  * `C17_isolate`: the entry of a rule is the same whatever other rules (good or bad) surround it;
  * `C17_path`: under GitHub Actions the report path is `$GITHUB_WORKSPACE/<file>`.
  Regenerated facts (`C17_keys`): the keys processQuery writes into a result and the keys generateSarifReport
  reads agree. The real `ci` is compared with per-rule `query` runs in checks/c17.py; go-sarif's serialiser is
  parsed back, not modelled.
-/
import Cpf.Rules.Ci
import Cpf.Generated.Tables

namespace Cpf.Props.C17
open Cpf.Rules Cpf.Generated

theorem C17_json (run : S → Option (List Finding)) (rules : List S) :
    (ciEntries run rules).length = rules.length ∧
    ∀ i (h : i < rules.length),
      (ciEntries run rules)[i]? = some { rule := ciParse rules[i], result := run (ciParse rules[i]).query } := by
  refine ⟨by simp [ciEntries], ?_⟩
  intro i h
  simp [ciEntries, List.getElem?_map, List.getElem?_eq_getElem h]

def findingsOf (e : Entry) : Nat := (e.result.getD []).length

theorem C17_sarif_count (es : List Entry) : (sarifResults es).length = (es.map findingsOf).sum := by
  induction es with
  | nil => rfl
  | cons e rest ih =>
      simp only [sarifResults, List.flatMap_cons, List.length_append, List.length_map, List.map_cons, List.sum_cons] at ih ⊢
      rw [ih]; rfl

/-- every SARIF result comes from a finding of a rule and carries that rule's id, level and message -/
theorem C17_sarif_results (es : List Entry) (r : SarifResult) (h : r ∈ sarifResults es) :
    ∃ e ∈ es, ∃ f ∈ e.result.getD [], r = { ruleId := e.rule.id, level := lowerAscii e.rule.severity,
                                            message := e.rule.description, file := f.file, line := f.line } := by
  simp only [sarifResults, List.mem_flatMap, List.mem_map] at h
  obtain ⟨e, he, f, hf, rfl⟩ := h
  exact ⟨e, he, f, hf, rfl⟩

/-- … and every finding of every rule appears -/
theorem C17_sarif_complete (es : List Entry) (e : Entry) (he : e ∈ es) (f : Finding) (hf : f ∈ e.result.getD []) :
    { ruleId := e.rule.id, level := lowerAscii e.rule.severity, message := e.rule.description, file := f.file, line := f.line }
      ∈ sarifResults es := by
  simp only [sarifResults, List.mem_flatMap, List.mem_map]
  exact ⟨e, he, f, hf, rfl⟩

/-- a rule that failed keeps its rule entry and adds no result -/
theorem C17_failed_rule (pre post : List Entry) (r : Rule) :
    sarifResults (pre ++ [{ rule := r, result := none }] ++ post) = sarifResults (pre ++ post) ∧
    r.id ∈ sarifRules (pre ++ [{ rule := r, result := none }] ++ post) := by
  constructor
  · simp [sarifResults, List.flatMap_append]
  · simp [sarifRules, List.mem_eraseDups]

/-- **C17 (isolation)**: what is reported for a rule does not depend on the rules around it -/
theorem C17_isolate (run : S → Option (List Finding)) (pre post : List S) (text : S) :
    ciEntries run (pre ++ [text] ++ post) = ciEntries run pre ++ ciEntries run [text] ++ ciEntries run post := by
  simp [ciEntries]

theorem C17_path (ws f : String) : reportPath true ws f = ws ++ "/" ++ f ∧ reportPath false ws f = f := ⟨rfl, rfl⟩

/-- Regenerated: what processQuery writes is what generateSarifReport reads. -/
theorem C17_keys :
    (∀ k ∈ sarifTopKeysRead, k ∈ resultTopKeysWritten) ∧ (∀ k ∈ sarifEntryKeysRead, k ∈ resultEntryKeysWritten) ∧
    sarifRuleKeysRead = ["result", "rule"] := by decide

/-- Non-vacuity: three rules, the middle one failing. -/
example :
    let es : List Entry := [⟨{ id := "a".toList, severity := "WARNING".toList, description := "da".toList }, some [⟨"F.java", 3⟩, ⟨"G.java", 9⟩]⟩,
                            ⟨{ id := "b".toList }, none⟩,
                            ⟨{ id := "c".toList, severity := "Error".toList, description := "dc".toList }, some [⟨"F.java", 1⟩]⟩]
    (sarifResults es).map (fun r => (String.ofList r.ruleId, String.ofList r.level, r.file, r.line))
      = [("a", "warning", "F.java", 3), ("a", "warning", "G.java", 9), ("c", "error", "F.java", 1)] ∧
    sarifRules es = ["a".toList, "b".toList, "c".toList] := by decide

/-- Regenerated: the decisions of the callback `loadRules` hands to `filepath.Walk`: an error of the walk is returned,
    a regular `*.cql` entry that can be read is appended as it is (whatever it contains — also nothing), one that
    cannot be read is passed over, and every other return is nil: no file makes the walk skip its siblings. -/
theorem C17_rule_discovery :
    Cpf.Generated.loadRulesCallback =
      ["walk:filepath.Walk(rulesDirectory)", "if:err != nil", "return:err",
       "if:!info.IsDir() && strings.HasSuffix(info.Name(), \".cql\")", "if:err != nil", "return:nil",
       "append:rules<-string(contents)", "return:nil"] := by decide

end Cpf.Props.C17
