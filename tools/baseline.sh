#!/bin/bash
# Runs the repository's baseline suite with the verif guard OFF and compares with BASELINE.json.
export GOPROXY=off GOSUMDB=off GOTOOLCHAIN=local GOFLAGS=
OUT=$(mktemp /tmp/cpf-baseline.XXXXXX.json)
trap 'rm -f "$OUT"' EXIT
(cd ${REPO_DIR:-/repo}/sourcecode-parser && go test -json -vet=off -count=1 -timeout 25m ./... > "$OUT" 2>&1)
python3 - "$OUT" <<'PY'
import json,sys
base=json.load(open('/root/.vp/BASELINE.json'))
want=set(base['stable_pass'])
got={}
for l in open(sys.argv[1]):
    try: e=json.loads(l)
    except Exception: continue
    if e.get('Test') and e.get('Action') in('pass','fail','skip'):
        got[e['Package']+'::'+e['Test']]=e['Action']
missing=[t for t in sorted(want) if got.get(t)!='pass']
newfail=[t for t,a in got.items() if a=='fail' and t not in base['always_fail']]
print('baseline: want',len(want),'passing:',len(want)-len(missing),'missing/failing:',len(missing),'new failures:',len(newfail))
for t in missing[:20]: print('  NOT PASSING',t,got.get(t))
for t in newfail[:20]: print('  NEW FAIL',t)
sys.exit(1 if missing or newfail else 0)
PY
