/-
  JSON documents as `encoding/json` writes them in compact form (json.Marshal: no insignificant white space) and a
  recursive-descent decoder: strings (Cpf.Rules.Json.escape / unescape), non-negative integers kept as their
  digit strings, arrays, objects with string keys. Enough for the reports of `processQuery` ({"output": …,
  "result_set": [{"file": …, "line": n, "code": …}]}), of `ci` (a list of such entries with rule metadata) and for
  the bundle's structure. `Cpf.Lemmas.JsonDoc`: decoding an encoded document gives the document back.
-/
import Cpf.Rules.Json

namespace Cpf.Rules.JsonDoc
open Cpf.Rules.Json

inductive JV where
  | str (s : List Char)
  | num (digits : List Char)          -- a non-empty string of decimal digits
  | arr (xs : List JV)
  | obj (kvs : List (List Char × JV))
  deriving Repr

def isDigit (c : Char) : Bool := 48 ≤ c.toNat && c.toNat ≤ 57

mutual
def enc : JV → List Char
  | .str s => '"' :: escape s ++ ['"']
  | .num ds => ds
  | .arr xs => '[' :: encElems xs ++ [']']
  | .obj kvs => '{' :: encMembers kvs ++ ['}']
def encElems : List JV → List Char
  | [] => []
  | [x] => enc x
  | x :: y :: r => enc x ++ ',' :: encElems (y :: r)
def encMembers : List (List Char × JV) → List Char
  | [] => []
  | [(k, v)] => '"' :: escape k ++ '"' :: ':' :: enc v
  | (k, v) :: m :: r => '"' :: escape k ++ '"' :: ':' :: enc v ++ ',' :: encMembers (m :: r)
end

/-- the raw body of a string literal: up to the first quote that is not preceded by a backslash -/
def splitStr : List Char → Option (List Char × List Char)
  | [] => none
  | '"' :: r => some ([], r)
  | '\\' :: c :: r => (splitStr r).map (fun p => ('\\' :: c :: p.1, p.2))
  | '\\' :: [] => none
  | c :: r => (splitStr r).map (fun p => (c :: p.1, p.2))

/-- a string literal after its opening quote: decoded text and what follows the closing quote -/
def decStr (cs : List Char) : Option (List Char × List Char) :=
  match splitStr cs with
  | some (body, rest) => (unescape body).map (fun s => (s, rest))
  | none => none

mutual
/-- one value; the fuel bounds nesting depth plus the number of elements -/
def dec : Nat → List Char → Option (JV × List Char)
  | 0, _ => none
  | _ + 1, [] => none
  | f + 1, c :: r =>
      if c = '"' then (decStr r).map (fun p => (JV.str p.1, p.2))
      else if c = '[' then
        match r with
        | ']' :: r' => some (JV.arr [], r')
        | _ => (decElems f r).map (fun p => (JV.arr p.1, p.2))
      else if c = '{' then
        match r with
        | '}' :: r' => some (JV.obj [], r')
        | _ => (decMembers f r).map (fun p => (JV.obj p.1, p.2))
      else if isDigit c then
        some (JV.num ((c :: r).takeWhile isDigit), (c :: r).dropWhile isDigit)
      else none
/-- elements up to and including the closing bracket -/
def decElems : Nat → List Char → Option (List JV × List Char)
  | 0, _ => none
  | f + 1, cs =>
      match dec f cs with
      | some (x, ',' :: r) => (decElems f r).map (fun p => (x :: p.1, p.2))
      | some (x, ']' :: r) => some ([x], r)
      | _ => none
/-- members up to and including the closing brace -/
def decMembers : Nat → List Char → Option (List (List Char × JV) × List Char)
  | 0, _ => none
  | f + 1, cs =>
      match cs with
      | '"' :: r =>
          match decStr r with
          | some (k, ':' :: r1) =>
              match dec f r1 with
              | some (v, ',' :: r2) => (decMembers f r2).map (fun p => ((k, v) :: p.1, p.2))
              | some (v, '}' :: r2) => some ([(k, v)], r2)
              | _ => none
          | _ => none
      | _ => none
end

mutual
def size : JV → Nat
  | .str _ => 1
  | .num _ => 1
  | .arr xs => 1 + sizeElems xs
  | .obj kvs => 1 + sizeMembers kvs
def sizeElems : List JV → Nat
  | [] => 0
  | x :: r => 1 + size x + sizeElems r
def sizeMembers : List (List Char × JV) → Nat
  | [] => 0
  | (_, v) :: r => 1 + size v + sizeMembers r
end

-- numbers are non-empty digit strings
mutual
def wf : JV → Bool
  | .str _ => true
  | .num ds => !ds.isEmpty && ds.all isDigit
  | .arr xs => wfElems xs
  | .obj kvs => wfMembers kvs
def wfElems : List JV → Bool
  | [] => true
  | x :: r => wf x && wfElems r
def wfMembers : List (List Char × JV) → Bool
  | [] => true
  | (_, v) :: r => wf v && wfMembers r
end

/-- a whole document: one value and nothing after it -/
def decode (cs : List Char) : Option JV :=
  match dec (cs.length + 1) cs with
  | some (v, []) => some v
  | _ => none

end Cpf.Rules.JsonDoc

namespace Cpf.Rules.JsonDoc
open Cpf.Rules.Json

/-! ### indented form (json.MarshalIndent(v, "", "  ")) and a decoder that ignores insignificant white space -/

def indent (d : Nat) : List Char := (List.replicate d [' ', ' ']).flatten

mutual
def encIndent (d : Nat) : JV → List Char
  | .str s => '"' :: escape s ++ ['"']
  | .num ds => ds
  | .arr [] => ['[', ']']
  | .arr (x :: r) => '[' :: '\n' :: encIndentElems (d + 1) (x :: r) ++ '\n' :: indent d ++ [']']
  | .obj [] => ['{', '}']
  | .obj (m :: r) => '{' :: '\n' :: encIndentMembers (d + 1) (m :: r) ++ '\n' :: indent d ++ ['}']
def encIndentElems (d : Nat) : List JV → List Char
  | [] => []
  | [x] => indent d ++ encIndent d x
  | x :: y :: r => indent d ++ encIndent d x ++ ',' :: '\n' :: encIndentElems d (y :: r)
def encIndentMembers (d : Nat) : List (List Char × JV) → List Char
  | [] => []
  | [(k, v)] => indent d ++ '"' :: escape k ++ '"' :: ':' :: ' ' :: encIndent d v
  | (k, v) :: m :: r => indent d ++ '"' :: escape k ++ '"' :: ':' :: ' ' :: encIndent d v ++ ',' :: '\n' :: encIndentMembers d (m :: r)
end

def isWs (c : Char) : Bool := c = ' ' || c = '\n' || c = '\t' || c = '\r'

/-- remove white space outside string literals (`inStr` = inside a literal; `esc` = right after a backslash) -/
def stripWs : Bool → Bool → List Char → List Char
  | _, _, [] => []
  | false, _, c :: r => if c = '"' then '"' :: stripWs true false r else if isWs c then stripWs false false r else c :: stripWs false false r
  | true, true, c :: r => c :: stripWs true false r
  | true, false, c :: r => if c = '"' then '"' :: stripWs false false r else if c = '\\' then '\\' :: stripWs true true r else c :: stripWs true false r

/-- decoding a document that may carry insignificant white space -/
def decodeWs (cs : List Char) : Option JV := decode (stripWs false false cs)

end Cpf.Rules.JsonDoc
