"""Generator of a Java program family with ground truth (DESIGN.md §5).

Every generated construct records what the property statements promise for it: kind, location,
snippet and the attribute values *as written by the generator* (not as extracted). The emitted
programs are ordinary Java (validated with javac in the thorough tier).

Knobs (Opts): sizes, layout (newline style, indentation, tabs, comments, non-ASCII), and `unique`,
which keeps names / comments / expression texts distinct per file and one `new X()` per line, so that
the known same-file identity collisions (known_findings.json, C03) do not occur.
"""
import random

BIN_OPS = ["+", "-", "*", "/", "%", ">", "<", ">=", "<=", "==", "!=", "&", "&&", "||", "|", ">>", "<<", ">>>", "^"]
OP_KIND = {"+": "add_expression", "-": "sub_expression", "*": "mul_expression", "/": "div_expression",
           ">": "comp_expression", "<": "comp_expression", ">=": "comp_expression", "<=": "comp_expression",
           "%": "rem_expression", ">>": "right_shift_expression", "<<": "left_shift_expression",
           "!=": "ne_expression", "==": "eq_expression", "&": "bitwise_and_expression", "&&": "and_expression",
           "||": "or_expression", "|": "bitwise_or_expression", ">>>": "bitwise_right_shift_expression",
           "^": "bitwise_xor_expression"}
INT_OPS = ["+", "-", "*", "/", "%", "&", "|", "^", ">>", "<<", ">>>"]
CMP_OPS = [">", "<", ">=", "<=", "==", "!="]
BOOL_OPS = ["&&", "||"]
VIS = ["public", "private", "protected", ""]
PRIM = ["int", "long", "boolean", "double", "char", "byte", "short", "float"]
REFT = ["String", "Object", "Integer", "Runnable", "Thread", "Exception"]
EXC = ["Exception", "RuntimeException", "IllegalStateException", "java.io.IOException", "InterruptedException"]
ANN = ["@Override", "@Deprecated", "@FunctionalInterface", "@SafeVarargs"]
IFACES = ["Runnable", "Cloneable", "java.io.Serializable", "Comparable"]


class Opts:
    def __init__(self, **kw):
        self.classes = 2
        self.methods = 3
        self.fields = 2
        self.stmts = 4
        self.depth = 2
        self.unique = True
        self.eol = "\n"
        self.indent = "    "
        self.nonascii = False
        self.comments = True
        self.javadoc = True
        self.nested_classes = False
        self.__dict__.update(kw)


class W:
    def __init__(self):
        self.parts = []
        self.pos = 0

    def w(self, s):
        self.parts.append(s)
        self.pos += len(s.encode("utf-8"))

    def text(self):
        return "".join(self.parts)


class Gen:
    def __init__(self, rng, opts=None):
        self.r = rng
        self.o = opts or Opts()
        self.ents = []
        self.used = set()
        self.counter = 0
        self.seps, self.odd_ws_ids, self.keep = {}, set(), []      # white space chosen per binary node (keep: the nodes stay alive, ids stay unique)
        self.exprs_seen = set()
        self.news_on_line = set()
        self.loop_labels = []

    # ---------------------------------------------------------------- names
    def fresh(self, base):
        if self.o.unique:
            self.counter += 1
            return "%s%d" % (base, self.counter)
        return self.r.choice([base, base + "1", base + "2", "i", "x", "tmp"])

    def word(self):
        ws = ["alpha", "beta", "gamma", "delta", "count", "value", "name", "item", "SELECT", "WHERE", "data"]
        if self.o.nonascii:
            ws += ["größe", "日本", "naïve"]
        return self.r.choice(ws)

    # ---------------------------------------------------------------- entity recording
    def ent(self, kind, start, end, **attrs):
        e = dict(kind=kind, start=start, end=end)
        e.update(attrs)
        self.ents.append(e)
        return e

    # ---------------------------------------------------------------- expressions (return text; record entities relative to w.pos at write time)
    def lit_int(self):
        if self.o.unique:
            self.counter += 1
            return str(1000 + self.counter)
        return str(self.r.randint(0, 3))

    def lit_str(self):
        """a Java string literal; the escapes sit anywhere, also at the very start and the very end"""
        body = self.word()
        extra = self.r.choice(["", " x", "\\\"q\\\"", "\\\\", " in ", "a,b", "(", "WHERE x SELECT",
                               "\\u003cb\\u003e", "\\u0026amp;", "\\\\u003c", "<&>", "\\u2028", "\\t\\n", "\\101",
                               # text that looks like a comment (a URL, a glob, comment delimiters) is text all the same
                               "http://x/y", "src/**/*.java", "/* c */", "// c", "/*", "*/ //"])
        uniq = ""
        if self.o.unique:
            self.counter += 1
            uniq = str(self.counter)
        k = self.r.random()
        if k < 0.15:
            return '"' + uniq + body + extra + '\\"' + '"'          # ends with an escaped quote
        if k < 0.25:
            return '"' + '\\"' + body + extra + uniq + '"'          # starts with an escaped quote
        if k < 0.32:
            return '"' + uniq + body + '\\\\' + '"'               # ends with an escaped backslash
        if k < 0.36 and not self.o.unique:
            return self.r.choice(['"\\""', '""', '"\\\\"', '"\\"\\""'])
        return '"' + body + extra + uniq + '"'

    def build_expr(self, depth, ty):
        """Returns an expression tree: ('lit', text) | ('id', name) | ('bin', op, l, r, paren) |
        ('call', recv, name, args) | ('new', cls, args) | ('paren', e)"""
        r = self.r
        if depth <= 0 or r.random() < 0.3:
            if ty == "int":
                return r.choice([("lit", self.lit_int()), ("lit", self.lit_int()), ("id", r.choice(self.int_vars))]) if self.int_vars else ("lit", self.lit_int())
            if ty == "bool":
                return ("lit", r.choice(["true", "false"])) if (r.random() < 0.3 and not self.o.unique) else \
                    ("bin", r.choice(CMP_OPS), self.build_expr(0, "int"), self.build_expr(0, "int"), False)
            if ty == "str":
                return ("lit", self.lit_str())
        k = r.random()
        if ty == "int":
            if k < 0.6:
                op = r.choice(INT_OPS)
                return self.bin_(op, self.build_expr(depth - 1, "int"), self.build_expr(depth - 1, "int"), r.random() < 0.4)
            if k < 0.8:
                return ("call", r.choice([None, "this", "helper"]), r.choice(self.int_methods), self.build_args(depth - 1))
            return ("paren", self.build_expr(depth - 1, "int"))
        if ty == "bool":
            if k < 0.5:
                return self.bin_(r.choice(CMP_OPS), self.build_expr(depth - 1, "int"), self.build_expr(depth - 1, "int"), r.random() < 0.3)
            return self.bin_(r.choice(BOOL_OPS), self.build_expr(depth - 1, "bool"), self.build_expr(depth - 1, "bool"), r.random() < 0.5)
        if ty == "str":
            if k < 0.5:
                return self.bin_("+", ("lit", self.lit_str()), self.build_expr(depth - 1, r.choice(["int", "str"])), False)
            return ("lit", self.lit_str())
        return ("lit", "null")

    def build_args(self, depth):
        n = self.r.choice([0, 1, 1, 2, 3])
        return self.with_sum([self.build_expr(depth, self.r.choice(["int", "str", "int"])) for _ in range(n)])

    def with_sum(self, args):
        """now and then an argument becomes a sum (so that calls have arguments that are expressions with operators)"""
        if args and self.r.random() < 0.35:
            i = self.r.randrange(len(args))
            if args[i][0] in ("lit", "id", "call"):
                args[i] = self.bin_("+", args[i], ("lit", str(self.r.randint(2, 9))), False)
        for a in args:
            # (marked here, before anything asks for the text of these nodes)
            self.odd_ws_ids.update(id(x) for x in self.bin_nodes(a))
            self.keep.append(a)
        return args

    def bin_(self, op, l, r, paren):
        """a binary node whose operands are parenthesised when they are binary themselves, so that the text
        parses back to exactly this tree whatever the operators' precedences"""
        def wrap(x):
            return ("bin", x[1], x[2], x[3], True) if x[0] == "bin" else x
        return ("bin", op, wrap(l), wrap(r), paren)

    def bin_nodes(self, e):
        if e[0] == "bin":
            return [e] + self.bin_nodes(e[2]) + self.bin_nodes(e[3])
        if e[0] == "paren":
            return self.bin_nodes(e[1])
        return []

    def bin_seps(self, e):
        """white space around the operator of this node: one blank, now and then several or a line break (more often
        inside call arguments); decided once per node, so that every text computed for it agrees with what is written"""
        k = id(e)
        if k not in self.seps:
            if self.r.random() < (0.5 if k in self.odd_ws_ids else 0.08):
                wrap = self.o.eol + "                " if self.o.eol == "\n" else "    "
                self.seps[k] = self.r.choice([("  ", "  "), (" ", wrap), ("   ", " "), (" ", "  ")])
            else:
                self.seps[k] = (" ", " ")
            self.keep.append(e)
        return self.seps[k]

    def call_dot(self, e):
        """the text between a receiver and the method name: a dot, now and then set off by blanks or moved to the next
        line (a fluent layout); decided once per node"""
        k = ("dot", id(e))
        if k not in self.seps:
            if self.r.random() < 0.12:
                wrap = (self.o.eol + "            ." if self.o.eol == "\n" else " .")
                self.seps[k] = self.r.choice([" . ", " .", ". ", wrap, "  .  "])
            else:
                self.seps[k] = "."
            self.keep.append(e)
        return self.seps[k]

    def expr_text(self, e):
        t = e[0]
        if t in ("lit", "id"):
            return e[1]
        if t == "paren":
            return "(" + self.expr_text(e[1]) + ")"
        if t == "bin":
            sl, sr = self.bin_seps(e)
            s = self.expr_text(e[2]) + sl + e[1] + sr + self.expr_text(e[3])
            return "(" + s + ")" if e[4] else s
        if t == "call":
            recv = (e[1] + self.call_dot(e)) if e[1] else ""
            return recv + e[2] + "(" + ", ".join(self.expr_text(a) for a in e[3]) + ")"
        if t == "new":
            return "new " + e[1] + "(" + ", ".join(self.expr_text(a) for a in e[2]) + ")"
        raise ValueError(e)

    def emit_expr(self, w, e):
        """Write expression e, recording its entities at their byte offsets."""
        t = e[0]
        if t in ("lit", "id"):
            w.w(e[1])
        elif t == "paren":
            w.w("(")
            self.emit_expr(w, e[1])
            w.w(")")
        elif t == "bin":
            if e[4]:
                w.w("(")
            s = w.pos
            sl, sr = self.bin_seps(e)
            self.emit_expr(w, e[2])
            w.w(sl + e[1] + sr)
            self.emit_expr(w, e[3])
            end = w.pos
            lt, rt = self.expr_text(e[2]), self.expr_text(e[3])
            self.ent("binary_expression", s, end, op=e[1], left=lt, right=rt)
            self.ent(OP_KIND[e[1]], s, end, op=e[1], left=lt, right=rt)
            if e[4]:
                w.w(")")
        elif t == "call":
            s = w.pos
            if e[1]:
                w.w(e[1] + self.call_dot(e))
            w.w(e[2] + "(")
            argtexts = []
            for i, a in enumerate(e[3]):
                if i:
                    w.w(", ")
                # inside an argument the operators of a binary expression may be set off by several blanks or a line
                # break (a wrapped sum): the argument's text is the source text, white space included
                self.odd_ws_ids.update(id(x) for x in self.bin_nodes(a))
                self.emit_expr(w, a)
                argtexts.append(self.expr_text(a))
            w.w(")")
            # the property: name prefixed by a *simple receiver identifier* when there is one
            name = e[2] if e[1] in (None, "this") else e[1] + "." + e[2]
            args = [a[1:-1] if (len(a) >= 2 and a[0] == '"' and a[-1] == '"' and e_is_strlit(x)) else a
                    for a, x in zip(argtexts, e[3])]
            self.ent("method_invocation", s, w.pos, name=name, args=args, recv=e[1])
        elif t == "new":
            s = w.pos
            w.w("new " + e[1] + "(")
            argtexts = []
            for i, a in enumerate(e[2]):
                if i:
                    w.w(", ")
                self.emit_expr(w, a)
                argtexts.append(self.expr_text(a))
            w.w(")")
            self.ent("ClassInstanceExpr", s, w.pos, className=e[1], args=argtexts)
        else:
            raise ValueError(e)

    def uniq_expr(self, depth, ty):
        """An expression whose binary sub-expression texts are new in this file (unique mode)."""
        for _ in range(50):
            e = self.build_expr(depth, ty)
            if not self.o.unique:
                return e
            texts = []
            collect_bin_texts(self, e, texts)
            if len(set(texts)) == len(texts) and not (set(texts) & self.exprs_seen):
                self.exprs_seen.update(texts)
                return e
        return ("lit", self.lit_int() if ty == "int" else ("true" if ty == "bool" else self.lit_str()))

    # ---------------------------------------------------------------- statements
    def emit_block(self, w, ind, depth, n=None, in_loop=False, ret="void"):
        s = w.pos
        w.w("{" + self.o.eol)
        texts = ["{"]
        n = self.o.stmts if n is None else n
        starts = []
        for _ in range(self.r.randint(0, n) if not self.o.unique else n):
            w.w(ind + self.o.indent)
            a = w.pos
            self.emit_stmt(w, ind + self.o.indent, depth, in_loop, ret)
            starts.append((a, w.pos))
            w.w(self.o.eol)
        w.w(ind + "}")
        e = self.ent("BlockStmt", s, w.pos, stmt_spans=starts)
        return e

    def emit_stmt(self, w, ind, depth, in_loop, ret):
        r = self.r
        kinds = ["local", "local", "call", "assign", "return", "assert", "new"]
        if depth > 0:
            kinds += ["if", "if", "while", "do", "for", "block", "switchyield"]
        if in_loop:
            kinds += ["break", "continue"]
        k = r.choice(kinds)
        if k == "local":
            self.emit_local(w, ind)
        elif k == "call":
            e = ("call", r.choice([None, "this", "helper", "System.out"]), r.choice(["run", "println", "emit"]), self.build_args_u(depth))
            if e[1] == "System.out":
                # a non-simple receiver: name is not prefixed (field_access receiver)
                s = w.pos
                w.w("System.out." + e[2] + "(")
                argtexts = []
                for i, a in enumerate(e[3]):
                    if i:
                        w.w(", ")
                    self.emit_expr(w, a)
                    argtexts.append(self.expr_text(a))
                w.w(")")
                args = [t[1:-1] if e_is_strlit(x) else t for t, x in zip(argtexts, e[3])]
                self.ent("method_invocation", s, w.pos, name=e[2], args=args, recv="System.out")
            else:
                self.emit_expr(w, e)
            w.w(";")
        elif k == "assign":
            if self.int_vars:
                w.w(r.choice(self.int_vars) + " = ")
                self.emit_expr(w, self.uniq_expr(depth, "int"))
                w.w(";")
            else:
                self.emit_local(w, ind)
        elif k == "new":
            line_key = ("new",)
            cls = r.choice(["Object", "StringBuilder", "java.util.ArrayList", "Thread"])
            if self.o.unique:
                self.counter += 1
            nm = self.fresh("obj")
            s = w.pos
            w.w("Object " + nm + " = ")
            e = ("new", cls, self.build_args_u(0) if cls in ("StringBuilder",) and False else [])
            args = []
            if cls == "StringBuilder" and r.random() < 0.5:
                args = [("lit", self.lit_str())]
            elif cls == "Thread" and r.random() < 0.5:
                args = [("lit", self.lit_str())]
            e = ("new", cls, args)
            vs = w.pos
            self.emit_expr(w, e)
            val = self.expr_text(e)
            w.w(";")
            self.ent("variable_declaration", s, w.pos, name=nm, dataType="Object", value=strip_ws(val), scope="local", visibility="")
        elif k == "return":
            s = w.pos
            if ret == "void":
                w.w("return;")
                self.ent("ReturnStmt", s, w.pos, result=None)
            else:
                w.w("return ")
                e = self.uniq_expr(depth, "int" if ret in ("int", "long") else ("bool" if ret == "boolean" else "str"))
                self.emit_expr(w, e)
                w.w(";")
                self.ent("ReturnStmt", s, w.pos, result=self.expr_text(e))
        elif k == "assert":
            s = w.pos
            w.w("assert ")
            e = self.uniq_expr(1, "bool")
            self.emit_expr(w, e)
            msg = None
            if r.random() < 0.5:
                msg = self.lit_str()
                w.w(" : " + msg)
            w.w(";")
            self.ent("AssertStmt", s, w.pos, expr=self.expr_text(e), msg=msg)
        elif k == "if":
            s = w.pos
            w.w("if (")
            c = self.uniq_expr(1, "bool")
            self.emit_expr(w, c)
            w.w(") ")
            def branch():
                # a block, or the empty statement `;` (legal Java: `if (done) ; else retry();`)
                if r.random() < 0.2:
                    a = w.pos
                    w.w(";")
                    return dict(start=a, end=w.pos)
                return self.emit_block(w, ind, depth - 1, 2, in_loop, ret)
            tb = branch()
            eb = None
            if r.random() < 0.5:
                w.w(" else ")
                eb = branch()
            self.ent("IfStmt", s, w.pos, cond="(" + self.expr_text(c) + ")", then_span=(tb["start"], tb["end"]),
                     else_span=(eb["start"], eb["end"]) if eb else None)
        elif k == "while":
            s = w.pos
            label = None
            if r.random() < 0.3:
                label = self.fresh("lbl")
                w.w(label + ": ")
                s = w.pos
            w.w("while (")
            c = self.uniq_expr(1, "bool")
            self.emit_expr(w, c)
            w.w(") ")
            self.loop_labels.append(label)
            self.emit_block(w, ind, depth - 1, 2, True, ret)
            self.loop_labels.pop()
            self.ent("WhileStmt", s, w.pos, cond="(" + self.expr_text(c) + ")")
        elif k == "do":
            s = w.pos
            w.w("do ")
            self.loop_labels.append(None)
            self.emit_block(w, ind, depth - 1, 2, True, ret)
            self.loop_labels.pop()
            w.w(" while (")
            c = self.uniq_expr(1, "bool")
            self.emit_expr(w, c)
            w.w(");")
            self.ent("DoStmt", s, w.pos, cond="(" + self.expr_text(c) + ")")
        elif k == "for":
            s = w.pos
            w.w("for (")
            init = cond = incr = None
            v = self.fresh("k")
            if r.random() < 0.8:
                a = w.pos
                w.w("int " + v + " = ")
                lit = self.lit_int()
                w.w(lit)
                init = "int " + v + " = " + lit + ";"
                w.w(";")
                self.ent("variable_declaration", a, w.pos, name=v, dataType="int", value=lit, scope="local", visibility="")
                self.int_vars.append(v)
                has_v = True
            else:
                w.w(";")
                has_v = False
            if r.random() < 0.8:
                w.w(" ")
                c = ("bin", "<", ("id", v) if has_v else ("lit", self.lit_int()), ("lit", self.lit_int()), False)
                self.emit_expr(w, c)
                cond = self.expr_text(c)
            w.w(";")
            if has_v and r.random() < 0.8:
                incr = v + "++"
                w.w(" " + incr)
            w.w(") ")
            self.loop_labels.append(None)
            self.emit_block(w, ind, depth - 1, 2, True, ret)
            self.loop_labels.pop()
            if has_v:
                self.int_vars.remove(v)
            self.ent("ForStmt", s, w.pos, init=init, cond=cond, incr=incr)
        elif k == "block":
            self.emit_block(w, ind, depth - 1, 2, in_loop, ret)
        elif k == "break":
            s = w.pos
            lab = self.loop_labels[-1] if (self.loop_labels and self.loop_labels[-1] and r.random() < 0.7) else None
            w.w("break" + ((" " + lab) if lab else "") + ";")
            self.ent("BreakStmt", s, w.pos, label=lab or "")
        elif k == "continue":
            s = w.pos
            lab = self.loop_labels[-1] if (self.loop_labels and self.loop_labels[-1] and r.random() < 0.7) else None
            w.w("continue" + ((" " + lab) if lab else "") + ";")
            self.ent("ContinueStmt", s, w.pos, label=lab or "")
        elif k == "switchyield":
            nm = self.fresh("sw")
            s = w.pos
            w.w("int " + nm + " = switch (")
            sel = r.choice(self.int_vars) if self.int_vars else self.lit_int()
            w.w(sel + ") { case 1 -> ")
            y1 = self.uniq_expr(1, "int")
            y2 = self.uniq_expr(0, "int")
            for i, y in enumerate((y1, y2)):
                if i:
                    w.w(" default -> ")
                bs = w.pos
                w.w("{ ")
                a = w.pos
                w.w("yield ")
                self.emit_expr(w, y)
                w.w(";")
                self.ent("YieldStmt", a, w.pos, value=self.expr_text(y))
                w.w(" }")
                self.ent("BlockStmt", bs, w.pos, stmt_spans=[(a, a + len(("yield " + self.expr_text(y) + ";").encode("utf-8")))])
            w.w(" };")
            val = "switch(" + sel + "){case1->{yield" + strip_ws(self.expr_text(y1)) + ";}default->{yield" + strip_ws(self.expr_text(y2)) + ";}}"
            self.ent("variable_declaration", s, w.pos, name=nm, dataType="int", value=val, scope="local", visibility="")

    def build_args_u(self, depth):
        n = self.r.choice([0, 1, 1, 2, 3])
        return self.with_sum([self.uniq_expr(min(depth, 1), self.r.choice(["int", "str", "int"])) for _ in range(n)])

    RICH_TYPES = ["java.io.File", "java.util.Date", "java.math.BigDecimal", "Map.Entry", "java.util.List<String>", "int[]", "String[][]",
                  "java.io.File[]", "Outer.Inner", "java.util.Map<String, java.util.List<Integer>>", "char", "byte", "float", "short", "var"]

    def emit_local(self, w, ind):
        r = self.r
        s = w.pos
        if r.random() < 0.15:
            # types written in other ways than a simple name: qualified, generic, array, primitive, var
            ty = r.choice(self.RICH_TYPES)
            nm = self.fresh(r.choice(["v", "n", "tmp"]))
            init = " = null" if ty not in ("char", "byte", "float", "short", "var") else " = 0"
            w.w(ty + " " + nm + init + ";")
            self.ent("variable_declaration", s, w.pos, name=nm, dataType=ty, value=init[3:], scope="local", visibility="")
            return
        ty = r.choice(["int", "int", "long", "String", "boolean", "double"])
        nm = self.fresh(r.choice(["v", "n", "tmp"]))
        mods = "final " if r.random() < 0.2 else ""
        w.w(mods + ty + " " + nm)
        val = ""
        if r.random() < 0.8:
            w.w(" = ")
            e = self.uniq_expr(self.o.depth, {"int": "int", "long": "int", "String": "str", "boolean": "bool", "double": "int"}[ty])
            self.emit_expr(w, e)
            val = strip_ws(self.expr_text(e))
        w.w(";")
        self.ent("variable_declaration", s, w.pos, name=nm, dataType=ty, value=val, scope="local", visibility="")
        if ty in ("int", "long"):
            self.int_vars.append(nm)

    # ---------------------------------------------------------------- declarations
    def emit_javadoc(self, w, ind, for_method, params, throws):
        r = self.r
        s = w.pos
        tags = []
        lines = ["/**", " * " + self.word() + " " + self.word() + (" %d" % self.bump() if self.o.unique else "")]
        pool = []
        pool.append(("author", self.word()))
        pool.append(("version", "%d.%d" % (r.randint(0, 9), r.randint(0, 9))))
        pool.append(("since", "%d" % r.randint(1, 21)))
        pool.append(("see", r.choice([self.word().capitalize(), "https://example.com/docs/", "java.util.*", "Other#method(int, String)", "<a href=\"x\">y</a>"])))
        if for_method:
            for p in params:
                pool.append(("param", p + " the " + r.choice([self.word(), "path relative to /", "glob like *.java or **", "value (may be null).", "a  b"])))
            for t in throws:
                pool.append(("throws", t + " when " + self.word()))
            pool.append(("return", "the " + self.word()))
        if r.random() < 0.35:
            # the same tag twice with different texts (two authors, a second @see, …)
            for name in r.sample(["author", "version", "since", "see", "return", "throws"], r.randint(1, 3)):
                if name in ("return", "throws") and not for_method:
                    continue
                pool.append((name, {"author": "Second " + self.word(), "version": "%d.%d-rc" % (r.randint(10, 19), r.randint(0, 9)),
                                    "since": "%d" % r.randint(30, 40), "see": "Also" + self.word().capitalize(),
                                    "return": "or the " + self.word(), "throws": "Other when " + self.word()}[name]))
        r.shuffle(pool)
        for tg in pool[: r.randint(0, len(pool))]:
            tags.append(tg)
            lines.append(" * @" + tg[0] + " " + tg[1])
        lines.append(" */")
        text = (self.o.eol + ind).join(lines)
        w.w(text)
        self.ent("block_comment", s, w.pos, tags=tags, is_doc=True)
        w.w(self.o.eol + ind)
        return tags

    def bump(self):
        self.counter += 1
        return self.counter

    def join_mods(self, mods, ind):
        """modifiers and annotations of a declaration header, mostly one blank apart; now and then a tab, a line break
        (with or without indentation) or several blanks between two of them and before what follows"""
        r = self.r
        if not mods:
            return ""
        out = []
        for m in mods:
            out.append(m)
            out.append(" " if r.random() < 0.8 else r.choice(["\t", self.o.eol, self.o.eol + ind, self.o.eol + "\t", "  ", " \t "]))
        return "".join(out)

    def emit_method(self, w, ind, cls):
        r = self.r
        tags = None
        nparams = r.choice([0, 1, 2, 3, 3, 5, 6, 8])        # lists of five and more: beyond any small fixed capacity
        params = []
        for i in range(nparams):
            params.append((r.choice(PRIM + REFT + ["int[]", "java.util.List<String>"]), self.fresh("p")))
        throws = r.sample(EXC, r.choice([0, 0, 1, 2, 5]))
        if self.o.javadoc and r.random() < 0.5:
            tags = self.emit_javadoc(w, ind, True, [p[1] for p in params], throws)
        s = w.pos
        anns = r.sample(ANN[:2], r.choice([0, 0, 1, 2]))
        vis = r.choice(VIS)
        mods = list(anns)
        if vis:
            mods.append(vis)
        if r.random() < 0.3:
            mods.append("static")
        if r.random() < 0.2:
            mods.append("final")
        if mods and len(anns) and len(mods) > len(anns) and r.random() < 0.35:
            # legal but unconventional: keywords before / between the annotations
            r.shuffle(mods)
            anns = [m for m in mods if m.startswith("@")]
            w.w(self.join_mods(mods, ind))
        elif mods and r.random() < 0.5:
            w.w(self.join_mods(mods, ind))
        elif mods:
            sep = r.choice([" ", self.o.eol + ind]) if anns else " "
            w.w(sep.join(mods[:len(anns)]) + (sep if anns else "") + " ".join(mods[len(anns):]) + (" " if mods[len(anns):] else ""))
        ret = r.choice(["void", "void", "int", "boolean", "String", "long", "Object", "int[]"])
        name = self.fresh(r.choice(["run", "get", "calc", "m"]))
        w.w(ret + " " + name + "(")
        w.w(", ".join(t + " " + n for t, n in params))
        w.w(")")
        if throws:
            w.w(" throws " + ", ".join(throws))
        w.w(" ")
        saved = list(self.int_vars)
        self.int_vars = [n for t, n in params if t in ("int", "long")] + self.int_fields
        self.emit_block(w, ind, self.o.depth, ret=ret if ret in ("void", "int", "boolean", "String", "long") else "void")
        if ret not in ("void",):
            pass
        self.int_vars = saved
        self.ent("method_declaration", s, w.pos, name=name, visibility=vis, returnType=ret,
                 paramTypes=[t for t, n in params], paramNames=[n for t, n in params], throws=throws,
                 annotations=anns, javadoc=tags)

    def emit_field(self, w, ind):
        r = self.r
        if self.o.javadoc and r.random() < 0.3:
            # a documented field: the comment belongs to the field, not to whatever class or method comes next
            self.emit_javadoc(w, ind, False, [], [])
        s = w.pos
        vis = r.choice(VIS)
        mods = [vis] if vis else []
        if r.random() < 0.3:
            mods.append("static")
        ty = r.choice(["int", "String", "boolean", "long", "Object"])
        nm = self.fresh(r.choice(["f", "field", "x"]))
        rich = r.random() < 0.2
        if rich:
            ty = r.choice([t for t in self.RICH_TYPES if t != "var"])
        w.w((self.join_mods(mods, ind) if r.random() < 0.5 else " ".join(mods) + (" " if mods else "")) + ty + " " + nm)
        val = ""
        if not rich and r.random() < 0.7:
            w.w(" = ")
            saved = self.int_vars
            self.int_vars = []
            e = self.uniq_expr(1, {"int": "int", "long": "int", "String": "str", "boolean": "bool", "Object": "obj"}[ty])
            self.int_vars = saved
            self.emit_expr(w, e)
            val = strip_ws(self.expr_text(e))
        w.w(";")
        self.ent("variable_declaration", s, w.pos, name=nm, dataType=ty, value=val, scope="field", visibility=vis)
        if ty in ("int", "long") and "static" not in mods:
            self.int_fields.append(nm)

    def emit_class(self, w, ind, name):
        r = self.r
        tags = None
        if self.o.javadoc and r.random() < 0.5:
            tags = self.emit_javadoc(w, ind, False, [], [])
        elif self.o.comments and r.random() < 0.4:
            s = w.pos
            w.w("/* " + self.word() + (" %d" % self.bump() if self.o.unique else "") + " */")
            self.ent("block_comment", s, w.pos, tags=[], is_doc=False)
            w.w(self.o.eol + ind)
            tags = []
        s = w.pos
        anns = r.sample(["@Deprecated", "@FunctionalInterface"][:1], r.choice([0, 0, 1]))
        vis = r.choice(["public", ""]) if ind == "" else r.choice(VIS)
        mods = list(anns) + ([vis] if vis else [])
        if r.random() < 0.2:
            mods.append("abstract" if r.random() < 0.5 else "final")
        if ind and r.random() < 0.5:
            mods.append("static")
        if anns and len(mods) > len(anns) and r.random() < 0.35:
            r.shuffle(mods)
        w.w((self.join_mods(mods, ind) if r.random() < 0.5 else " ".join(mods) + (" " if mods else "")) + "class " + name)
        sup = None
        if r.random() < 0.4:
            sup = r.choice(["Object", "Thread", "Exception", "java.util.ArrayList"])
            if "." in sup:
                sup = "Thread"
            w.w(" extends " + sup)
        ifs = []
        if r.random() < 0.5:
            ifs = r.sample(["Runnable2", "Cloneable", "Marker", "Comparable2"], r.choice([1, 2, 3]))
            w.w(" implements " + ", ".join(ifs))
        w.w(" {" + self.o.eol)
        self.int_fields = []
        self.int_vars = []
        for _ in range(r.randint(0, self.o.fields) if not self.o.unique else self.o.fields):
            w.w(ind + self.o.indent)
            self.emit_field(w, ind + self.o.indent)
            w.w(self.o.eol)
        for _ in range(max(1, self.o.methods)):
            w.w(self.o.eol + ind + self.o.indent)
            self.emit_method(w, ind + self.o.indent, name)
            w.w(self.o.eol)
        w.w(ind + "}")
        self.ent("class_declaration", s, w.pos, name=name, visibility=vis, superClass=sup or "", interfaces=ifs,
                 annotations=anns, javadoc=tags)

    def file(self, clsbase="K"):
        """Returns (source text, entities with line/snippet)."""
        self.ents = []
        self.exprs_seen = set()
        self.int_methods = ["size", "len", "compute"]
        self.int_fields = []
        self.int_vars = []
        self.switch_blocks = 0
        w = W()
        if self.o.comments and self.r.random() < 0.5:
            s = w.pos
            w.w("/* file " + self.word() + (" %d" % self.bump() if self.o.unique else "") + " */")
            self.ent("block_comment", s, w.pos, tags=[], is_doc=False)
            w.w(self.o.eol)
        w.w("package gen;" + self.o.eol + self.o.eol)
        for i in range(max(1, self.o.classes)):
            nm = self.fresh(clsbase)
            self.emit_class(w, "", nm)
            w.w(self.o.eol + self.o.eol)
        text = w.text()
        raw = text.encode("utf-8")
        for e in self.ents:
            e["line"] = raw[: e["start"]].count(b"\n") + 1
            e["snippet"] = raw[e["start"]: e["end"]].decode("utf-8")
        return text, self.ents


def strip_ws(s):
    return s.replace(" ", "").replace("\n", "")


def e_is_strlit(e):
    return e[0] == "lit" and e[1].startswith('"')


def collect_bin_texts(g, e, out):
    t = e[0]
    if t == "bin":
        out.append(g.expr_text(e[2]) + " " + e[1] + " " + g.expr_text(e[3]))
        collect_bin_texts(g, e[2], out)
        collect_bin_texts(g, e[3], out)
    elif t == "paren":
        collect_bin_texts(g, e[1], out)
    elif t == "call":
        for a in e[3]:
            collect_bin_texts(g, a, out)
    elif t == "new":
        for a in e[2]:
            collect_bin_texts(g, a, out)


SUPPORT = """package gen;
class helper { static int run(Object... a){return 0;} static int size(Object... a){return 0;} static int len(Object... a){return 0;}
 static int compute(Object... a){return 0;} static void println(Object... a){} static void emit(Object... a){} }
interface Runnable2 {} interface Marker {} interface Comparable2 {}
"""


def kitchen_sink():
    """A fixed program that contains every supported construct and every binary operator."""
    ops = "\n".join("        int r%d = a %s b;" % (i, op) for i, op in enumerate(INT_OPS))
    cmps = "\n".join("        boolean c%d = a %s b;" % (i, op) for i, op in enumerate(CMP_OPS))
    return """/* kitchen sink */
package gen;

/**
 * Doc.
 * @author someone
 * @version 1.0
 */
@Deprecated
public class Sink extends Thread implements Runnable, Cloneable {
    private int field = 1 + 2;
    /** @param a first
      * @return it */
    @Override
    public int all(int a, int b) throws Exception {
%s
%s
        boolean l1 = c0 && c1;
        boolean l2 = c0 || c1;
        Object o = new Object();
        StringBuilder sb = new StringBuilder("x");
        helperCall(a, "lit", b);
        this.other();
        if (a > b) { a = b; } else { b = a; }
        outer:
        while (a < 10) { a++; if (a == 5) { break outer; } else { continue outer; } }
        do { a--; } while (a > 0);
        for (int i = 0; i < 3; i++) { b += i; }
        assert a >= 0 : "msg";
        int y = switch (a) { case 1 -> { yield 10; } default -> { yield 20; } };
        { int inner = 0; }
        return a;
    }
    void other() { return; }
    static void helperCall(Object... x) { }
}
record Point(int x, int y) { int sum() { return x + y; } }
enum Color { RED, GREEN; int code() { return ordinal() * 2; } }
interface Shape { int area(); default int twice() { return area() << 1; } }
@interface Marker { int value() default 0; }
""" % (ops, cmps)


def odd_places():
    """Supported constructs where declarations-only code is usually expected: annotation arguments, parameter
    lists, imports, package clause, enum and interface bodies, lambdas, anonymous classes, initialisers, array
    initialisers, ternaries, switch arms, try/catch/finally, synchronized blocks, generic bounds."""
    return """/* header */ package /* in package clause */ odd.places;
import /* in import */ java.util.List;
import java.util.function.IntSupplier;

@interface Size { int max() default 1 + 1; int min() default 0; }

@SuppressWarnings({"a" + "b", /* in annotation */ "c"})
public class Odd<T extends Comparable<T>> {
    static final int BASE = 10;
    @Size(max = BASE * 4, min = BASE - 9) int sized = BASE / 2;
    static { int boot = BASE % 3; prepare(boot); }
    { Object self = new Object(); }
    int[] table = { 1 << 2, BASE >> 1, makeOne(BASE >>> 2) };

    Odd(@Size(max = 2 * 2) int first, /* between parameters */ int second) { this.sized = first ^ second; }

    void resize(/* unused */ int hint, @Size(max = sizeOf(new Object())) int w) { }

    int choose(int a) {
        IntSupplier s = () -> a + BASE;
        Runnable r = new Runnable() { public void run() { int inner = a | 1; log(inner); } };
        int t = a > 1 ? a & 3 : twice(a);
        switch (a) { case 1: t = t + 1; break; default: t = t - 1; }
        try (java.io.StringReader rd = new java.io.StringReader("x" + a)) { t = rd.read(); }
        catch (java.io.IOException | RuntimeException e) { t = fail(e); }
        finally { /* in finally */ t = t * 1; }
        synchronized (this) { if (t != 0) { return t; } }
        for (int i = 0, j = a <= 1 ? 1 : 2; i < j; i++) { continue; }
        return s.getAsInt();
    }
    static int makeOne(int x) { return x; }
    static int twice(int x) { return x + x; }
    static int sizeOf(Object o) { return 1; }
    static int fail(Exception e) { return -1; }
    static void prepare(int x) { }
    static void log(int x) { }
    enum Mode { FAST(1 + 0), SLOW(new Object() == null ? 2 : 3); final int v; Mode(int v) { this.v = v; } int get() { return v * 1; } }
    interface Shape { default int area() { int k = 2 * 3; return k; } /* in interface */ }
}
"""


def optional_parts(n=6):
    """Statements with and without their optional parts, side by side (a bare `return;` next to `return x;`, `for (;;)`
    next to a full header, `assert c;` next to `assert c : "m";`, unlabelled next to labelled break/continue)."""
    return ("class Optional {\n" + "".join(
        "  int r%d(int total, boolean c) {\n    for (;;) { if (c) { return total; } break; }\n    for (int i = 0; i < total; i++) { total = total - 1; }\n"
        "    assert c;\n    assert c : \"message %d\";\n    if (c) { return total; }\n    return total + %d;\n  }\n  void v%d(boolean c) {\n    if (c) { return; }\n    return;\n  }\n" % (j, j, j, j)
        for j in range(n)) +
        "  void w(boolean c) {\n    outer: while (c) { if (c) { continue; } if (c) { continue outer; } if (c) { break outer; } break; }\n"
        "    do { c = !c; } while (c);\n    if (c) { c = false; } else { c = true; }\n    if (c) c = false;\n    { }\n    new Object();\n    new Object() { };\n  }\n"
        "}\n")
