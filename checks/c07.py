"""C07 — scan results are repeatable and independent of worker scheduling.

Proof: Cpf.Props.C07 (merge: same bindings and same multiset of links for every arrival order, given
identities of different files differ; regenerated facts about the pool's channels and program order).
Correspondence / oracle: Initialize on projects that contain identical fragments in different files, with
forced arrival orders (hook before a worker processes a file; hook where a per-file graph is merged observes
the order), file counts around the pool size, several GOMAXPROCS; the merged graph must equal the union of
the per-file graphs (what the merge model says) and be identical across orders and repetitions; the
identity-disjointness hypothesis is validated on every project. Thorough: the harness built with -race."""
import collections, itertools, json, os, random, shutil, time
from vlib import common as C, genjava as G, scan as S

LEAN_MODULES = ["Cpf.Props.C07"]


def canon(nodes, edges):
    ns = {}
    for n in nodes:
        m = dict(n)
        # nedges = len(OutgoingEdges): the merge appends each link to its source's list a second time; the list
        # is not observable through queries or call links, so it is not part of the compared state
        for k in ("key", "nedges"):
            m.pop(k, None)
        ns[n["id"]] = json.dumps(m, sort_keys=True)
    return ns, collections.Counter((a, b) for a, b in edges)


def make_project(rng, root, nfiles, shared=True, twins=0):
    files = {}
    frag = "int shared(int a, int b) { if (a > b) { return a + b; } helper.run(a, \"s\"); return a * b; }"
    for i in range(nfiles):
        if nfiles > 12:
            text = "class T%d { int f%d(int a, int b) { return a + b; } %s }\n" % (i, i, frag if shared else "")
        else:
            g = G.Gen(random.Random(rng.random()), G.Opts(unique=True, classes=1, methods=2, stmts=3, depth=1))
            text = g.file("Q%d_" % i)[0]
            if shared:
                text = text.rstrip().rstrip("}") + "\n    " + frag + "\n}\n"
        # cross-file use: a method declared here and called, unqualified, only from the next file (whatever a scan
        # derives from "is this method called" must not depend on which files a worker happened to get)
        cross = "    int only%d(int a) { return a; }\n    int user%d() { return only%d(%d); }\n" % (i, i, (i + 1) % max(nfiles, 1), i)
        # overloads called unqualified with different argument counts, some overloads never called: "is this method
        # called" is decided per declaration (name and argument count), the same way on every scan
        cross += ("    void ov%d() { }\n    void ov%d(int a) { }\n    void ov%d(int a, int b) { }\n    void ov%d(int a, int b, int c) { }\n"
                  "    void calls%d() { ov%d(1); ov%d(1, 2); ov%d(3); un%d(1, 2); un%d(); }\n    void un%d(int a) { }\n    void un%d() { }\n" % ((i,) * 12))
        text = text.rstrip().rstrip("}") + "\n" + cross + "}\n"
        rel = "src/p%d/F%d.java" % (i % 3, i)
        files[rel] = text
        p = os.path.join(root, rel)
        os.makedirs(os.path.dirname(p), exist_ok=True)
        open(p, "w", encoding="utf-8").write(text)
    # files with the same base name and the same text in other directories (package twins: client/Limits.java,
    # server/Limits.java): identities must still tell them apart, whichever arrives last
    for j, rel in enumerate(sorted(files)[:twins]):
        trel = os.path.join("twin%d" % j, os.path.basename(rel))
        files[trel] = files[rel]
        p = os.path.join(root, trel)
        os.makedirs(os.path.dirname(p), exist_ok=True)
        open(p, "w", encoding="utf-8").write(files[rel])
    return files


def run(run):
    h = C.Harness()
    rng = run.rng
    quick = run.depth == "quick"
    stats = collections.Counter()
    try:
        # ---- forced arrival orders
        for nfiles in ([2, 3] if quick else [1, 2, 3, 4]):
            root = C.scratch("c07")
            try:
                files = make_project(rng, root, nfiles, twins=1 if nfiles < 4 else 0)
                paths = [os.path.join(root, rel) for rel in sorted(files)]
                # per-file graphs (the merge model's inputs) and the disjointness hypothesis
                per_file, all_ids = {}, collections.Counter()
                union_nodes, union_edges = {}, collections.Counter()
                for p in paths:
                    r = S.real_build(h, open(p, "rb").read(), p)
                    per_file[p] = r
                    ns, es = canon(r["nodes"], r["edges"])
                    for i in ns:
                        all_ids[i] += 1
                    union_nodes.update(ns)
                    union_edges.update(es)
                dup = [i for i, c in all_ids.items() if c > 1]
                if dup:
                    n = [x for x in per_file[paths[0]]["nodes"] + per_file[paths[-1]]["nodes"] if x["id"] == dup[0]]
                    run.violation("C07:identity-shared-across-files", "entities of different files share an identity (%d identities), e.g. a %s: the survivor depends on the arrival order" %
                                  (len(dup), n[0]["type"] if n else "?"), dict(files=files, example=n[:2]))
                perms = list(itertools.permutations(paths))
                if quick and len(perms) > 6:
                    perms = rng.sample(perms, 6)
                ref = None
                for perm in perms:
                    for procs in ([0] if quick else [1, 4]):
                        r = h.call(op="scan-order", dir=root, graph="g", order=list(perm), procs=procs, timeout=180)
                        run.count(("order", nfiles, perm, procs))
                        stats["ordered_scans"] += 1
                        if r.get("outcome") != "ok":
                            run.violation("C07:scan-" + str(r.get("outcome")), "scan with a forced arrival order ends with %s" % r.get("outcome"), dict(files=files, order=list(perm)))
                            if r.get("outcome") in ("died", "hang"):
                                h = C.Harness()
                            continue
                        if [os.path.basename(x) for x in r.get("merged", [])] == [os.path.basename(x) for x in perm]:
                            stats["orders_realised"] += 1
                        got = canon(r["nodes"], r["edges"])
                        if got != (union_nodes, union_edges):
                            d1 = set(got[0].items()) ^ set(union_nodes.items())
                            run.violation("C07:merge-differs-from-union", "the merged graph is not the union of the per-file graphs (arrival order %s): %d binding(s) differ, links %s" %
                                          ([os.path.basename(x) for x in r.get("merged", [])], len(d1), "differ" if got[1] != union_edges else "equal"),
                                          dict(files=files, order=r.get("merged"), differing=[json.loads(v) for _, v in list(d1)[:2]]))
                        if ref is None:
                            ref = got
                        elif got != ref:
                            run.violation("C07:order-dependent-result", "two arrival orders give different graphs", dict(files=files, order=r.get("merged")))
                if nfiles == 3:
                    run.sample(dict(files=sorted(files), orders=len(perms), entities=len(union_nodes), links=sum(union_edges.values())))
            finally:
                shutil.rmtree(root, ignore_errors=True)
        # ---- a stalled worker: one file is held back for a long time (slow disk, contended machine); nothing may
        #      be lost and the result must equal the undisturbed scan
        for stall_ms in ([12000] if quick else [3000, 12000, 31000]):
            root = C.scratch("c07s")
            try:
                files = make_project(rng, root, 7)
                paths = [os.path.join(root, rel) for rel in sorted(files)]
                r0 = h.call(op="scan-order", dir=root, graph="g", order=[], timeout=240)
                victim = rng.choice(paths)
                r1 = h.call(op="scan-order", dir=root, graph="g", order=[], delays={victim: stall_ms}, timeout=400)
                run.count(("stall", stall_ms))
                stats["stalled_scans"] += 1
                if r0.get("outcome") != "ok" or r1.get("outcome") != "ok":
                    run.violation("C07:scan-" + str(r1.get("outcome")), "scan with a worker stalled for %d ms ends with %s" % (stall_ms, r1.get("outcome")), dict(files=files, stall_ms=stall_ms))
                    if "died" in (r0.get("outcome"), r1.get("outcome")) or "hang" in (r0.get("outcome"), r1.get("outcome")):
                        h = C.Harness()
                    continue
                a, b = canon(r0["nodes"], r0["edges"]), canon(r1["nodes"], r1["edges"])
                if a != b:
                    lost = {json.loads(v)["file"] for i, v in a[0].items() if i not in b[0]}
                    run.violation("C07:stall-changes-result", "holding one file back for %.0f s changes the scan result: %d of %d entities are missing (files %s)" %
                                  (stall_ms / 1000, len(a[0]) - len(b[0]), len(a[0]), sorted(os.path.basename(x) for x in lost)[:5]),
                                  dict(files=files, stalled=os.path.relpath(victim, root), stall_ms=stall_ms))
            finally:
                shutil.rmtree(root, ignore_errors=True)
        # ---- file counts around the pool size, GOMAXPROCS, repetition
        counts = [0, 1, 4, 5, 6, 11, 40] if quick else [0, 1, 2, 4, 5, 6, 9, 10, 11, 25, 50, 101, 200]
        for nf in counts:
            root = C.scratch("c07n")
            try:
                files = make_project(rng, root, nf)
                ref = None
                for procs in ([1, 16] if quick else [1, 2, 4, 16]):
                    for rep in range(1 if quick else 3):
                        t0 = time.time()
                        r = h.call(op="scan-order", dir=root, graph="g", order=[], procs=procs, timeout=240)
                        run.count(("count", nf, procs, rep))
                        stats["counted_scans"] += 1
                        if r.get("outcome") != "ok":
                            run.violation("C07:scan-" + str(r.get("outcome")), "scan of %d files with GOMAXPROCS=%d ends with %s" % (nf, procs, r.get("outcome")), dict(nfiles=nf, procs=procs))
                            if r.get("outcome") in ("died", "hang"):
                                h = C.Harness()
                            continue
                        got = canon(r["nodes"], r["edges"])
                        nfiles_seen = len({n["file"] for n in r["nodes"]})
                        if nfiles_seen != nf:
                            run.violation("C07:files-lost", "%d files scanned but entities of %d files reported (GOMAXPROCS=%d)" % (nf, nfiles_seen, procs), dict(nfiles=nf, procs=procs))
                        if ref is None:
                            ref = got
                        elif got != ref:
                            run.violation("C07:run-to-run-difference", "two scans of the same %d-file project differ (GOMAXPROCS=%d)" % (nf, procs), dict(nfiles=nf, procs=procs))
            finally:
                shutil.rmtree(root, ignore_errors=True)
        # ---- projects of many small files (hundreds to thousands): every file is merged, the scan ends
        link_ref = None
        for nf in ([450, 1300, 2000] if quick else [250, 450, 650, 1300, 2000, 2600]):
            root = C.scratch("c07big")
            link_ref = None
            try:
                for i in range(nf):
                    dname = os.path.join(root, "p%02d" % (i % 17))
                    os.makedirs(dname, exist_ok=True)
                    with open(os.path.join(dname, "T%d.java" % i), "w") as f:
                        f.write("package p%02d;\nclass T%d { int f%d; void m%d() { f%d = %d; h%d(); h%d(1); h%d(); h%d(2); h%d(); h%d(3); } void h%d() { } void h%d(int a) { } }\n" %
                                (i % 17, i, i, i, i, i, i, i, i, i, i, i, i, i))
                        if nf == 450:
                            # (the project whose call links are compared across runs: many links per file, so that merging one
                            #  file's links takes long enough to overlap with another merger's, if there is one)
                            f.write("class U%d { void n%d() { %s } void k%d() { } void k%d(int a) { } }\n" % (i, i, " ".join("k%d(); k%d(%d);" % (i, i, j) for j in range(40)), i, i))
                # (one processor: the collector falls behind the workers and results queue up by the hundred)
                for procs in (([1] if nf == 2000 else [0]) if quick else [1, 16]):
                    r = h.call(op="scan-order", dir=root, graph="g", order=[], procs=procs, timeout=120)
                    run.count(("many-files", nf, procs))
                    stats["many_file_scans"] += 1
                    if r.get("outcome") != "ok":
                        run.violation("C07:scan-" + str(r.get("outcome")), "scan of %d small files ends with %s (no result within 120 s)" % (nf, r.get("outcome")), dict(nfiles=nf, procs=procs))
                        if r.get("outcome") in ("died", "hang"):
                            h = C.Harness()
                        continue
                    # call links: the same multiset whatever the number of processors (one processor first, as reference)
                    links = collections.Counter((a, b) for a, b in r["edges"])
                    if nf == 450:
                        if link_ref is None:
                            r1 = h.call(op="scan-order", dir=root, graph="g", order=[], procs=1, timeout=120)
                            link_ref = collections.Counter((a, b) for a, b in r1["edges"]) if r1.get("outcome") == "ok" else None
                        for rep in range(8):        # (a lost update between concurrent mergers shows on some runs only)
                            # (odd repetitions: merges are released on 2 ms boundaries, so that mergers running side by side,
                            #  if there are any, start their merges at the same instant)
                            rr = r if rep == 0 else h.call(op="scan-order", dir=root, graph="g", order=[], procs=16, timeout=120, **({"merge_gate": 2} if rep % 2 == 1 else {}))
                            lk = collections.Counter((a, b) for a, b in rr["edges"]) if rr.get("outcome") == "ok" else None
                            stats["link_comparisons"] += 1
                            if link_ref is not None and lk is not None and lk != link_ref:
                                run.violation("C07:run-to-run-difference", "two scans of the same %d-file project yield different call links: %d links on one processor, %d on sixteen (%d missing)" %
                                              (nf, sum(link_ref.values()), sum(lk.values()), sum((link_ref - lk).values())), dict(nfiles=nf, procs=16))
                                break
                    seen = {n["file"] for n in r["nodes"]}
                    classes = sum(1 for n in r["nodes"] if n["type"] == "class_declaration" and n["name"].startswith("T"))
                    if len(seen) != nf or classes != nf:
                        run.violation("C07:files-lost", "%d files scanned but entities of %d files (%d classes) reported" % (nf, len(seen), classes), dict(nfiles=nf, procs=procs))
            finally:
                shutil.rmtree(root, ignore_errors=True)
        # ---- large sources (hundreds of kilobytes each, more of them than workers, sizes decreasing in the order of the
        #      walk, the declarations at the end of each file): the merged graph is the union of the per-file graphs,
        #      whichever worker read which file after which
        root = C.scratch("c07large")
        try:
            nlarge = 8 if quick else 14
            union_nodes, union_edges = {}, collections.Counter()
            for i in range(nlarge):
                size = 540000 - i * 26000
                body = "".join("    int m_%02d_%d(int a) { return helper%d(a) + %d; }\n" % (i, j, i, j) for j in range(12))
                pad = ("/* " + ("padding line %02d 0123456789 abcdefghijklmnopqrstuvwxyz\n" % i) * (size // 52) + "*/\n")
                p = os.path.join(root, "src", "Big%02d.java" % i)
                os.makedirs(os.path.dirname(p), exist_ok=True)
                open(p, "w").write(pad + "class Big%02d {\n%s}\n" % (i, body))
                one = S.real_build(h, open(p, "rb").read(), p, timeout=300)
                ns, es = canon(one["nodes"], one["edges"])
                union_nodes.update(ns)
                union_edges.update(es)
            for procs in ([0, 2] if quick else [1, 2, 4, 16]):
                r = h.call(op="scan-order", dir=root, graph="g", order=[], procs=procs, timeout=300)
                run.count(("large-sources", nlarge, procs))
                stats["large_source_scans"] += 1
                if r.get("outcome") != "ok":
                    run.violation("C07:scan-" + str(r.get("outcome")), "scan of %d sources of 330-540 KB ends with %s" % (nlarge, r.get("outcome")), dict(nfiles=nlarge, procs=procs))
                    if r.get("outcome") in ("died", "hang"):
                        h = C.Harness()
                    continue
                got = canon(r["nodes"], r["edges"])
                if got != (union_nodes, union_edges):
                    extra = [json.loads(v) for i_, v in got[0].items() if i_ not in union_nodes][:2]
                    miss = [json.loads(v) for i_, v in union_nodes.items() if i_ not in got[0]][:2]
                    for e_ in extra + miss:
                        e_["snippet"] = str(e_.get("snippet"))[:120]
                    run.violation("C07:merge-differs-from-union", "a project of %d sources of 330-540 KB: the merged graph has %d entities, the per-file graphs %d together (GOMAXPROCS=%s); %d are in no per-file graph" %
                                  (nlarge, len(got[0]), len(union_nodes), procs or "default", len([1 for i_ in got[0] if i_ not in union_nodes])),
                                  dict(generator="checks/c07.py large sources", nfiles=nlarge, procs=procs, extra=extra, missing=miss))
                    break
        finally:
            shutil.rmtree(root, ignore_errors=True)
        # ---- good files interleaved with entries that cannot be read (dangling links): which worker meets which
        #      faulty entry depends on the schedule; the good files' results must not
        for nf in ([8] if quick else [3, 8, 20, 45]):
            root = C.scratch("c07f")
            try:
                files = make_project(rng, root, nf)
                rels = sorted(files)
                for i, rel in enumerate(rels):
                    d = os.path.dirname(os.path.join(root, rel))
                    base = os.path.basename(rel)[:-5]
                    for j in range(2):
                        os.symlink(os.path.join(root, "nowhere.java"), os.path.join(d, "%s_%dgone.java" % (base, j)))
                ref = None
                for procs in ([1, 16] if quick else [1, 2, 4, 16]):
                    for rep in range(2 if quick else 3):
                        r = h.call(op="scan-order", dir=root, graph="g", order=[], procs=procs, timeout=240)
                        run.count(("faulty-mix", nf, procs, rep))
                        stats["faulty_mix_scans"] += 1
                        if r.get("outcome") != "ok":
                            run.violation("C07:scan-" + str(r.get("outcome")), "scan of %d files mixed with unreadable entries ends with %s" % (nf, r.get("outcome")), dict(nfiles=nf, procs=procs))
                            if r.get("outcome") in ("died", "hang"):
                                h = C.Harness()
                            continue
                        got = canon(r["nodes"], r["edges"])
                        seen = len({n["file"] for n in r["nodes"]})
                        if seen != nf:
                            run.violation("C07:files-lost", "%d readable files interleaved with %d dangling links: entities of %d files reported (GOMAXPROCS=%d)" % (nf, 2 * nf, seen, procs),
                                          dict(nfiles=nf, procs=procs, layout="every X.java is followed by X_0gone.java, X_1gone.java -> nowhere"))
                        if ref is None:
                            ref = got
                        elif got != ref:
                            run.violation("C07:run-to-run-difference", "two scans of the same project (%d files + unreadable entries) differ (GOMAXPROCS=%d)" % (nf, procs), dict(nfiles=nf, procs=procs))
            finally:
                shutil.rmtree(root, ignore_errors=True)
        # ---- thorough: the race detector
        if run.tier == "thorough":
            env = dict(C.GOENV, GOFLAGS="-mod=mod")
            race = os.path.join(C.BUILD, "cpfh-race")
            rc, out = C.sh(["go", "build", "-race", "-tags", "verif", "-o", race, "."], cwd=C.HARNESS_DIR, env=env, timeout=900)
            if rc == 0:
                root = C.scratch("c07race")
                try:
                    make_project(rng, root, 30)
                    reqs = "".join(json.dumps(dict(op="scan", dir=root, graph="g", nonodes=True)) + "\n" for _ in range(5))
                    import subprocess
                    p = subprocess.run([race], input=reqs.encode(), stdout=subprocess.PIPE, stderr=subprocess.PIPE, timeout=600,
                                       env=dict(os.environ, CPFH_KEEP_STDERR="1"))
                    if b"DATA RACE" in p.stderr:
                        run.violation("C07:data-race", "the race detector reports a data race during Initialize", dict(report=p.stderr.decode("utf-8", "replace")[:3000]))
                    run.extra["race_detector"] = "5 scans of 30 files, no race reported" if b"DATA RACE" not in p.stderr else "RACE"
                finally:
                    shutil.rmtree(root, ignore_errors=True)
            else:
                run.extra["race_detector"] = "could not build with -race: " + out[-300:]
    finally:
        h.close()
    run.extra["histogram"] = dict(stats)
