/-
  Every tree the recogniser returns conforms to the grammar: each node's children form a forest that
  matches the right-hand side of the node's rule (`Conf`). From conformance to the *generated* grammar we
  derive the well-formedness (`wfTree`) the listener relies on.
-/
import Cpf.Lemmas.Recog
import Cpf.Lemmas.Dedup
import Cpf.Query.WF
import Cpf.Generated.Grammar

namespace Cpf.Query

/-- forest-level derivation: the forest `f` has the shape of right-hand side `r` -/
inductive Matches (g : Grammar) : Rhs → List PT → Prop
  | eps : Matches g .eps []
  | tok {k : String} {t : Token} : t.kind = k → Matches g (.tok k) [PT.leaf t]
  | nt {n : String} {r : Rhs} {f : List PT} : lookup g n = some r → Matches g r f → Matches g (.nt n) [PT.node n f]
  | seq {a b : Rhs} {f1 f2 : List PT} : Matches g a f1 → Matches g b f2 → Matches g (.seq a b) (f1 ++ f2)
  | altL {a b : Rhs} {f : List PT} : Matches g a f → Matches g (.alt a b) f
  | altR {a b : Rhs} {f : List PT} : Matches g b f → Matches g (.alt a b) f
  | starNil {a : Rhs} : Matches g (.star a) []
  | starCons {a : Rhs} {f1 f2 : List PT} : Matches g a f1 → Matches g (.star a) f2 → Matches g (.star a) (f1 ++ f2)

theorem parse_matches (g : Grammar) : ∀ (f : Nat) (r : Rhs) (ts : List Token) (p : List PT × List Token),
    p ∈ parse g f r ts → Matches g r p.1 := by
  intro f r ts
  fun_induction parse g f r ts with
  | case1 f ts => intro p hp; simp at hp; subst hp; exact Matches.eps
  | case2 f t rest => intro p hp; simp at hp; subst hp; exact Matches.tok rfl
  | case3 f k t rest hk => intro p hp; simp at hp
  | case4 f k => intro p hp; simp at hp
  | case5 n ts => intro p hp; simp at hp
  | case6 f n ts hl => intro p hp; simp at hp
  | case7 f n ts rhs hl ih =>
      intro p hp
      simp only [List.mem_map] at hp
      obtain ⟨q, hq, rfl⟩ := hp
      exact Matches.nt hl (ih q hq)
  | case8 f a b ts ihb iha =>
      intro p hp
      simp only [List.mem_flatMap, List.mem_map] at hp
      obtain ⟨q, hq, s, hs, rfl⟩ := hp
      exact Matches.seq (iha q hq) (ihb q s hs)
  | case9 f a b ts iha ihb =>
      intro p hp
      simp only [List.mem_append] at hp
      rcases hp with hp | hp
      · exact Matches.altL (iha p hp)
      · exact Matches.altR (ihb p hp)
  | case10 a ts => intro p hp; simp at hp; subst hp; exact Matches.starNil
  | case11 f a ts ihs iha =>
      intro p hp
      simp only [List.mem_append, List.mem_flatMap, List.mem_map, List.mem_singleton] at hp
      rcases hp with ⟨q, hq, s, hs, rfl⟩ | rfl
      · exact Matches.starCons (iha q hq) (ihs q s hs)
      · exact Matches.starNil

/-- a conforming tree: every node's children match its rule's right-hand side -/
inductive Conf (g : Grammar) : PT → Prop
  | leaf (t : Token) : Conf g (PT.leaf t)
  | node {n : String} {r : Rhs} {f : List PT} : lookup g n = some r → Matches g r f → (∀ c ∈ f, Conf g c) → Conf g (PT.node n f)

theorem matches_conf (g : Grammar) {r : Rhs} {f : List PT} (h : Matches g r f) : ∀ c ∈ f, Conf g c := by
  induction h with
  | eps => intro c hc; simp at hc
  | tok _ => intro c hc; simp at hc; subst hc; exact Conf.leaf _
  | nt hl hm ih => intro c hc; simp at hc; subst hc; exact Conf.node hl hm ih
  | seq _ _ ih1 ih2 => intro c hc; rcases List.mem_append.1 hc with h | h; exact ih1 c h; exact ih2 c h
  | altL _ ih => exact ih
  | altR _ ih => exact ih
  | starNil => intro c hc; simp at hc
  | starCons _ _ ih1 ih2 => intro c hc; rcases List.mem_append.1 hc with h | h; exact ih1 c h; exact ih2 c h

/-! ### inversions -/

theorem matches_nt_inv {g : Grammar} {n : String} {f : List PT} (h : Matches g (.nt n) f) : ∃ f', f = [PT.node n f'] := by
  cases h with
  | nt _ _ => exact ⟨_, rfl⟩

theorem matches_tok_inv {g : Grammar} {k : String} {f : List PT} (h : Matches g (.tok k) f) : ∃ t, f = [PT.leaf t] ∧ t.kind = k := by
  cases h with
  | tok hk => exact ⟨_, rfl, hk⟩

theorem matches_seq_inv {g : Grammar} {a b : Rhs} {f : List PT} (h : Matches g (.seq a b) f) :
    ∃ f1 f2, f = f1 ++ f2 ∧ Matches g a f1 ∧ Matches g b f2 := by
  cases h with
  | seq h1 h2 => exact ⟨_, _, rfl, h1, h2⟩

open Cpf.Generated

/-- the rules whose shape the listener relies on, as they are in the *generated* grammar -/
theorem rule_select_item : lookup grammar "select_item" = some (.seq (.nt "entity") (.seq (.tok "AS") (.nt "alias"))) := by decide
theorem rule_parameter : lookup grammar "parameter" = some (.seq (.nt "type") (.tok "IDENTIFIER")) := by decide
theorem rule_predicate_invocation : lookup grammar "predicate_invocation" =
    some (.seq (.nt "predicate_name") (.seq (.tok "'('") (.seq (.alt (.nt "argument_list") .eps) (.tok "')'")))) := by decide
theorem rule_predicate_declaration : lookup grammar "predicate_declaration" =
    some (.seq (.tok "PREDICATE") (.seq (.nt "predicate_name") (.seq (.tok "'('") (.seq (.alt (.nt "parameter_list") .eps)
      (.seq (.tok "')'") (.seq (.tok "'{'") (.seq (.nt "expression") (.tok "'}'")))))))) := by decide

theorem conf_node_inv {g : Grammar} {n : String} {f : List PT} (h : Conf g (PT.node n f)) :
    ∃ r, lookup g n = some r ∧ Matches g r f ∧ ∀ c ∈ f, Conf g c := by
  cases h with
  | node hl hm hc => exact ⟨_, hl, hm, hc⟩

theorem select_item_children (c : PT) (hc : Conf grammar c) (hr : c.isRule "select_item" = true) :
    ((c.child? "entity").isSome && (c.child? "alias").isSome) = true := by
  cases c with
  | leaf t => simp [PT.isRule] at hr
  | node n f =>
      have hn : n = "select_item" := by simpa [PT.isRule] using hr
      subst hn
      obtain ⟨r, hl, hm, _⟩ := conf_node_inv hc
      rw [rule_select_item] at hl
      cases hl
      obtain ⟨f1, f2, rfl, h1, h2⟩ := matches_seq_inv hm
      obtain ⟨fe, rfl⟩ := matches_nt_inv h1
      obtain ⟨f3, f4, rfl, h3, h4⟩ := matches_seq_inv h2
      obtain ⟨t, rfl, _⟩ := matches_tok_inv h3
      obtain ⟨fa, rfl⟩ := matches_nt_inv h4
      simp [PT.child?, PT.children, PT.isRule, List.find?]

theorem parameter_children (c : PT) (hc : Conf grammar c) (hr : c.isRule "parameter" = true) :
    ((c.child? "type").isSome && (firstLeaf? c "IDENTIFIER").isSome) = true := by
  cases c with
  | leaf t => simp [PT.isRule] at hr
  | node n f =>
      have hn : n = "parameter" := by simpa [PT.isRule] using hr
      subst hn
      obtain ⟨r, hl, hm, _⟩ := conf_node_inv hc
      rw [rule_parameter] at hl
      cases hl
      obtain ⟨f1, f2, rfl, h1, h2⟩ := matches_seq_inv hm
      obtain ⟨ft, rfl⟩ := matches_nt_inv h1
      obtain ⟨t, rfl, hk⟩ := matches_tok_inv h2
      simp [PT.child?, PT.children, PT.isRule, List.find?, firstLeaf?, PT.isTok, hk]

theorem nodeOk_of_conf (p : PT) (hp : Conf grammar p) : nodeOk p = true := by
  cases p with
  | leaf t => rfl
  | node n f =>
      obtain ⟨r, hl, hm, hch⟩ := conf_node_inv hp
      unfold nodeOk
      simp only
      by_cases h1 : n = "select_list"
      · simp only [h1, ↓reduceIte, List.all_eq_true]
        intro it hit
        simp only [PT.childrenOf, PT.children, List.mem_filter] at hit
        exact select_item_children it (hch it hit.1) hit.2
      · by_cases h2 : n = "predicate_invocation"
        · subst h2
          rw [rule_predicate_invocation] at hl
          cases hl
          obtain ⟨f1, f2, rfl, ha, _⟩ := matches_seq_inv hm
          obtain ⟨fn, rfl⟩ := matches_nt_inv ha
          simp [PT.child?, PT.children, PT.isRule, List.find?]
        · by_cases h3 : n = "predicate_declaration"
          · rw [if_neg h1, if_neg h2, if_pos h3]
            subst h3
            rw [rule_predicate_declaration] at hl
            cases hl
            obtain ⟨f1, f2, rfl, ha, hb⟩ := matches_seq_inv hm
            obtain ⟨t1, rfl, _⟩ := matches_tok_inv ha
            obtain ⟨f3, f4, rfl, hc, hd⟩ := matches_seq_inv hb
            obtain ⟨fn, rfl⟩ := matches_nt_inv hc
            obtain ⟨f5, f6, rfl, he, hf⟩ := matches_seq_inv hd
            obtain ⟨t2, rfl, _⟩ := matches_tok_inv he
            obtain ⟨f7, f8, rfl, hg, hh⟩ := matches_seq_inv hf
            obtain ⟨f9, f10, rfl, hi, hj⟩ := matches_seq_inv hh
            obtain ⟨t3, rfl, _⟩ := matches_tok_inv hi
            obtain ⟨f11, f12, rfl, hk, hl2⟩ := matches_seq_inv hj
            obtain ⟨t4, rfl, _⟩ := matches_tok_inv hk
            obtain ⟨f13, f14, rfl, hm2, hn2⟩ := matches_seq_inv hl2
            obtain ⟨fe, rfl⟩ := matches_nt_inv hm2
            obtain ⟨t5, rfl, _⟩ := matches_tok_inv hn2
            -- the optional parameter list
            have hpl : f7 = [] ∨ ∃ fp, f7 = [PT.node "parameter_list" fp] := by
              cases hg with
              | altL h => obtain ⟨fp, rfl⟩ := matches_nt_inv h; exact Or.inr ⟨fp, rfl⟩
              | altR h => cases h; exact Or.inl rfl
            rcases hpl with rfl | ⟨fp, rfl⟩
            · simp [PT.child?, PT.children, PT.isRule, List.find?]
            · simp only [Bool.and_eq_true]
              refine ⟨by simp [PT.child?, PT.children, PT.isRule, List.find?], ?_⟩
              have hfind : (PT.node "predicate_declaration" ([PT.leaf t1] ++ ([PT.node "predicate_name" fn] ++ ([PT.leaf t2] ++
                  ([PT.node "parameter_list" fp] ++ ([PT.leaf t3] ++ ([PT.leaf t4] ++ ([PT.node "expression" fe] ++ [PT.leaf t5])))))))).child? "parameter_list"
                  = some (PT.node "parameter_list" fp) := by
                simp [PT.child?, PT.children, PT.isRule, List.find?]
              rw [hfind]
              simp only [List.all_eq_true]
              intro q hq
              simp only [PT.childrenOf, PT.children, List.mem_filter] at hq
              have hplconf : Conf grammar (PT.node "parameter_list" fp) := hch _ (by simp)
              obtain ⟨_, _, _, hpc⟩ := conf_node_inv hplconf
              exact parameter_children q (hpc q hq.1) hq.2
          · simp [h1, h2, h3]

mutual
theorem wf_of_conf : ∀ (p : PT), Conf grammar p → wfTree p = true
  | .leaf _, _ => rfl
  | .node n f, h => by
      obtain ⟨_, _, _, hch⟩ := conf_node_inv h
      simp only [wfTree, Bool.and_eq_true]
      exact ⟨nodeOk_of_conf _ h, wfList_of_conf f hch⟩
theorem wfList_of_conf : ∀ (f : List PT), (∀ c ∈ f, Conf grammar c) → wfList f = true
  | [], _ => rfl
  | c :: cs, h => by
      simp only [wfList, Bool.and_eq_true]
      exact ⟨wf_of_conf c (h c (by simp)), wfList_of_conf cs (fun x hx => h x (by simp [hx]))⟩
end

/-- every tree the recogniser returns for the generated grammar is well-formed for the listener -/
theorem accepted_trees_wf (fuel : Nat) (start : String) (ts : List Token) (t : PT)
    (h : t ∈ parsesOf grammar fuel start ts) : wfTree t = true := by
  simp only [parsesOf, List.mem_filterMap] at h
  obtain ⟨p, hp, hsome⟩ := h
  have hm := parse_matches grammar fuel (.nt start) ts p (parseD_sub grammar fuel (.nt start) ts p hp)
  obtain ⟨forest, rest⟩ := p
  have hconf := matches_conf grammar hm
  cases forest with
  | nil => simp at hsome
  | cons x tl =>
      cases tl with
      | cons _ _ => simp at hsome
      | nil =>
          cases rest with
          | cons _ _ => simp at hsome
          | nil =>
              simp at hsome
              subst hsome
              exact wf_of_conf x (hconf x (by simp))

end Cpf.Query
